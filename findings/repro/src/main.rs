//! Reproducers for the defects listed in ../KNOWN_FINDINGS.md / DESIGN.md §7.
//!
//! This is documentation, not a check: no registered command runs it. It shows
//! each finding against the real code (path dependency on /repo).
//!
//!   cp /repo/Cargo.lock . && cargo build --offline && ./target/debug/repro <mode>
//!
//! modes: cyclic | multi | panic | spin | remove | clear | owned | race | fswatch
use assets_manager::{hot_reloading::EventSender, source::*, *};
use std::io;
use std::sync::{
    atomic::{AtomicBool, AtomicUsize, Ordering},
    Arc, Mutex,
};
use std::time::Duration;

#[derive(Clone, Default)]
struct Mem {
    tx: Arc<Mutex<Option<EventSender>>>,
    val: Arc<Mutex<Vec<u8>>>,
}
impl Source for Mem {
    fn read(&self, _: &str, _: &str) -> io::Result<FileContent> {
        Ok(FileContent::Buffer(self.val.lock().unwrap().clone()))
    }
    fn read_dir(&self, _: &str, _: &mut dyn FnMut(DirEntry)) -> io::Result<()> {
        Ok(())
    }
    fn exists(&self, _: DirEntry) -> bool {
        true
    }
    fn make_source(&self) -> Option<Box<dyn Source + Send>> {
        Some(Box::new(self.clone()))
    }
    fn configure_hot_reloading(&self, ev: EventSender) -> Result<(), BoxedError> {
        *self.tx.lock().unwrap() = Some(ev);
        Ok(())
    }
}

// F1: two assets that look each other up.
struct A(#[allow(dead_code)] i32);
struct B(#[allow(dead_code)] i32);
impl Compound for A {
    fn load(c: AnyCache, id: &SharedString) -> Result<Self, BoxedError> {
        let n = c.raw_source().read(id, "a")?.as_ref().len() as i32;
        Ok(A(n + c.get_cached::<B>("b").map_or(0, |h| h.read().0)))
    }
}
impl Compound for B {
    fn load(c: AnyCache, id: &SharedString) -> Result<Self, BoxedError> {
        let n = c.raw_source().read(id, "b")?.as_ref().len() as i32;
        Ok(B(n + c.get_cached::<A>("a").map_or(0, |h| h.read().0)))
    }
}

// F3: a loader that panics once armed.
static BOOM: AtomicBool = AtomicBool::new(false);
struct P(#[allow(dead_code)] i32);
impl Compound for P {
    fn load(c: AnyCache, id: &SharedString) -> Result<Self, BoxedError> {
        let n = c.raw_source().read(id, "p")?.as_ref().len() as i32;
        if BOOM.load(Ordering::SeqCst) {
            panic!("loader panic");
        }
        Ok(P(n))
    }
}

// F8: a compound whose load can be parked after it has read its file.
static PARK: AtomicBool = AtomicBool::new(false);
static PARKED: AtomicBool = AtomicBool::new(false);
struct R(String);
impl Compound for R {
    fn load(c: AnyCache, id: &SharedString) -> Result<Self, BoxedError> {
        let s = String::from_utf8_lossy(c.raw_source().read(id, "r")?.as_ref()).into_owned();
        if PARK.load(Ordering::SeqCst) {
            PARKED.store(true, Ordering::SeqCst);
            while PARK.load(Ordering::SeqCst) {
                std::thread::sleep(Duration::from_millis(5));
            }
        }
        Ok(R(s))
    }
}

fn reloader_cpu_ticks() -> Vec<u64> {
    let mut v = vec![];
    for e in std::fs::read_dir("/proc/self/task").unwrap() {
        let p = e.unwrap().path();
        let comm = std::fs::read_to_string(p.join("comm")).unwrap_or_default();
        if comm.starts_with("assets_hot_relo") {
            let stat = std::fs::read_to_string(p.join("stat")).unwrap();
            let f: Vec<&str> = stat.rsplit(')').next().unwrap().split_whitespace().collect();
            v.push(f[11].parse::<u64>().unwrap() + f[12].parse::<u64>().unwrap());
        }
    }
    v
}

fn ids<T: asset::DirLoadable>(h: &Handle<Directory<T>>) -> Vec<String> {
    h.read().ids().map(|s| s.to_string()).collect()
}

fn main() {
    let mode = std::env::args().nth(1).expect("mode");
    let src = Mem::default();
    *src.val.lock().unwrap() = b"file".to_vec();
    let send = |e| {
        src.tx.lock().unwrap().clone().unwrap().send(e).unwrap();
        std::thread::sleep(Duration::from_millis(100));
    };
    match mode.as_str() {
        // F1 (C08): expected "returned"; observed: reloader thread overflows its stack, SIGABRT.
        "cyclic" => {
            let cache = AssetCache::with_source(src.clone());
            cache.load::<A>("a").unwrap();
            cache.load::<B>("b").unwrap();
            send(OwnedDirEntry::File("a".into(), "a".into()));
            cache.hot_reload();
            eprintln!("returned");
        }
        // F2 (C08): expected "all done"; observed: STUCK after a few hundred calls (lost wake-up).
        "multi" => {
            let cache = AssetCache::with_source(src.clone());
            let done = AtomicUsize::new(0);
            std::thread::scope(|s| {
                for _ in 0..4 {
                    s.spawn(|| {
                        for _ in 0..20000 {
                            cache.hot_reload();
                            done.fetch_add(1, Ordering::Relaxed);
                        }
                    });
                }
                s.spawn(|| {
                    let mut last = 0;
                    loop {
                        std::thread::sleep(Duration::from_secs(2));
                        let d = done.load(Ordering::Relaxed);
                        if d == 80000 {
                            eprintln!("all done");
                            break;
                        }
                        if d == last {
                            eprintln!("STUCK at {d} calls");
                            std::process::exit(3);
                        }
                        last = d;
                    }
                });
            });
        }
        // F3 (C08/C09): expected "returned"; observed: hot_reload never returns.
        "panic" => {
            let cache = AssetCache::with_source(src.clone());
            cache.load::<P>("p").unwrap();
            BOOM.store(true, Ordering::SeqCst);
            send(OwnedDirEntry::File("p".into(), "p".into()));
            cache.hot_reload();
            eprintln!("returned");
        }
        // F4 (C15): expected no reloader thread / no CPU after drop; observed ~100 ticks/s.
        "spin" => {
            let cache = AssetCache::with_source(src.clone());
            cache.load::<String>("a").unwrap();
            std::thread::sleep(Duration::from_millis(300));
            eprintln!("cache alive, idle: {:?}", reloader_cpu_ticks());
            drop(cache);
            std::thread::sleep(Duration::from_secs(1));
            let a = reloader_cpu_ticks();
            std::thread::sleep(Duration::from_secs(1));
            eprintln!("after drop: {:?} -> {:?} (ticks, 100/s)", a, reloader_cpu_ticks());
        }
        // F5 (C10): expected "inserted"; observed "edited", ReloadId(1).
        // F7 (C10): expected "inserted"; observed "edited", ReloadId(1).
        "owned" => {
            let cache = AssetCache::with_source(src.clone());
            let _ = cache.load_owned::<String>("a").unwrap();
            let h = cache.get_or_insert::<String>("a", "inserted".to_string());
            *src.val.lock().unwrap() = b"edited".to_vec();
            send(OwnedDirEntry::File("a".into(), "txt".into()));
            cache.hot_reload();
            eprintln!("owned: value = {:?}, {:?}", *h.read(), h.last_reload_id());
        }
        // F8 (C10): a load that loses the insertion race against get_or_insert has already registered the key.
        // expected "inserted", NEVER; observed "edited", ReloadId(1).
        "race" => {
            let cache = AssetCache::with_source(src.clone());
            PARK.store(true, Ordering::SeqCst);
            std::thread::scope(|s| {
                let t = s.spawn(|| cache.load::<R>("a").map(|h| h.read().0.clone()));
                while !PARKED.load(Ordering::SeqCst) {
                    std::thread::sleep(Duration::from_millis(5));
                }
                // the loader is past its cache miss and has read the file; insert a value under the same key now
                let h = cache.get_or_insert::<R>("a", R("inserted".to_string()));
                PARK.store(false, Ordering::SeqCst);
                let seen_by_loader = t.join().unwrap().unwrap();
                *src.val.lock().unwrap() = b"edited".to_vec();
                send(OwnedDirEntry::File("a".into(), "r".into()));
                cache.hot_reload();
                eprintln!("race: load() returned {:?}; get_or_insert value = {:?}, {:?}", seen_by_loader, h.read().0, h.last_reload_id());
            });
        }
        "remove" | "clear" => {
            let mut cache = AssetCache::with_source(src.clone());
            cache.load::<String>("a").unwrap();
            if mode == "remove" {
                assert!(cache.remove::<String>("a"));
            } else {
                cache.clear();
            }
            let h = cache.get_or_insert::<String>("a", "inserted".to_string());
            *src.val.lock().unwrap() = b"edited".to_vec();
            send(OwnedDirEntry::File("a".into(), "txt".into()));
            cache.hot_reload();
            eprintln!("{mode}: value = {:?}, {:?}", *h.read(), h.last_reload_id());
        }
        // F6/F7 (C12): real watcher. Root listing never refreshed; rename leaves parent stale.
        "fswatch" => {
            let root = std::env::temp_dir().join(format!("am_repro_{}", std::process::id()));
            let _ = std::fs::remove_dir_all(&root);
            std::fs::create_dir_all(root.join("d")).unwrap();
            std::fs::write(root.join("top.txt"), "t").unwrap();
            std::fs::write(root.join("d/a.txt"), "a").unwrap();
            let cache = AssetCache::new(&root).unwrap();
            let settle = || {
                std::thread::sleep(Duration::from_millis(300));
                cache.hot_reload();
            };
            let rootdir = cache.load_dir::<String>("").unwrap();
            let d = cache.load_dir::<String>("d").unwrap();
            std::fs::write(root.join("new.txt"), "n").unwrap();
            settle();
            eprintln!("root after creating new.txt: {:?} (expected to contain \"new\")", ids(rootdir));
            std::fs::rename(root.join("d/a.txt"), root.join("d/b.txt")).unwrap();
            settle();
            eprintln!("d after mv a.txt b.txt: {:?} (expected [\"d.b\"])", ids(d));
            let _ = std::fs::remove_dir_all(&root);
        }
        _ => panic!("unknown mode"),
    }
}
