"""Fact extraction: runs the amfacts driver over /repo for a matrix of feature
configurations, each in a fresh CARGO_TARGET_DIR (cargo's freshness cache
would otherwise skip the wrapper), caches the JSON by a hash of the tree."""
import fcntl
import hashlib
import os
import shutil
import subprocess
import sys
import tempfile
import time
from concurrent.futures import ThreadPoolExecutor

VERIF = os.path.dirname(os.path.dirname(os.path.abspath(__file__)))
REPO = os.environ.get('AM_REPO', '/repo')
DRIVER = os.path.join(VERIF, 'sa', 'driver', 'target', 'release', 'amfacts')
CACHE = os.environ.get('AM_CACHE') or os.path.join(VERIF, '.cache', 'facts')

# configuration matrix (DESIGN.md 2.2)
CONFIGS = {
    'A': 'ahash',
    'B': 'ahash,hot-reloading',
    'C': 'ahash,hot-reloading,parking_lot',
    'D': 'hot-reloading',
    'E': 'ahash,hot-reloading,utils,zip,tar,embedded,serde',
}
QUICK = ['A', 'B', 'C', 'D', 'E']
_ALL = 'utils,zip,tar,embedded,serde'
THOROUGH_EXTRA = {}
for _i, (_ah, _pl, _hr) in enumerate([(a, p, h) for a in (0, 1) for p in (0, 1) for h in (0, 1)]):
    base = [x for x, on in (('ahash', _ah), ('parking_lot', _pl), ('hot-reloading', _hr)) if on]
    THOROUGH_EXTRA['T%db' % _i] = ','.join(base)
    THOROUGH_EXTRA['T%df' % _i] = ','.join(base + [_ALL])


def features_of(cfg):
    return CONFIGS.get(cfg) if cfg in CONFIGS else THOROUGH_EXTRA[cfg]


def tree_hash(repo=REPO):
    h = hashlib.sha256()
    files = []
    for root, dirs, fs in os.walk(repo):
        dirs[:] = sorted(d for d in dirs if d not in ('.git', 'target', 'assets', 'examples'))
        for f in sorted(fs):
            if f.endswith('.rs') or f in ('Cargo.toml', 'Cargo.lock'):
                files.append(os.path.join(root, f))
    for p in files:
        h.update(os.path.relpath(p, repo).encode())
        h.update(b'\0')
        with open(p, 'rb') as f:
            h.update(f.read())
        h.update(b'\0')
    # the driver is part of the key too
    try:
        with open(DRIVER, 'rb') as f:
            h.update(hashlib.sha256(f.read()).digest())
    except OSError:
        pass
    return h.hexdigest()[:24]


def nightly_sysroot():
    return subprocess.check_output(['rustc', '+nightly', '--print', 'sysroot'], text=True).strip()


def _extract_one(cfg, outpath, repo, sysroot):
    feats = features_of(cfg)
    tmp = tempfile.mkdtemp(prefix='amfacts-%s-' % cfg)
    try:
        out = os.path.join(tmp, 'out')
        os.makedirs(out)
        env = dict(os.environ)
        env.update({
            'LD_LIBRARY_PATH': sysroot + '/lib' + (':' + env['LD_LIBRARY_PATH'] if env.get('LD_LIBRARY_PATH') else ''),
            'RUSTFLAGS': '-Zmir-opt-level=0 -Cdebug-assertions=off -Awarnings',
            'RUSTC_WORKSPACE_WRAPPER': DRIVER,
            'RUSTC_ICE': '0',
            'AMFACTS_OUT': out,
            'CARGO_TARGET_DIR': os.path.join(tmp, 'target'),
            'CARGO_NET_OFFLINE': 'true',
            'CARGO_INCREMENTAL': '0',
        })
        env.pop('RUSTC_WRAPPER', None)
        cmd = ['cargo', '+nightly', 'check', '--offline', '--lib', '-p', 'assets_manager',
               '--no-default-features']
        if feats:
            cmd += ['--features', feats]
        p = subprocess.run(cmd, cwd=repo, env=env, stdout=subprocess.PIPE, stderr=subprocess.STDOUT, text=True)
        src = os.path.join(out, 'assets_manager.json')
        if p.returncode != 0 or not os.path.exists(src):
            return cfg, False, p.stdout[-4000:]
        os.makedirs(os.path.dirname(outpath), exist_ok=True)
        shutil.move(src, outpath + '.tmp%d' % os.getpid())
        os.replace(outpath + '.tmp%d' % os.getpid(), outpath)
        return cfg, True, ''
    finally:
        shutil.rmtree(tmp, ignore_errors=True)


def ensure_facts(cfgs, repo=REPO, verbose=True):
    """returns ({cfg: path}, tree_hash); raises RuntimeError when the tree
    does not build in some configuration (a build failure is not a verdict)"""
    if not os.path.exists(DRIVER):
        raise RuntimeError('driver not built: run setup_cmd (cargo +nightly build --release in sa/driver)')
    th = tree_hash(repo)
    d = os.path.join(CACHE, th)
    os.makedirs(d, exist_ok=True)
    lock = open(os.path.join(d, '.lock'), 'w')
    fcntl.flock(lock, fcntl.LOCK_EX)
    try:
        missing = [c for c in cfgs if not os.path.exists(os.path.join(d, c + '.json'))]
        if missing:
            t0 = time.time()
            sysroot = nightly_sysroot()
            with ThreadPoolExecutor(max_workers=min(len(missing), 8)) as ex:
                res = list(ex.map(lambda c: _extract_one(c, os.path.join(d, c + '.json'), repo, sysroot), missing))
            bad = [(c, log) for c, ok, log in res if not ok]
            if verbose:
                print('[extract] %d configuration(s) analysed in %.1fs (tree %s)' % (len(missing), time.time() - t0, th),
                      file=sys.stderr)
            if bad:
                raise RuntimeError('fact extraction failed for cfg %s:\n%s' % (bad[0][0], bad[0][1]))
        _prune(th)
    finally:
        fcntl.flock(lock, fcntl.LOCK_UN)
        lock.close()
    return {c: os.path.join(d, c + '.json') for c in cfgs}, th


def _prune(keep):
    """keep the cache small: only the 3 most recent trees"""
    try:
        ds = [(os.path.getmtime(os.path.join(CACHE, x)), x) for x in os.listdir(CACHE)]
        ds.sort(reverse=True)
        now = time.time()
        for mt, x in ds[4:]:
            if x != keep and now - mt > 3600:
                shutil.rmtree(os.path.join(CACHE, x), ignore_errors=True)
    except OSError:
        pass


if __name__ == '__main__':
    cfgs = sys.argv[1:] or QUICK
    paths, th = ensure_facts(cfgs)
    print(th)
    for c, p in paths.items():
        print(c, p, os.path.getsize(p))
