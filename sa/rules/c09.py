"""C09 -- faults while loading are contained.  Control-flow clauses: what happens
on each Err / unwind edge (DESIGN.md section 4, C09)."""
import re

import common
from common import user_call_kind
from c02 import r2 as insert_after_success
from c06 import r2 as only_successful_reloads_write
from c08 import r3 as answer_on_every_exit

LEVEL = 'other'
EXPLANATION = (
    'Unwind-edge and Err-edge analysis on the MIR of every configuration: (R1) in the closures of records::record and '
    'records::no_record the CellGuard that replaces the thread-local recording pointer is created before the user '
    'closure is called, is live across it, and its region ends only through Drop terminators on the normal AND the '
    'unwind path; CellGuard::drop stores back the value obtained by replace; RECORDING is written only through '
    'CellGuard; (R2) without parking_lot every std LockResult is produced inside utils::private and flows into wrap(), '
    'which maps PoisonError::into_inner and calls nothing that can panic; (R3) a failed reload reaches neither '
    'UntypedHandle::write nor a dependency-graph mutation (C06.R2 + DepsGraph::reload); (R4) catch_unwind exists only '
    'on the reload path, so panics of an initial load unwind to the caller; plus C02.R2 (`?` before insert) and C08.R3 '
    '(the reloader still answers). Not decided: "later loads pick up the repaired source" as behaviour.')
TRUSTED = ['rustc MIR construction (unwind edges, drop elaboration)', 'std::thread_local / Cell semantics',
           'amfacts driver + rule engine in /verif/sa']

REC = 'hot_reloading::records::'


def region_end_kinds(b, g):
    """how the live range of the guard produced by call `g` can end: set of
    'drop' | 'move' | 'dead' | 'exit'  (exit = return/resume while still held)"""
    ends = []
    reg = b.region_of(g, ends=ends)
    return {k for k, _ in ends}, reg


def run(ctx):
    rep = ctx.report
    R1 = rep.rule('C09.R1', 'dependency recording is restored on every exit (normal and unwind) through CellGuard', floor=5)
    R2 = rep.rule('C09.R2', 'lock poisoning never propagates: LockResult only in utils::private, always through wrap()', floor=4)
    R3 = rep.rule('C09.R3', 'a failed reload leaves value and dependency graph untouched', floor=2)
    R4 = rep.rule('C09.R4', 'catch_unwind only on the reload path: panics of an initial load reach the caller', floor=3)
    S1 = rep.rule('C02.R2', 'failure caches nothing: insert only after the `?` (shared with C02)', floor=2)
    S2 = rep.rule('C06.R2', 'only successful reloads write (shared with C06)', floor=6)
    S3 = rep.rule('C08.R3', 'the reloader still answers when a reload panics (shared with C08)', floor=1)
    S4 = rep.rule('C05.R1', 'an entry is recorded before the source is asked for it, so a failed read is still a dependency and its repair is noticed (shared with C05)', floor=5)
    S5 = rep.rule('C11.R3', 'a directory walk reports the error of the listing it could not make: RecursiveDirectory::load propagates the error of its own directory and of sub_directories, and the default sub_directories returns the result of read_dir as it is (shared with C11)', floor=3)
    for cfg, F in ctx.cfgs():
        hr = 'hot-reloading' in ctx.cfg_features[cfg]
        from c11 import r3 as walk_reports_errors
        walk_reports_errors(S5, cfg, F)
        S5.finish_cfg(cfg)
        if hr:
            from c05 import r1 as record_before_read
            record_before_read(S4, cfg, F)
            S4.finish_cfg(cfg)
        insert_after_success(S1, cfg, F)
        S1.finish_cfg(cfg)
        r4(R4, cfg, F, hr)
        R4.finish_cfg(cfg)
        if 'parking_lot' not in ctx.cfg_features[cfg]:
            r2(R2, cfg, F)
            R2.finish_cfg(cfg)
        if not hr:
            continue
        r1(R1, cfg, F)
        r3(R3, cfg, F)
        only_successful_reloads_write(S2, cfg, F)
        answer_on_every_exit(S3, cfg, F)
        for r in (R1, R3, S2, S3):
            r.finish_cfg(cfg)


def r1(R1, cfg, F):
    for fn, installs in (('record', 'Some'), ('no_record', 'None')):
        cb = F.body(REC + fn + '::{closure#0}')
        if not cb:
            R1.missing(cfg, REC + fn + '::{closure#0}')
            continue
        g = [c for c in cb.calls() if c.callee and c.callee.best == REC + "CellGuard::<'a, T>::replace"]
        f = [c for c in cb.calls() if user_call_kind(c) == 'indirect']
        if len(g) != 1 or len(f) != 1:
            R1.unrecognised(cfg, cb.path, 'one CellGuard::replace and one call of the user closure', cb.loc())
            continue
        g, f = g[0], f[0]
        kinds, reg = region_end_kinds(cb, g)
        ok = (f.bb, f.idx) in reg and cb.dominates(g.bb, f.bb)
        R1.check(ok, cfg, cb.path, 'guard-live-across-user-closure', 'the recording guard must be created before, and be live across, the call of the user closure', f.loc())
        R1.check(kinds == {'drop'}, cfg, cb.path, 'guard-ends-only-by-Drop',
                 'the live range of the recording guard must end only through Drop (on the normal and the unwind path); it ends by %s: '
                 'a manual restore is skipped by a panic and leaves a dangling pointer to a dead Record in the thread-local' % sorted(kinds), g.loc())
        # the guard is live on the unwind edge of the user call too (so the Drop above covers a panic)
        okp = f.unwind is not None and (f.unwind, 0) in reg or (f.unwind is not None and not cb.blocks[f.unwind]['stmts'] and (f.unwind, 0) in reg)
        okp = f.unwind is not None and any(bbx == f.unwind for bbx, _ in reg)
        R1.check(okp, cfg, cb.path, 'guard-live-on-unwind-edge', 'the recording guard is not live on the unwind edge of the user closure: a panic would not restore the recorder', f.loc())
        # what is installed
        ap = cb.access_path(g.args[1])
        from mir import agg_stmts
        ag = agg_stmts(cb, g.args[1])
        okv = len(ag) == 1 and ag[0]['rv'].get('variant_name') == installs
        if installs == 'Some' and okv:
            r = cb.call_roots(ag[0]['rv']['ops'][0])
            okv = len(r) == 1 and 'NonNull' in r[0].callee.best
            # the Record is the closure's own local, and its `records` is what is returned
            rec = [c for c in cb.calls() if c.callee and c.callee.best == REC + 'Record::new']
            okv = okv and len(rec) == 1 and cb.origins(r[0].args[0]) <= {('call', rec[0].bb)}
            rets = [s for _, _, s in cb.assigns() if s['place']['l'] == 0 and s['rv']['k'] == 'aggregate']
            okv = okv and len(rets) == 1 and (cb.access_path(rets[0]['rv']['ops'][1]) or [])[:2] == ['call@bb%d' % rec[0].bb, 'records'] \
                and cb.access_path(rets[0]['rv']['ops'][0]) == ['call@bb%d' % f.bb]
        R1.check(okv, cfg, cb.path, 'installs-' + installs, '%s must install %s as the current recorder (and, for record, return the dependencies of its own Record with the closure result)' % (fn, installs), g.loc())
    # CellGuard protocol
    rp = F.body(REC + "CellGuard::<'a, T>::replace")
    dp = F.body("<hot_reloading::records::CellGuard<'_, T> as std::ops::Drop>::drop")
    if not rp or not dp:
        R1.missing(cfg, 'CellGuard::replace / Drop')
    else:
        rc = [c for c in rp.calls() if c.callee and c.callee.best == 'std::cell::Cell::<T>::replace']
        ag = [s for _, _, s in rp.assigns() if s['place']['l'] == 0 and s['rv']['k'] == 'aggregate']
        ok = len(rc) == 1 and len(ag) == 1 and rp.access_path(rc[0].args[0]) == ['arg1'] and rp.access_path(rc[0].args[1]) == ['arg2']
        if not rc and len(ag) == 1:
            # Cell::replace spelled `let previous = cell.get(); cell.set(new)` (the same for a Copy value: nothing runs in between)
            gt = [c for c in rp.calls() if c.callee and c.callee.best == 'std::cell::Cell::<T>::get']
            st_ = [c for c in rp.calls() if c.callee and c.callee.best == 'std::cell::Cell::<T>::set']
            between = [c for c in rp.calls() if gt and st_ and c not in gt + st_ and c.bb in rp.reachable([gt[0].target] if gt[0].target is not None else []) and st_[0].bb in rp.reachable([c.bb])]
            if len(gt) == 1 and len(st_) == 1 and rp.dominates(gt[0].bb, st_[0].bb) and not between and rp.access_path(gt[0].args[0]) == ['arg1'] \
                    and rp.access_path(st_[0].args[0]) == ['arg1'] and rp.access_path(st_[0].args[1]) == ['arg2'] and common.inevitable(rp, [], st_[0].bb):
                rc, ok = gt, True
        f_cell = f_val = None
        if ok:
            # the two fields are told apart by what is stored in them, not by their names
            for nm, op in zip(ag[0]['rv']['fields'], ag[0]['rv']['ops']):
                ap = rp.access_path(op)
                if ap == ['arg1']:
                    f_cell = nm
                elif ap == ['call@bb%d' % rc[0].bb]:
                    f_val = nm
            ok = f_cell is not None and f_val is not None and len(ag[0]['rv']['ops']) == 2
        R1.check(ok, cfg, rp.path, 'guard-remembers-previous-value', 'CellGuard::replace must remember the previous content of the cell it overwrites', rp.loc())
        sc = [c for c in dp.calls() if c.callee and c.callee.best == 'std::cell::Cell::<T>::set']
        ok = len(sc) == 1 and f_cell is not None and dp.access_path(sc[0].args[0]) == ['arg1', '*', f_cell] and dp.access_path(sc[0].args[1]) == ['arg1', '*', f_val]
        R1.check(ok, cfg, dp.path, 'drop-restores-previous-value', 'CellGuard::drop must store the remembered value back into the same cell', dp.loc())
    # RECORDING is written only through CellGuard
    for c in F.calls_to(r'^std::cell::Cell::<T>::(set|replace|take|swap|update|get_mut|into_inner|as_ptr)$'):
        b = c.body
        ty = c.args[0]['place']['ty'] if c.args and c.args[0]['k'] in ('copy', 'move') else ''
        inside_guard = b.path in (REC + "CellGuard::<'a, T>::replace", "<hot_reloading::records::CellGuard<'_, T> as std::ops::Drop>::drop")
        if 'hot_reloading::records::Record' in ty and not inside_guard:
            R1.bad(cfg, b.path, 'RECORDING-written-outside-CellGuard', 'the recording cell is modified with `%s` outside CellGuard' % c.callee.best, c.loc())
        elif b.path.startswith(REC) or 'records::CellGuard' in b.path:
            okp = b.path in (REC + "CellGuard::<'a, T>::replace", "<hot_reloading::records::CellGuard<'_, T> as std::ops::Drop>::drop")
            R1.check(okp, cfg, b.path, 'cell-mutation-inside-CellGuard', 'a Cell is modified in hot_reloading::records outside CellGuard', c.loc())


def r2(R2, cfg, F):
    prod = []
    for c in F.all_calls():
        if not c.callee or c.exp:
            continue
        out = c.callee.sig_output or ''
        if re.search(r'LockResult<|TryLockResult<|PoisonError<', out) and c.callee.krate == 'std':
            prod.append(c)
    for c in prod:
        b = c.body
        inmod = b.path.startswith('utils::private::')
        users = [u for l in b.flows_to(c.dest['l']) for u in b.uses_of(l) if u[0] == 'call']
        ok = inmod and len(users) == 1 and users[0][2].callee and users[0][2].callee.best == 'utils::private::wrap'
        R2.check(ok, cfg, b.path, 'LockResult->wrap:' + c.callee.name,
                 'the LockResult of `%s` must be produced in utils::private and go straight into wrap(); consumed by %s'
                 % (c.callee.best, [u[2].callee.best if u[2].callee else '?' for u in users]), c.loc())
    wb = F.body('utils::private::wrap')
    if not wb:
        R2.missing(cfg, 'utils::private::wrap')
    else:
        # (normal form) Ok(guard) => guard, Err(poison) => poison.into_inner(); nothing else, nothing that can panic
        cs = [c for c in wb.calls()]
        names = [c.callee.best if c.callee else '?' for c in cs]
        ok = len(cs) == 1 and names[0] == 'std::sync::PoisonError::<T>::into_inner' and cs[0].target is not None \
            and common.deep_path(wb, cs[0].args[0]) == ['arg1', 'as:Err', '0'] and cs[0].dest['l'] == 0 and not cs[0].dest['p']
        rets = [st for _, _, st in wb.assigns() if st['place']['l'] == 0 and not st['place']['p']]
        ok = ok and len(rets) >= 1 and all(st['rv']['k'] == 'use' and common.deep_path(wb, st['rv']['op']) == ['arg1', 'as:Ok', '0'] for st in rets)
        R2.check(ok, cfg, wb.path, 'wrap=unwrap_or_else(PoisonError::into_inner)', 'wrap() must ignore poisoning without panicking; it calls %s' % names, wb.loc())
    for c in F.calls_to(r'^std::result::Result::<T, E>::(unwrap|expect)$|^std::sync::(LockResult|PoisonError)'):
        if re.search(r'LockResult|PoisonError|Guard<', ' '.join(c.callee.args or [])) and not c.exp:
            R2.bad(cfg, c.body.path, 'unwrap-on-LockResult', 'a lock result is unwrapped: a poisoned lock would panic here', c.loc())


def r3(R3, cfg, F):
    D = 'hot_reloading::dependencies::'
    b = F.body(D + 'DepsGraph::reload')
    if not b:
        R3.missing(cfg, 'DepsGraph::reload')
        return
    ru = [c for c in b.calls() if c.callee and c.callee.name == 'reload_untyped']
    ins = [c for c in b.calls() if c.callee and c.callee.best == D + 'DepsGraph::insert']
    ok = len(ru) == 1 and len(ins) == 1
    if ok:
        sw = b.primary_switch(ru[0].dest['l'])
        ok = sw is not None
        if ok:
            some = b.variant_edge(sw, 1)
            ok = ins[0].bb not in b.reachable([0], removed_edges=[(sw, some)])
            src = b.downcast_source(ins[0].args[2])
            ok = ok and bool(src) and src[0] == ru[0].dest['l'] and src[1] == 'Some'
            # ... and on EVERY path after a successful reload: the dependency set is re-learned at every reload
            # (a skipped update keeps edges to entries the asset no longer reads -> spurious reloads later)
            if ok and (b.reachable([some], removed_blocks=[ins[0].bb]) & set(b.return_blocks())):
                ok = False
                relearn_gap = True
        # no other mutation of the graph in reload
        muts = [c for c in b.calls() if c.callee and c.callee.recv_kind() == '&mut self' and re.search(r'Hash(Map|Set)', c.callee.best) and c.callee.name not in ('get_mut',)]
        ok = ok and not [m for m in muts if m.callee.name in ('insert', 'remove', 'clear', 'entry', 'retain', 'drain')]
    R3.check(ok, cfg, b.path, 'graph-updated-exactly-on-Some(deps)',
             'DepsGraph::reload must register the dependencies of a successful reload on every path (dependency sets are re-learned at every reload), and touch the graph only then', b.loc())
    rb = F.body("anycache::AnyCache::<'a>::reload_untyped")
    if rb:
        nones = [bb for bb, j, s in rb.assigns() if s['place']['l'] == 0 and s['rv']['k'] == 'aggregate' and s['rv'].get('variant_name') == 'None']
        wr = [c for c in rb.calls() if c.callee and c.callee.best == 'entry::UntypedHandle::write']
        ok = bool(nones) and len(wr) == 1 and all(not rb.dominates(wr[0].bb, n) for n in nones)
        R3.check(ok, cfg, rb.path, 'Err-arm-returns-None-without-writing', 'the failing arm of reload_untyped must return None and must not have written', rb.loc())
    else:
        R3.missing(cfg, 'reload_untyped')


def r4(R4, cfg, F, hr):
    sites = F.calls_to(r'^std::panic::catch_unwind$')
    for c in sites:
        root = c.body.root if c.body.kind == 'Closure' else c.body.path
        R4.check(root == "anycache::AnyCache::<'a>::reload_untyped", cfg, c.body.path, 'catch_unwind-only-in-reload_untyped',
                 'catch_unwind outside the reload path: a panic of an initial load would be swallowed instead of reaching the caller of load', c.loc())
    holders = {c.body.path for c in sites} | {c.body.root for c in sites}
    for p in ('<T as anycache::Cache>::load_entry', '<T as anycache::Cache>::load_owned_entry', 'anycache::RawCache::add_asset', 'asset::load_and_record'):
        if not F.body(p):
            R4.missing(cfg, p)
            continue
        hit = sorted(F.reach([p]) & holders)
        R4.check(not hit, cfg, p, 'initial-load-path-free-of-catch_unwind', 'the initial-load path reaches a catch_unwind through %s' % hit, F.body(p).loc())
