"""C16 -- SharedBytes / SharedString are immutable shared buffers.
DESIGN.md section 4, C16."""
import re

import common
from common import make_pt
from mir import agg_direct, enum_variant_of

LEVEL = 'other'
EXPLANATION = (
    'Table and protocol rules on the MIR of utils/bytes.rs and utils/string.rs in every configuration: (R1) each '
    'alloc::alloc site is tabulated as (layout origin, capacity stored, data pointer stored) and paired with the arm '
    'of drop_slow selected by `capacity != 0` (Vec rebuilt from the stored ptr/len/cap and dropped + '
    'Layout::new::<Inner>() vs no Vec + get_inner_layout(len)); dealloc runs exactly once on every path, on self.ptr; '
    'from_slice copies exactly len bytes to header+1 and Deref returns (ptr,len) of the header; (R2) reference count '
    'protocol: clone = fetch_add(1); drop = fetch_sub(1, Release|AcqRel|SeqCst) and drop_slow exactly when the '
    'previous value was 1; an Acquire load/fence precedes freeing; the count starts at 1; (R3) no impl or public '
    'function yields mutable access to the bytes; (R4) every construction of SharedString{bytes} is UTF-8 by type, '
    'behind a successful str::from_utf8 of those bytes, or in an unsafe fn; (R5) Eq/Ord/Hash delegate to the slice with '
    'argument order preserved. R1 decides the pairing, not allocator arithmetic.')
TRUSTED = ['rustc MIR construction', 'std::alloc / Vec::from_raw_parts contracts', 'Layout::extend arithmetic: get_inner_layout(0) == Layout::new::<Inner>()',
           'amfacts driver + rule engine in /verif/sa']

B = 'utils::bytes::SharedBytes'
S = 'utils::string::SharedString'
PTRPT = make_pt(r'(mut_ptr|const_ptr)::<impl \*(mut|const) T>::(cast|add|cast_mut|cast_const)$', r'NonNull::<T>::(new|as_ptr|cast)$', r'Option::<T>::unwrap_or_else$')
STRONG = {'Release', 'AcqRel', 'SeqCst'}


def run(ctx):
    rep = ctx.report
    R1 = rep.rule('C16.R1', 'allocation table pairs with the deallocation table; exact copy; Deref returns the stored (ptr,len)', floor=6)
    R2 = rep.rule('C16.R2', 'reference-count protocol (operations, edge, memory orderings, initial value)', floor=3)
    R3 = rep.rule('C16.R3', 'no mutable access to the shared bytes through any impl or public function', floor=2)
    R4 = rep.rule('C16.R4', 'UTF-8 discipline of every SharedString construction', floor=4)
    R5 = rep.rule('C16.R5', 'comparison / ordering / hashing delegate to the slice, argument order preserved', floor=10)
    R6 = rep.rule('C16.R6', 'the raw-memory operations of utils::bytes are a closed table: every one of them is covered by R1 / R2 / R4', floor=1)
    rep.assumptions += ['a Vec with capacity 0 is freed through get_inner_layout(0), assumed equal to Layout::new::<Inner>() (Layout::extend arithmetic)']
    for cfg, F in ctx.cfgs():
        r1(R1, cfg, F)
        r2(R2, cfg, F)
        r3(R3, cfg, F)
        r4(R4, cfg, F, ctx.cfg_features[cfg])
        r5(R5, cfg, F)
        r6(R6, cfg, F)
        for r in (R1, R2, R3, R4, R5, R6):
            r.finish_cfg(cfg)


RAW_OPS = re.compile(
    r'^std::alloc::(alloc|alloc_zeroed|realloc|dealloc)$|Layout::from_size_align_unchecked$'
    r'|^std::ptr::(copy|copy_nonoverlapping|write|write_bytes|write_unaligned|write_volatile|read|read_unaligned|read_volatile|swap|swap_nonoverlapping|replace|drop_in_place)$'
    r'|^std::ptr::(mut_ptr|const_ptr)::<impl \*(mut|const) T>::(add|sub|offset|byte_add|byte_sub|byte_offset|write|write_bytes|write_unaligned|read|read_unaligned|copy_from|copy_from_nonoverlapping|copy_to|copy_to_nonoverlapping|drop_in_place|replace|swap|as_ref|as_mut)$'
    r'|^std::slice::from_raw_parts(_mut)?$|^std::ptr::slice_from_raw_parts(_mut)?$'
    r'|^std::vec::Vec::<T(, A)?>::(from_raw_parts|from_raw_parts_in|set_len|as_mut_ptr|spare_capacity_mut|into_raw_parts)$'
    r'|^std::string::String::(from_raw_parts|from_utf8_unchecked|as_mut_vec)$|^std::str::(from_utf8_unchecked|from_utf8_unchecked_mut)$|as_bytes_mut$'
    r'|^std::mem::MaybeUninit::<T>::(assume_init|assume_init_ref|assume_init_mut|assume_init_read|assume_init_drop|uninit|zeroed)$'
    r'|^std::mem::(transmute|transmute_copy|zeroed|uninitialized|forget)$|^std::intrinsics::'
    r'|^std::ptr::NonNull::<T>::(new_unchecked|as_mut)$|::get_unchecked(_mut)?$|^std::boxed::Box::<T(, A)?>::(from_raw|into_raw|leak|from_raw_in)$')
# confirmed on the reference tree (each is the subject of a clause of R1: allocation / copy / free / Deref; or of R4)
RAW_REFERENCE = {
    'std::alloc::alloc', 'std::alloc::dealloc', 'std::alloc::Layout::from_size_align_unchecked', 'std::ptr::copy_nonoverlapping',
    'std::ptr::mut_ptr::<impl *mut T>::add', 'std::ptr::mut_ptr::<impl *mut T>::write', 'std::slice::from_raw_parts',
    'std::vec::Vec::<T>::from_raw_parts', 'std::str::from_utf8_unchecked',
}


def r6(R6, cfg, F):
    """R1 / R2 / R4 prove their clauses for the raw operations that exist.  A raw operation of another kind that appears in
    the module (Vec::set_len over a buffer filled through a pointer, a second way to build the slice, a transmute ..)
    is outside of every one of those arguments: unclassified until somebody looks at it."""
    n = 0
    for b in F.fn_bodies():
        if not re.match(r'^<?utils::(bytes|string)::', b.path) and not re.search(r' for utils::(bytes|string)::|<utils::(bytes|string)::', b.path):
            continue
        for c in b.calls():
            if c.callee and not c.exp and RAW_OPS.search(c.callee.best):
                n += 1
                R6.check(c.callee.best in RAW_REFERENCE, cfg, b.path, 'raw-operation:' + c.callee.best,
                         '`%s` in %s: a raw-memory operation that none of the C16 arguments covers (the allocation / copy / free table, the reference count and the UTF-8 discipline are proved for %s only)'
                         % (c.callee.best, b.path, sorted(x.split('::')[-1] for x in RAW_REFERENCE)), c.loc())
    if n == 0:
        R6.missing(cfg, 'raw operations in utils::bytes')


def inner_agg(b):
    """{field name: operand} of the one `Inner` header built in b; the fields of a private struct nested in it (a grouping of
    ptr / len / capacity) are flattened in, so that the rules see the same header however it is laid out"""
    a = [s for _, _, s in b.assigns() if s['rv']['k'] == 'aggregate' and s['rv'].get('adt') == 'utils::bytes::Inner']
    if len(a) != 1:
        return None
    out = {}
    for nm, op in zip(a[0]['rv']['fields'], a[0]['rv']['ops']):
        sub = agg_direct(b, op) if op.get('k') in ('copy', 'move') else None
        if sub is not None and sub['rv'].get('adt', '').startswith('utils::bytes::') and sub['rv'].get('fields'):
            out.update(dict(zip(sub['rv']['fields'], sub['rv']['ops'])))
        else:
            out[nm] = op
    return out if all(k in out for k in ('count', 'ptr', 'len', 'capacity')) else None


def names(b, op, pt=None):
    return sorted(r.callee.best for r in b.call_roots(op, passthrough=pt) if r.callee)


def layout_kind(b, op):
    r = b.call_roots(op)
    if len(r) != 1 or not r[0].callee:
        return None, None
    c = r[0]
    if c.callee.best == 'std::alloc::Layout::new' and c.callee.args == ['utils::bytes::Inner']:
        return 'header-only', c
    if c.callee.best == B + '::get_inner_layout':
        return 'header+len', c
    return c.callee.best, c


def r1(R1, cfg, F):
    fs, fv, ds = F.body(B + '::from_slice'), F.body(B + '::from_vec'), F.body(B + '::drop_slow')
    if not fs or not fv or not ds:
        R1.missing(cfg, 'SharedBytes::from_slice / from_vec / drop_slow')
        return
    # the header of a buffer taken from a Vec is allocated with Layout::new::<Inner>() and, when the Vec had no capacity,
    # freed with get_inner_layout(0): the two agree only while the inline bytes have alignment 1 (no padding, same alignment)
    gl = F.body(B + '::get_inner_layout')
    if not gl:
        R1.missing(cfg, 'SharedBytes::get_inner_layout')
    else:
        ly = [c for c in gl.calls() if c.callee and re.search(r'Layout::(from_size_align|from_size_align_unchecked|array)', c.callee.best)]
        ex = [c for c in gl.calls() if c.callee and c.callee.best == 'std::alloc::Layout::extend']
        okl = len(ly) == 1 and len(ex) == 1 and (('array' in ly[0].callee.best and ly[0].callee.args[:1] == ['u8']) or
                                                  (len(ly[0].args) == 2 and re.match(r'^1(_usize)?$', ly[0].args[1].get('text', '')) is not None and gl.origins(ly[0].args[0]) == {('arg', 1)}))
        if okl:
            hdr = gl.call_roots(ex[0].args[0])
            okl = len(hdr) == 1 and hdr[0].callee.best == 'std::alloc::Layout::new' and hdr[0].callee.args == ['utils::bytes::Inner'] \
                and common.strip_refs(common.deep_path(gl, ex[0].args[1], at=ex[0].bb)) == ['call@bb%d' % ly[0].bb]
        R1.check(okl, cfg, gl.path, 'inline-layout=Inner+len-bytes-of-alignment-1', 'get_inner_layout(len) must be Layout::new::<Inner>() extended by `len` bytes of alignment 1: with any other alignment get_inner_layout(0) differs from the layout the header of a capacity-0 Vec was allocated with', gl.loc())
    allocs = F.calls_to(r'^std::alloc::(alloc|alloc_zeroed|realloc)$')
    where = sorted({c.body.path for c in allocs})
    R1.check(where == [fs.path, fv.path] and len(allocs) == 2, cfg, 'std::alloc::alloc', 'allocated-only-in-from_slice-and-from_vec', 'raw allocations in %s' % where)
    # ---- from_slice
    al = [c for c in fs.calls() if c.callee and c.callee.best == 'std::alloc::alloc']
    wr = [c for c in fs.calls() if c.callee and c.callee.name == 'write' and 'mut_ptr' in c.callee.best]
    cp = [c for c in fs.calls() if c.callee and c.callee.best == 'std::ptr::copy_nonoverlapping']
    ln = [c for c in fs.calls() if c.callee and c.callee.best == 'core::slice::<impl [T]>::len' and fs.origins(c.args[0]) == {('arg', 1)}]
    inn = inner_agg(fs)
    ok = len(al) == 1 and len(wr) == 1 and len(cp) == 1 and len(ln) == 1 and inn is not None
    why = 'shape'
    if ok:
        lk, lc = layout_kind(fs, al[0].args[0])
        ok = lk == 'header+len' and fs.access_path(lc.args[0]) == ['call@bb%d' % ln[0].bb]
        why = 'layout is not get_inner_layout(bytes.len())'
        if ok:
            def ctext(b_, op_):
                # the constant an operand stands for, directly or through the parameter of a constructor written in place
                if op_.get('k') == 'const':
                    return op_.get('text', '')
                dp_ = common.deep_path(b_, op_) or []
                return dp_[0][6:] if len(dp_) == 1 and dp_[0].startswith('const:') else ''
            cnt = fs.call_roots(inn['count'])
            ok = ctext(fs, inn['capacity']).startswith('0') and common.strip_refs(common.deep_path(fs, inn['len'])) == ['call@bb%d' % ln[0].bb] \
                and inn['count'] is not None and len(cnt) == 1 and cnt[0].args and ctext(fs, cnt[0].args[0]).startswith('1')
            why = 'header must record capacity 0, len = bytes.len(), count 1'
        if ok:
            data = fs.call_roots(inn['ptr'], passthrough=PTRPT)
            adds = [c for c in fs.calls() if c.callee and c.callee.name == 'add' and c.args[1].get('text', '').startswith('1')]
            ok = [x.bb for x in data] == [al[0].bb] and len(adds) == 1 and ('call', adds[0].bb) in fs.origins(inn['ptr'], passthrough=make_pt(r'::cast$'))
            why = 'data pointer must be header + 1 inside the allocation'
        if ok:
            src = fs.call_roots(cp[0].args[0])
            ok = len(src) == 1 and src[0].callee.name == 'as_ptr' and fs.origins(src[0].args[0]) == {('arg', 1)} \
                and fs.origins(cp[0].args[1], passthrough=make_pt(r'::cast$')) == fs.origins(inn['ptr'], passthrough=make_pt(r'::cast$')) \
                and fs.access_path(cp[0].args[2]) == ['call@bb%d' % ln[0].bb]
            why = 'must copy exactly bytes.len() bytes from bytes.as_ptr() to the data pointer'
        if ok:
            ok = [x.bb for x in fs.call_roots(wr[0].args[0], passthrough=PTRPT)] == [al[0].bb]
            why = 'the header must be written at the start of the allocation'
    R1.check(ok, cfg, fs.path, 'alloc(header+len);cap=0;copy-len-bytes-to-header+1', 'from_slice: %s' % why, fs.loc())
    # ---- from_vec
    al = [c for c in fv.calls() if c.callee and c.callee.best == 'std::alloc::alloc']
    wr = [c for c in fv.calls() if c.callee and c.callee.name == 'write' and 'mut_ptr' in c.callee.best]
    md = [c for c in fv.calls() if c.callee and c.callee.best == 'std::mem::ManuallyDrop::<T>::new']
    inn = inner_agg(fv)
    ok = len(al) == 1 and len(wr) == 1 and len(md) == 1 and inn is not None and fv.origins(md[0].args[0]) == {('arg', 1)}
    why = 'shape (one alloc, one header write, the Vec wrapped in ManuallyDrop)'
    if ok:
        lk, _ = layout_kind(fv, al[0].args[0])
        ok = lk == 'header-only'
        why = 'layout must be Layout::new::<Inner>()'
        if ok:
            def vec_call(op, meth):
                r = fv.call_roots(op)
                return len(r) == 1 and r[0].callee.best == 'std::vec::Vec::<T, A>::' + meth and [x.bb for x in fv.call_roots(r[0].args[0], passthrough=common.pt_deref)] == [md[0].bb]
            ok = vec_call(inn['ptr'], 'as_ptr') and vec_call(inn['len'], 'len') and vec_call(inn['capacity'], 'capacity') \
                and [x.args[0].get('text') for x in fv.call_roots(inn['count'])] == ['1_usize']
            why = 'header must record the Vec\'s own ptr / len / capacity and count 1'
        if ok:
            ok = [x.bb for x in fv.call_roots(wr[0].args[0], passthrough=PTRPT)] == [al[0].bb]
            why = 'the header must be written at the allocation'
        if ok:
            # the ManuallyDrop is never dropped / taken: the buffer's ownership moves into the header
            ok = not [c for c in fv.calls() if c.callee and re.search(r'ManuallyDrop::<T>::(drop|take|into_inner)$', c.callee.best)]
            why = 'the Vec wrapped in ManuallyDrop must not be released here'
        if ok:
            # ... and the Vec is only looked at: (ptr, len, capacity) must describe one and the same allocation, so nothing
            # may modify the Vec (reallocate, shrink, truncate) between or after the three reads
            muts = [c for c in fv.calls() if c.callee and not c.exp and (
                (c.callee.defp == 'std::ops::DerefMut::deref_mut' and 'ManuallyDrop' in (c.callee.self_ty or '')) or
                (c.callee.best.startswith('std::vec::Vec::<') and c.callee.recv_kind() in ('&mut self', 'self')))]
            ok = not muts
            why = 'the Vec is modified (%s) while its ptr / len / capacity are being recorded: the header may describe an allocation that no longer exists, and drop_slow frees with a stale layout' % [m.callee.best for m in muts]
    R1.check(ok, cfg, fv.path, 'alloc(header-only);cap=Vec::capacity;ptr=Vec::as_ptr', 'from_vec: %s' % why, fv.loc())
    # ---- drop_slow
    de = [c for c in ds.calls() if c.callee and c.callee.best == 'std::alloc::dealloc']
    fr = [c for c in ds.calls() if c.callee and c.callee.best == 'std::vec::Vec::<T>::from_raw_parts']
    ok = len(de) == 1 and len(fr) == 1
    why = 'shape (one dealloc, one Vec::from_raw_parts)'
    if ok:
        # the Vec is rebuilt exactly when the stored capacity is not 0 (however the test is spelled)
        cg = [x for x in common.comparison_guards(ds, fr[0].bb) if 'capacity' in (x[0] or []) and x[2] == '0']
        ok = len(cg) == 1 and cg[0][1] in ('Ne', 'Gt')
        why = 'no test of the stored capacity against 0 guards the rebuilding of the Vec'
        if ok:
            bb = cg[0][3]
            nz = [cg[0][4]]
            z = [d for d, lab in ds.edges(bb) if d not in nz]
            ok = len(z) == 1 and fr[0].bb not in ds.reachable(z, removed_blocks=[de[0].bb])
            why = 'the Vec must be rebuilt exactly when capacity != 0'
            if ok:
                a = [common.strip_refs(common.deep_path(ds, x)) for x in fr[0].args]
                p0 = a[0]
                if not p0 or 'ptr' not in p0:
                    # through the `as *mut u8` cast
                    d0 = [d for d in ds.defs_of(fr[0].args[0]['place']['l']) if d[0] == 'stmt'] if fr[0].args[0]['k'] in ('copy', 'move') else []
                    if len(d0) == 1 and d0[0][3]['rv']['k'] == 'cast':
                        p0 = common.strip_refs(common.deep_path(ds, d0[0][3]['rv']['op']))
                ok = all(x and x[0].startswith('call@bb') for x in (p0, a[1], a[2])) and p0[-1:] == ['ptr'] and a[1][-1:] == ['len'] and a[2][-1:] == ['capacity'] \
                    and p0[0] == a[1][0] == a[2][0]
                dropped = any(u[0] == 'call' and u[2].callee and u[2].callee.best == 'std::mem::drop' for l in ds.flows_to(fr[0].dest['l']) for u in ds.uses_of(l)) or \
                    any(d.term['place']['l'] in ds.flows_to(fr[0].dest['l']) for d in ds.drops())
                ok = ok and dropped
                why = 'the rebuilt Vec must be made of the stored (ptr, len, capacity) and be dropped'
            if ok:
                # layout per arm (the layout local has one definition per arm)
                lay = de[0].args[1]
                kinds = {}
                for r in ds.call_roots(lay):
                    k = 'header-only' if (r.callee.best == 'std::alloc::Layout::new' and r.callee.args == ['utils::bytes::Inner']) else \
                        ('header+len' if r.callee.best == B + '::get_inner_layout' and 'len' in (common.deep_path(ds, r.args[0]) or []) else r.callee.best)
                    arm = 'cap!=0' if r.bb in ds.reachable(nz, removed_blocks=[de[0].bb]) else ('cap==0' if r.bb in ds.reachable(z, removed_blocks=[de[0].bb]) else '?')
                    kinds[arm] = k
                ok = kinds == {'cap!=0': 'header-only', 'cap==0': 'header+len'}
                why = 'dealloc layouts per arm are %s; they must mirror the allocation table {cap!=0: header-only, cap==0: header+len}' % kinds
            if ok:
                # exactly once on every path, on self.ptr
                ok = not (ds.reachable([0], removed_blocks=[de[0].bb]) & set(ds.return_blocks())) and de[0].bb not in ds.reachable([de[0].target]) \
                    and ds.origins(de[0].args[0], passthrough=PTRPT) == {('arg', 1)}
                why = 'dealloc must run exactly once on every path, on self.ptr'
    R1.check(ok, cfg, ds.path, 'dealloc-table-mirrors-alloc-table', 'drop_slow: %s' % why, ds.loc())
    deallocs = sorted({c.body.path for c in F.calls_to(r'^std::alloc::dealloc$')})
    R1.check(deallocs == [ds.path], cfg, 'std::alloc::dealloc', 'freed-only-in-drop_slow', 'raw deallocations in %s' % deallocs)
    cds = F.callers_of('^' + re.escape(ds.path) + '$')
    R1.check(cds == ['<utils::bytes::SharedBytes as std::ops::Drop>::drop'], cfg, ds.path, 'drop_slow-called-only-from-Drop', 'callers %s' % cds)
    db = F.body('<utils::bytes::SharedBytes as std::ops::Deref>::deref')
    if db:
        fp = [c for c in db.calls() if c.callee and c.callee.best == 'std::slice::from_raw_parts']
        ok = len(fp) == 1 and (db.access_path(fp[0].args[0]) or [])[-1:] == ['ptr'] and (db.access_path(fp[0].args[1]) or [])[-1:] == ['len'] \
            and [x.callee.best for x in db.call_roots(fp[0].args[0])] == [B + '::inner']
        R1.check(ok, cfg, db.path, 'deref=(header.ptr,header.len)', 'Deref must return exactly the stored (ptr, len)', db.loc())
    else:
        R1.missing(cfg, 'SharedBytes::deref')


def r2(R2, cfg, F):
    cb = F.body('<utils::bytes::SharedBytes as std::clone::Clone>::clone')
    dbd = F.body('<utils::bytes::SharedBytes as std::ops::Drop>::drop')
    ds = F.body(B + '::drop_slow')
    if not cb or not dbd or not ds:
        R2.missing(cfg, 'SharedBytes Clone / Drop / drop_slow')
        return
    fa = [c for c in cb.calls() if c.callee and 'Atomic' in c.callee.best and c.callee.name.startswith('fetch_')]
    ok = len(fa) == 1 and fa[0].callee.name == 'fetch_add' and fa[0].args[1].get('text', '').startswith('1') and 'count' in (cb.access_path(fa[0].args[0]) or [])
    ag = [s for _, _, s in cb.assigns() if s['place']['l'] == 0 and s['rv']['k'] == 'aggregate' and s['rv'].get('adt') == B]
    ok = ok and len(ag) == 1 and cb.access_path(ag[0]['rv']['ops'][0]) == ['arg1', '*', 'ptr']
    R2.check(ok, cfg, cb.path, 'clone=fetch_add(1)+same-ptr', 'clone must increment the shared count by one and alias the same header', cb.loc())
    fsb = [c for c in dbd.calls() if c.callee and 'Atomic' in c.callee.best and c.callee.name.startswith('fetch_')]
    sl = [c for c in dbd.calls() if c.callee and c.callee.best == B + '::drop_slow']
    ok = len(fsb) == 1 and fsb[0].callee.name == 'fetch_sub' and fsb[0].args[1].get('text', '').startswith('1') and len(sl) == 1
    why = 'shape'
    if ok:
        ordv = enum_variant_of(dbd, fsb[0].args[2])
        ok = len(ordv) == 1 and ordv <= STRONG
        why = 'the decrement uses ordering %s; it must be Release / AcqRel / SeqCst so that earlier uses of the buffer happen-before the free' % sorted(ordv)
    if ok:
        cg = [x for x in common.comparison_guards(dbd, sl[0].bb) if x[0] == ['call@bb%d' % fsb[0].bb] and x[2] == '1' and x[1] == 'Eq']
        ok = len(cg) == 1
        why = 'drop_slow must be guarded by `previous count == 1`'
        if ok:
            g = [x for x in common.guards_of(dbd, sl[0].bb) if x[0] == cg[0][3]]
            ok = common.inevitable(dbd, g, sl[0].bb)
            why = 'drop_slow must run exactly when the previous count was 1'
    R2.check(ok, cfg, dbd.path, 'drop=fetch_sub(1,Release+);slow-iff-prev==1', 'Drop: %s' % why, dbd.loc())
    acq = [c for c in ds.calls() if c.callee and ((c.callee.name == 'load' and 'Atomic' in c.callee.best and 'count' in (ds.access_path(c.args[0]) or []) and enum_variant_of(ds, c.args[1]) <= {'Acquire', 'SeqCst'})
                                                    or (c.callee.best == 'std::sync::atomic::fence' and enum_variant_of(ds, c.args[0]) <= {'Acquire', 'AcqRel', 'SeqCst'}))]
    frees = [c for c in ds.calls() if c.callee and c.callee.best in ('std::alloc::dealloc', 'std::vec::Vec::<T>::from_raw_parts')]
    ok = len(acq) >= 1 and bool(frees) and all(any(ds.dominates(a.bb, f.bb) for a in acq) for f in frees)
    R2.check(ok, cfg, ds.path, 'acquire-before-free', 'drop_slow must synchronise (Acquire load of the count or fence) before rebuilding the Vec / freeing', ds.loc())


def r3(R3, cfg, F):
    for adt in (B, S):
        bad = [im['trait'] for im in F.impls if im.get('self_adt') == adt and im['trait'] in
               ('std::ops::DerefMut', 'std::convert::AsMut', 'std::borrow::BorrowMut', 'std::ops::IndexMut')]
        R3.check(not bad, cfg, adt, 'no-mutable-access-impl', '%s implements %s: the shared bytes could be modified through a clone' % (adt, bad))
        leaks = []
        for p, f in F.fns.items():
            if f.get('impl_self_adt') == adt and f['vis'] == 'pub' and re.search(r"&('\w+ )?mut (\[u8\]|str|u8)|\*mut u8", f['output']):
                leaks.append(p)
        R3.check(not leaks, cfg, adt, 'no-pub-fn-returning-&mut-bytes', 'public functions hand out mutable access: %s' % leaks)


def r4(R4, cfg, F, feats):
    n = 0
    for b in F.fn_bodies():
        # construction sites: the struct literal, or a call of the unsafe constructor from_utf8_unchecked (which is
        # the struct literal behind `unsafe`): either way the bytes must be UTF-8 by construction
        sites = [(bb, s['rv']['ops'][0], '%s:%s' % (b.file, s['line'])) for bb, j, s in b.assigns() if s['rv']['k'] == 'aggregate' and s['rv'].get('adt') == S]
        sites += [(c.bb, c.args[0], c.loc()) for c in b.calls() if c.callee and c.callee.best == S + '::from_utf8_unchecked' and c.args]
        for bb, op, loc in sites:
            n += 1
            sig = F.fns.get(b.path) or F.fns.get(b.root) or {}
            roots = b.call_roots(op)
            rn = [r.callee.best for r in roots if r.callee]
            if sig.get('safety') == 'Unsafe':
                R4.ok(cfg, b.path, 'unsafe-fn(caller-promises-utf8)', loc)
                continue
            ok = False
            why = 'bytes come from %s' % (rn or b.origins(op))
            if len(roots) == 1 and roots[0].callee.best in (B + '::from_slice', B + '::from_vec'):
                src = b.call_roots(roots[0].args[0])
                sn = [x.callee.best for x in src if x.callee]
                ok = sn in (['core::str::<impl str>::as_bytes'], ['std::string::String::into_bytes'])
                why = 'bytes built from %s (must be str::as_bytes / String::into_bytes)' % sn
            elif len(roots) == 1 and roots[0].callee.best == '<utils::bytes::SharedBytes as std::clone::Clone>::clone' and b.path == '<utils::string::SharedString as std::clone::Clone>::clone':
                ok = 'bytes' in (b.access_path(roots[0].args[0]) or [])
            elif not roots and b.origins(op) == {('arg', 1)}:
                # the parameter itself: must be behind str::from_utf8(&bytes)? success
                fu = [c for c in b.calls() if c.callee and c.callee.best == 'std::str::from_utf8' and b.origins(c.args[0], passthrough=common.pt_deref) == {('arg', 1)}]
                if len(fu) == 1:
                    # (normal form) the construction runs only when that validation returned Ok
                    ok = common.guarded_by_variant(b, bb, [['call@bb%d' % fu[0].bb]], 0)
                why = 'a SharedString is built from unchecked bytes: it must be dominated by a successful str::from_utf8 of the same bytes'
            R4.check(ok, cfg, b.path, 'utf8-by-construction', why, loc)
    if n < 4:
        R4.missing(cfg, 'SharedString construction sites (found %d)' % n)
    # wherever the module takes the unchecked str view (Deref::deref, or an accessor that deref goes through): it reads exactly self.bytes
    nview = 0
    for db in F.fn_bodies():
        if 'utils::string::' not in db.path:
            continue
        for fu in [c for c in db.calls() if c.callee and c.callee.best == 'std::str::from_utf8_unchecked']:
            if db.origins(fu.args[0], passthrough=common.pt_deref) == {('arg', 1)} and not db.path.startswith(('<utils::string::SharedString as', 'utils::string::SharedString::as_str')):
                continue        # a constructor validating its parameter: judged above
            nview += 1
            r = db.call_roots(fu.args[0])
            ok = len(r) == 1 and r[0].callee.best == '<utils::bytes::SharedBytes as std::ops::Deref>::deref' and (db.access_path(r[0].args[0]) or [])[-2:] == ['bytes', '&'] \
                and (db.access_path(r[0].args[0]) or [])[:1] == ['arg1']
            R4.check(ok, cfg, db.path, 'unchecked-deref-reads-only-self.bytes', 'the unchecked str view must read exactly self.bytes', fu.loc())
    if nview == 0:
        R4.missing(cfg, 'the unchecked str view of SharedString (Deref::deref)')
    if 'serde' in feats:
        for v, check in (('visit_bytes', 'std::str::from_utf8'), ('visit_byte_buf', 'std::string::String::from_utf8')):
            vb = [x for x in F.fn_bodies() if x.path.endswith('::' + v) and 'utils::string' in x.path]
            if len(vb) != 1:
                R4.missing(cfg, 'SharedString visitor ' + v)
                continue
            vb = vb[0]
            ck = [c for c in vb.calls() if c.callee and c.callee.best == check]
            fr = [c for c in vb.calls() if c.callee and c.callee.name == 'from' and S in (c.callee.best + str(c.callee.args))]
            ok = len(ck) == 1 and len(fr) == 1
            if ok:
                sw = vb.primary_switch(ck[0].dest['l'])
                okt = vb.variant_edge(sw, 0) if sw is not None else None
                ok = okt is not None and fr[0].bb not in vb.reachable([0], removed_edges=[(sw, okt)])
                src = vb.downcast_source(fr[0].args[0])
                ok = ok and bool(src) and src[0] == ck[0].dest['l'] and src[1] == 'Ok'
            R4.check(ok, cfg, vb.path, 'deserialised-bytes-validated', '%s must build the string only from the Ok payload of %s' % (v, check), vb.loc())


def r5(R5, cfg, F):
    n = 0
    for adt, leaf in ((B, r'\[u8\]|\[T\]|\[A\]'), (S, r'str')):
        for im in F.impls:
            if im.get('self_adt') != adt or im['trait'] not in ('std::cmp::PartialEq', 'std::cmp::PartialOrd', 'std::cmp::Ord', 'std::hash::Hash') or im['derived']:
                continue
            for it in im['items']:
                b = F.body(it['path'])
                if not b or it['name'] not in ('eq', 'partial_cmp', 'cmp', 'hash'):
                    continue
                n += 1
                cs = [c for c in b.calls() if c.callee and c.callee.name in ('eq', 'partial_cmp', 'cmp', 'hash') and c.callee.defp not in common.DEREFS]
                ok = len(cs) == 1
                why = 'calls %s' % [c.callee.best for c in cs]
                if ok:
                    c = cs[0]
                    # (the view of the bytes may be taken by Deref / AsRef, or by a private accessor written in place)
                    pt = make_pt(r'as std::convert::AsRef<.*>>::as_ref$', r'Vec<T, A> as std::ops::Deref>::deref$', r'^std::slice::from_raw_parts$', r'^std::str::from_utf8_unchecked$',
                                 r'^utils::bytes::SharedBytes::inner$', r'NonNull::<T>::as_ref$', r'^<utils::(bytes::SharedBytes|string::SharedString) as std::ops::Deref>::deref$',
                                 r'^utils::string::SharedString::as_str$', r'^std::vec::Vec::<T, A>::as_slice$', r'^std::string::String::as_str$',
                                 r'^<std::string::String as std::ops::Deref>::deref$', r'Index<.*>>::index$', r'as std::borrow::Borrow<.*>>::borrow$')
                    a0 = b.origins(c.args[0], passthrough=pt)
                    a1 = b.origins(c.args[1], passthrough=pt)
                    delegate = bool(re.search(leaf, c.callee.best + ' ' + (c.callee.self_ty or '') + ' ' + ' '.join(c.callee.args or []))) or c.callee.best.startswith('<' + adt + ' as std::cmp::Ord>::cmp')
                    ok = a0 == {('arg', 1)} and a1 == {('arg', 2)} and delegate
                    why = '`%s` is applied to (%s, %s); it must be the slice operation on (self, other) in that order' % (c.callee.best, sorted(a0), sorted(a1))
                    # the result is returned (possibly wrapped in Some)
                    if ok and c.dest['l'] != 0 and it['name'] != 'hash':
                        rets = [s for _, _, s in b.assigns() if s['place']['l'] == 0]
                        ok = len(rets) == 1 and ((rets[0]['rv']['k'] == 'aggregate' and rets[0]['rv'].get('variant_name') == 'Some' and b.access_path(rets[0]['rv']['ops'][0]) == ['call@bb%d' % c.bb])
                                                 or (rets[0]['rv']['k'] == 'use' and b.access_path(rets[0]['rv']['op']) == ['call@bb%d' % c.bb]))
                        why = 'the result of the slice operation is not what is returned'
                R5.check(ok, cfg, b.path, 'delegates-to-slice(self,other)', why, b.loc())
    if n < 10:
        R5.missing(cfg, 'hand-written Eq/Ord/Hash impls (found %d)' % n)
