"""C10 -- what is declared non-reloadable is never rewritten.
Who-may-write / who-may-register rules (DESIGN.md section 4, C10)."""
import re

import common
from mir import agg_direct
from common import map_access_mode, map_call_kind
from mir import agg_stmts

LEVEL = 'other'
EXPLANATION = (
    'Edge-constrained reachability and who-may-call rules on the MIR of every configuration: (R1) Entry::new_dynamic is '
    'reachable only through the non-zero edge of the switch on <T as Storable>::HOT_RELOADED AND the true edge of '
    '_mutable(); Storable::HOT_RELOADED defaults to false; (R2) the byte swap is reachable only through the Some edge '
    'of self.dynamic, the other edge diverges; (R3) reloadable registration (HotReloader::add_asset) happens only in '
    'load_and_record; get_or_insert reaches no reloader method; DepsGraph::reload reloads only nodes with typ = Some; '
    '(R4) LocalAssetCache / without_hot_reloading / a source that refuses hot-reloading have no reloader; (R5) every '
    'public &mut operation of a cache with a reloader that destroys map entries sends a message to the reloader whose '
    'handler mutates the dependency graph; (R6) a reloadable registration is reachable only from an operation that '
    'also inserts the loaded entry in the map (owned loads register typ = None). Necessary-only beyond the '
    'enumerated mutators: "in any history".')
TRUSTED = ['rustc MIR construction and const evaluation', 'amfacts driver + rule engine in /verif/sa']

P = 'hot_reloading::paths::'
D = 'hot_reloading::dependencies::'


def run(ctx):
    rep = ctx.report
    R1 = rep.rule('C10.R1', 'an entry is dynamic only if HOT_RELOADED && _mutable(); Storable::HOT_RELOADED defaults to false', floor=2)
    R2 = rep.rule('C10.R2', 'writes need a dynamic entry: swap only on the Some(dynamic) edge, else wrong_handle_type()', floor=1)
    R3 = rep.rule('C10.R3', 'who-may-register: add_asset only from load_and_record; get_or_insert reaches no reloader; reload only typ=Some nodes', floor=4)
    R4 = rep.rule('C10.R4', 'caches without a reloader: LocalAssetCache, without_hot_reloading, refusing sources', floor=3)
    R5 = rep.rule('C10.R5', 'forgetting is told to the reloader: every destroying operation notifies, and the handler mutates the graph', floor=3)
    R6 = rep.rule('C10.R6', 'registering as reloadable implies caching in the same operation', floor=2)
    S1 = rep.rule('C05.R2', 'registration happens exactly after a successful load, with the dependencies of that load (shared with C05)', floor=1)
    R8 = rep.rule('C10.R8', 'AssetMap::insert runs on_insert if and only if the entry was stored (inside the keep-first insertion, which holds the lock of the map)', floor=2)
    R9 = rep.rule('C10.R9', 'a removed asset stops being reloadable: DepsGraph::remove_asset resets `typ` of (or deletes) the node of its key whenever the graph knows that key', floor=1)
    R7 = rep.rule('C10.R7', 'type descriptors are honest: hot_reloaded mirrors the declared HOT_RELOADED constants, which forward from Asset to Compound to Storable', floor=6)
    for cfg, F in ctx.cfgs():
        hr = 'hot-reloading' in ctx.cfg_features[cfg]
        r1(R1, cfg, F, hr)
        R1.finish_cfg(cfg)
        r7(R7, cfg, F)
        R7.finish_cfg(cfg)
        if not hr:
            continue
        r2(R2, cfg, F)
        r3(R3, cfg, F)
        # registration only after a successful load (a failed load that registers makes the key reloadable although
        # nothing was cached: a fallback value stored with get_or_insert is then overwritten)
        from c05 import r2 as register_only_after_ok
        register_only_after_ok(S1, cfg, F)
        S1.finish_cfg(cfg)
        r4(R4, cfg, F)
        r5(R5, cfg, F)
        r6(R6, cfg, F)
        r8(R8, cfg, F)
        r9(R9, cfg, F)
        for r in (R2, R3, R4, R5, R6, R8, R9):
            r.finish_cfg(cfg)


def r1(R1, cfg, F, hr):
    c = F.consts.get('asset::Storable::HOT_RELOADED')
    if not c:
        R1.missing(cfg, 'Storable::HOT_RELOADED')
    else:
        # a defaulted associated const of a trait: its MIR body is `_0 = const false`
        b = F.body('asset::Storable::HOT_RELOADED')
        val = None
        if b is None:
            cb = [x for x in F.bodies.values() if x.path == 'asset::Storable::HOT_RELOADED']
            b = cb[0] if cb else None
        if b is not None:
            rets = [s for _, _, s in b.assigns() if s['place']['l'] == 0]
            val = rets[0]['rv']['op'].get('text') if len(rets) == 1 and rets[0]['rv']['k'] == 'use' else None
        R1.check(val == 'false', cfg, 'asset::Storable::HOT_RELOADED', 'default=false', 'Storable::HOT_RELOADED must default to false (plain stored values are never reloaded); default is %s' % val, '%s:%s' % (c['file'], c['line']))
    b = F.body('entry::CacheEntry::new')
    if not b:
        R1.missing(cfg, 'CacheEntry::new')
        return
    nd = [x for x in b.calls() if x.callee and x.callee.best == 'entry::EntryStorage::<T>::new_dynamic']
    ns = [x for x in b.calls() if x.callee and x.callee.best == 'entry::EntryStorage::<T>::new_static']
    if not hr:
        R1.check(not nd and len(ns) == 1, cfg, b.path, 'static-only-without-hot-reloading', 'without the hot-reloading feature every entry must be static', b.loc())
        return
    ok = len(nd) == 1 and len(ns) >= 1
    why = 'shape'
    if ok:
        # (guard set of the new_dynamic call) it runs only when the associated const HOT_RELOADED is true AND _mutable()
        # returned true -- whether tested one after the other, or combined with `&&` into a local that is matched on
        def cond_kind(ap):
            if ap and len(ap) == 1 and ap[0].startswith('call@bb'):
                site = [x for x in b.calls() if 'call@bb%d' % x.bb == ap[0]]
                if site and common.user_call_kind(site[0]) == 'indirect' and b.origins(site[0].args[0]) == {('arg', 3)}:
                    return '_mutable()'
            if ap and len(ap) == 1 and ap[0].startswith('const:') and 'HOT_RELOADED' in ap[0]:
                return 'T::HOT_RELOADED'
            return None
        found = set()
        for sw, tgt, lab, tst in common.guards_of(b, nd[0].bb):
            if tst[0] != 'val' or lab == 'sw:0':
                continue
            ap = tst[1]
            k = cond_kind(ap)
            if k:
                found.add(k)
                continue
            # a local that holds `A && B`: its definitions are the constant false and the other condition(s)
            t = b.blocks[sw]['term']
            l = t['discr']['place']['l'] if t['discr']['k'] in ('copy', 'move') and not t['discr']['place']['p'] else None
            for d in (b.defs_of(l) if l is not None else []):
                if d[0] == 'call':
                    k = cond_kind(['call@bb%d' % d[1]])
                    if k:
                        found.add(k)
                elif d[0] == 'stmt' and d[3]['rv']['k'] == 'use':
                    k = cond_kind(b.access_path(d[3]['rv']['op']))
                    if k:
                        found.add(k)
        ok = found == {'T::HOT_RELOADED', '_mutable()'}
        why = 'the two conditions (HOT_RELOADED, _mutable()) are not both required (found %s)' % sorted(found)
        if ok:
            # value and id are passed through unchanged
            ok = [b.access_path(a) for a in nd[0].args] == [['arg2'], ['arg1']]
            why = 'new_dynamic does not receive (id, value) unchanged'
    R1.check(ok, cfg, b.path, 'dynamic-iff-HOT_RELOADED-and-mutable', 'CacheEntry::new: %s' % why, nd[0].loc() if nd else b.loc())
    # the _mutable closures: get_or_insert passes has_reloader, loads pass cache.is_hot_reloaded
    gi = F.body('anycache::CacheExt::_get_or_insert')
    gmk = [c for c in gi.calls() if c.callee and c.callee.best == 'entry::CacheEntry::new'] if gi else []
    glit = agg_direct(gi, gmk[0].args[2]) if len(gmk) == 1 and len(gmk[0].args) > 2 else None
    gclo = glit['rv'].get('closure') if glit is not None else None
    for p, want in ((gclo or 'the closure get_or_insert passes to CacheEntry::new', '_has_reloader'), ('key::Inner::of_asset::load_entry::{closure#0}', 'is_hot_reloaded')):
        cb = F.body(p)
        if not cb:
            R1.missing(cfg, p)
            continue
        cs = [x.callee.name for x in cb.calls() if x.callee]
        ok = cs == [want] and cb.calls()[0].dest['l'] == 0
        if not ok and want == '_has_reloader' and not cb.calls():
            # values stored with get_or_insert are never written by the reloader (R3, R6, R8): a constant is as good
            rets = [st for _, _, st in cb.assigns() if st['place']['l'] == 0]
            ok = len(rets) == 1 and rets[0]['rv']['k'] == 'use' and rets[0]['rv']['op'].get('text') in ('true', 'false')
        R1.check(ok, cfg, p, '_mutable=' + want, 'the mutability predicate must be "this cache has a reloader"; calls %s' % cs, cb.loc())
    hb = F.body('anycache::CacheExt::_has_reloader')
    if hb:
        cs = [x for x in hb.calls() if x.callee]
        p_ = common.returns_is_variant(hb, 1)
        ok = len(cs) == 1 and cs[0].callee.name == 'reloader' and p_ == ['call@bb%d' % cs[0].bb]
        R1.check(ok, cfg, hb.path, '_has_reloader=reloader().is_some()', 'calls %s, true iff %s is Some' % ([x.callee.name for x in cs], p_), hb.loc())


def r2(R2, cfg, F):
    callers = F.callers_of(r'^entry::swap_any$')
    if len(callers) != 1:
        R2.missing(cfg, 'single writer (caller of swap_any)')
        return
    w = F.body(callers[0])
    sw_call = [c for c in w.calls() if c.callee and c.callee.best == 'entry::swap_any'][0]

    def dyn_switch(b):
        # the switch on discriminant(self.dynamic) of the entry being written
        for bb, t in b.terms():
            if t['k'] == 'switch' and not b.blocks[bb]['cleanup']:
                ap = b.access_path(t['discr'])
                if ap and ap[0] == 'arg1' and ap[-2:] == ['dynamic', 'discr'] and b.local_ty(1).startswith('&entry::EntryStorage'):
                    return bb
        return None
    b, site_bb = w, sw_call.bb
    sw = dyn_switch(b)
    if sw is None:
        ups = F.callers_of('^' + re.escape(w.path) + '$')
        if len(ups) == 1:
            b = F.body(ups[0])
            site_bb = [c for c in b.calls() if c.callee and c.callee.best == w.path][0].bb
            sw = dyn_switch(b)
    ok = sw is not None
    if ok:
        some = b.variant_edge(sw, 1)
        none = [d for d, lab in b.edges(sw) if d != some]
        ok = site_bb not in b.reachable([0], removed_edges=[(sw, some)])
        reach = b.reachable(none)
        ok = ok and not (reach & set(b.return_blocks())) and any(c.bb in reach and c.callee and c.callee.best == 'entry::wrong_handle_type' for c in b.calls())
    R2.check(ok, cfg, w.path, 'swap-only-on-dynamic-entry', 'a static (never reloaded) entry must not be rewritten: the swap must sit on the Some(dynamic) edge and the other edge must diverge', sw_call.loc())


def r3(R3, cfg, F):
    cs = sorted({(c.body.root, c.body.kind) for c in F.calls_to(r'^hot_reloading::HotReloader::add_asset$')})
    R3.check(cs == [('anycache::RawCache::add_asset', 'Closure')], cfg, 'hot_reloading::HotReloader::add_asset', 'callers={on_insert callback of RawCache::add_asset}',
             'reloadable registration may happen only in the on_insert callback built by RawCache::add_asset; callers %s' % cs)
    for p in ('anycache::CacheExt::_get_or_insert', '<T as anycache::Cache>::insert'):
        if not F.body(p):
            R3.missing(cfg, p)
            continue
        reach = F.reach([p])
        hits = sorted(x for x in reach if x.startswith('hot_reloading::HotReloader::') or x.startswith('hot_reloading::records::add_') and 'add_record' not in x)
        hits = [h for h in hits if not h.endswith('::fmt')]
        R3.check(not hits, cfg, p, 'reaches-no-reloader-method', 'get_or_insert must not register anything with the reloader; reaches %s' % hits, F.body(p).loc())
    b = F.body(D + 'DepsGraph::reload')
    if not b:
        R3.missing(cfg, 'DepsGraph::reload')
        return
    ru = [c for c in b.calls() if c.callee and c.callee.name == 'reload_untyped']
    ok = len(ru) == 1
    if ok:
        src = b.downcast_source(ru[0].args[2])
        ok = bool(src) and src[1] == 'Some'
        # the reload runs only when the node's `typ` is Some (tested in place, or on a copy handed out by a helper)
        g = [x for x in common.guards_of(b, ru[0].bb) if x[3][0] == 'discr' and (common.strip_refs(common.deep_path(b, x[3][1])) or [''])[-1] == 'typ'
             and common.guard_variant(b, x) == 1]
        ok = ok and len(g) >= 1
    R3.check(ok, cfg, b.path, 'reload-only-nodes-with-typ=Some', 'DepsGraph::reload must skip nodes whose typ is None (not reloadable)', b.loc())


def r4(R4, cfg, F):
    b = F.body('<local_cache::LocalAssetCache<S> as anycache::RawCache>::reloader')
    if not b:
        R4.missing(cfg, 'LocalAssetCache::reloader')
    else:
        rets = [s for _, _, s in b.assigns() if s['place']['l'] == 0]
        ok = not b.calls() and len(rets) == 1 and rets[0]['rv']['k'] == 'aggregate' and rets[0]['rv'].get('variant_name') == 'None'
        R4.check(ok, cfg, b.path, 'returns-None', 'LocalAssetCache must never have a reloader', b.loc())
    b = F.body('cache::AssetCache::<S>::without_hot_reloading')
    if not b:
        R4.missing(cfg, 'without_hot_reloading')
    else:
        ag = [s for _, _, s in b.assigns() if s['rv']['k'] == 'aggregate' and s['rv'].get('adt') == 'cache::AssetCache']
        ok = len(ag) == 1
        if ok:
            f = dict(zip(ag[0]['rv']['fields'], ag[0]['rv']['ops']))
            a = agg_stmts(b, f['reloader'])
            ok = len(a) == 1 and a[0]['rv'].get('variant_name') == 'None'
        R4.check(ok, cfg, b.path, 'stores-None-reloader', 'without_hot_reloading must build a cache without reloader', b.loc())
    b = F.body('hot_reloading::HotReloader::make')
    if not b:
        R4.missing(cfg, 'HotReloader::make')
    else:
        ms = [c for c in b.calls() if c.callee and c.callee.defp == 'source::Source::make_source']
        cf = [c for c in b.calls() if c.callee and c.callee.defp == 'source::Source::configure_hot_reloading']
        st = [c for c in b.calls() if c.callee and c.callee.best == 'hot_reloading::HotReloader::start']
        ok = len(ms) == 1 and len(cf) == 1 and len(st) == 1
        if ok:
            # start is reachable only when make_source gave Some and configure_hot_reloading gave Ok (tested directly, or
            # as the Some of `.map_err(..).ok()`): guard set of the call, on the normal form
            g = [(common.deep_path(b, x[3][1]), common.guard_variant(b, x)) for x in common.guards_of(b, st[0].bb) if x[3][0] == 'discr']
            ok1 = (['call@bb%d' % ms[0].bb], 1) in g
            ok2 = (['call@bb%d' % cf[0].bb], 0) in g
            pt = common.make_pt(r'Result::<T, E>::(ok|map_err)$')
            for path, v in g:
                if v == 1 and path and len(path) == 1 and path[0].startswith('call@bb') and path[0] != 'call@bb%d' % ms[0].bb:
                    site = [c for c in b.calls() if 'call@bb%d' % c.bb == path[0]]
                    if site and site[0].callee and site[0].callee.name == 'ok' and ('call', cf[0].bb) in b.origins(site[0].args[0], passthrough=pt):
                        ok2 = True
            ok = ok1 and ok2
        R4.check(ok, cfg, b.path, 'no-reloader-when-source-refuses', 'HotReloader::make must return None when make_source gives None or configure_hot_reloading fails', b.loc())
    # the reloader field is assigned only by constructors
    for fb in F.fn_bodies():
        for bb, j, s in fb.assigns():
            pl = s['place']
            if pl['p'] and isinstance(pl['p'][-1], dict) and pl['p'][-1].get('n') == 'reloader' and pl['p'][-1].get('of') == 'cache::AssetCache':
                R4.bad(cfg, fb.path, 'reloader-field-assigned', 'the reloader of a cache is replaced after construction', '%s:%s' % (fb.file, s['line']))


def r5(R5, cfg, F):
    """sibling rule: every public destroyer of a cache type that owns a reloader notifies it"""
    # cache types with a reloader field
    for adt_path, adt in F.adts.items():
        if adt['kind'] != 'struct':
            continue
        if not any(f['name'] == 'reloader' and f['ty'] == 'std::option::Option<hot_reloading::HotReloader>' for f in adt['variants'][0]['fields']):
            continue
        # exclusive destroy sites
        excl = set()
        for b in F.fn_bodies():
            for c in b.calls():
                if map_call_kind(c) == 'DESTROY' and map_access_mode(b, c) == 'exclusive':
                    excl.add(b.path)
        g = F.call_graph()
        n = 0
        for p, sig in sorted(F.fns.items()):
            if sig['vis'] != 'pub' or sig.get('impl_self_adt') != adt_path or not sig['inputs'] or not sig['inputs'][0].startswith('&mut'):
                continue
            if sig.get('impl_trait'):
                continue
            reach = F.reach([p])
            if not (reach & excl):
                continue
            n += 1
            sends = [c for f in reach if F.body(f) for c in F.body(f).calls() if c.callee and c.callee.best == 'crossbeam_channel::Sender::<T>::send'
                     and 'CacheMessage' in ' '.join(c.callee.args or [])]
            variants = sorted({s['rv'].get('variant_name') for c in sends for s in agg_stmts(c.body, c.args[1])})
            R5.check(bool(variants), cfg, p, 'destroyer-does-not-tell-reloader',
                     '`%s` removes entries from a cache that has a reloader but sends it no message: the dependency graph still describes the removed key as reloadable, '
                     'so a value later stored under that key with get_or_insert is overwritten by a reload' % p, '%s:%s' % (sig['file'], sig['line']), messages=variants)
            # the handler of each message mutates the graph
            th = F.body('hot_reloading::hot_reloading_thread')
            madt = F.adt('hot_reloading::CacheMessage')
            for v in variants:
                if not th or not madt:
                    R5.missing(cfg, 'hot_reloading_thread / CacheMessage')
                    break
                idx = [x['idx'] for x in madt['variants'] if x['name'] == v][0]
                arm = None
                for bb, t in th.terms():
                    if t['k'] == 'switch' and not th.blocks[bb]['cleanup'] and t['discr']['k'] in ('copy', 'move'):
                        for d in th.defs_of(t['discr']['place']['l']):
                            if d[0] == 'stmt' and d[3]['rv']['k'] == 'discr' and d[3]['rv']['place']['ty'] == 'hot_reloading::CacheMessage':
                                e = [x for x, lab in th.edges(bb) if lab == 'sw:%d' % idx]
                                arm = e[0] if e else None
                handlers = [c for c in th.calls() if arm is not None and c.bb == arm and c.callee and c.callee.best.startswith(P + 'HotReloadingData::')]
                ok = len(handlers) == 1 and mutates_graph(F, handlers[0].callee.best)
                hp = handlers[0].callee.best if handlers else '?'
                R5.check(ok, cfg, hp, 'handler-does-not-touch-graph',
                         'the handler of CacheMessage::%s (%s) does not modify the dependency graph: forgotten keys stay reloadable' % (v, hp), F.body(hp).loc() if F.body(hp) else None)
        if n == 0:
            R5.missing(cfg, 'public destroying operations of ' + adt_path)
    # remove / take: the reloader is told exactly when an entry was really removed
    for p in ('cache::AssetCache::<S>::remove', 'cache::AssetCache::<S>::take'):
        b = F.body(p)
        if not b:
            R5.missing(cfg, p)
            continue
        fg = [c for c in b.calls() if c.callee and c.callee.best == 'cache::AssetCache::<S>::forget_asset']
        rm = [c for c in b.calls() if c.callee and c.callee.best in ('cache::AssetMap::remove', 'cache::AssetMap::take')]
        ok = len(fg) == 1 and len(rm) == 1
        why = 'shape: one AssetMap::remove / take and one forget_asset expected'
        if ok:
            if rm[0].callee.name == 'take' and p.endswith('::remove'):
                # (AssetMap::remove written in place: `take(..).is_some()`)
                ok = common.guarded_by_variant(b, fg[0].bb, [['call@bb%d' % rm[0].bb]], 1)
                g = [x for x in common.guards_of(b, fg[0].bb) if x[3][0] == 'discr' and common.deep_path(b, x[3][1]) == ['call@bb%d' % rm[0].bb]]
                ok = ok and common.inevitable(b, g, fg[0].bb)
            elif rm[0].callee.name == 'remove':
                tg = [(x, t) for x, t in common.call_truth_guards(b, fg[0].bb) if x is rm[0]]
                ok = tg == [(rm[0], True)]
                guards = [x for x in common.guards_of(b, fg[0].bb) if any(y is rm[0] for y, _ in common.call_truth_guards(b, fg[0].bb))]
                skip = b.reachable([0], removed_blocks=[fg[0].bb])
                # with `removed` true the notification is not skipped: the only way around it is the false edge of that test
                sw = [bb for bb, t in b.terms() if t['k'] == 'switch' and fg[0].bb in b.reachable([bb]) and not all(fg[0].bb in b.reachable([d]) or d == fg[0].bb for d, _ in b.edges(bb))]
                ok = ok and len(sw) == 1
            else:
                ok = common.guarded_by_variant(b, fg[0].bb, [['call@bb%d' % rm[0].bb]], 1)
                g = [x for x in common.guards_of(b, fg[0].bb) if x[3][0] == 'discr' and common.deep_path(b, x[3][1]) == ['call@bb%d' % rm[0].bb]]
                ok = ok and common.inevitable(b, g, fg[0].bb)
            why = 'the reloader must be told (forget_asset) exactly when the map reported that an entry was removed'
        R5.check(ok, cfg, p, 'forgets-iff-removed', '%s: %s' % (p.split('::')[-1], why), b.loc())
    for p in ('cache::AssetMap::remove', 'local_cache::AssetMap::remove'):
        b = F.body(p)
        if not b:
            # folded into its callers: nothing left to judge here (the caller's own test is judged above)
            R5.note(cfg, **{'remove_wrapper_absent:' + p: True})
            continue
        tk = [c for c in b.calls() if c.callee and c.callee.name == 'take' and 'AssetMap' in c.callee.best]
        ok = len(tk) == 1 and common.returns_is_variant(b, 1) == ['call@bb%d' % tk[0].bb]
        R5.check(ok, cfg, p, 'remove-answers-was-present', 'AssetMap::remove must answer true exactly when take(id, type) found an entry (the answer decides whether the reloader is told)', b.loc())


def mutates_graph(F, fn):
    b = F.body(fn)
    if not b:
        return False
    for bb, j, s in b.assigns():
        pl = s['place']
        if pl['p'] and isinstance(pl['p'][-1], dict) and pl['p'][-1].get('n') == 'deps' and pl['p'][-1].get('of') == P + 'HotReloadingData':
            return True
    # a new DepsGraph method written in place: a mutating HashMap call on the graph's own map, reached through self.deps
    for c in b.calls():
        if c.callee and c.callee.recv_kind() == '&mut self' and re.search(r'HashMap', c.callee.best) and c.callee.name in ('insert', 'remove', 'clear', 'retain', 'entry', 'drain') and c.args:
            cur = c.args[0]
            for _ in range(5):
                if 'deps' in common.strip_refs(common.deep_path(b, cur)):
                    return True
                r = b.call_roots(cur)
                if len(r) == 1 and r[0].callee and r[0].callee.name in ('deref_mut', 'deref', 'as_mut', 'borrow_mut') and r[0].args:
                    cur = r[0].args[0]
                else:
                    break
    for c in b.calls():
        if c.callee and c.callee.best.startswith(D + 'DepsGraph::') and c.callee.recv_kind() == '&mut self':
            t = F.body(c.callee.best)
            if t is None:
                continue
            # that method writes a node / the map
            for _, _, s in t.assigns():
                pl = s['place']
                if pl['p'] and isinstance(pl['p'][-1], dict) and pl['p'][-1].get('of') == D + 'GraphNode':
                    return True
            if any(x.callee and x.callee.recv_kind() == '&mut self' and re.search(r'Hash(Map|Set)', x.callee.best) and x.callee.name in ('insert', 'remove', 'clear', 'retain', 'entry')
                   for x in t.calls()):
                return True
    return False


def r6(R6, cfg, F):
    regs = F.calls_to(r'^hot_reloading::HotReloader::add_asset$')
    if not regs:
        R6.missing(cfg, 'HotReloader::add_asset call')
        return
    for reg in regs:
        cb = reg.body
        pb = F.body(cb.root) if cb.kind == 'Closure' else None
        ok = False
        why = 'the registration is not inside an on_insert callback'
        if pb is not None:
            cs = common.closure_sites(pb, cb.path)
            ins = [x for x in pb.calls() if x.callee and x.callee.defp == 'anycache::AssetMap::insert']
            lds = [x for x in pb.calls() if x.callee and x.callee.best == 'asset::load_and_record']
            if len(cs) == 1 and len(ins) == 1 and len(lds) == 1 and len(ins[0].args) == 3:
                me = 'agg@bb%d.%d' % (cs[0][0], cs[0][1])
                # the closure value is used only as the on_insert argument of that insertion
                uses = [u for l in pb.flows_to(cs[0][2]['place']['l']) for u in pb.uses_of(l) if u[0] == 'call']
                ok = pb.access_path(ins[0].args[2]) == [me] and all(u[2] is ins[0] or (u[2].bb == ins[0].bb) for u in uses) \
                    and ('call', lds[0].bb) in pb.origins(ins[0].args[1], passthrough=common.PT_TRY)
                why = 'the callback that registers is not (only) the on_insert argument of the insertion of the loaded entry'
        R6.check(ok, cfg, (pb or cb).path, 'registers-reloadable-only-when-stored',
                 '`%s` registers an asset as reloadable (HotReloader::add_asset, typ = Some): %s. The reloader will later write whatever value sits under '
                 'that key (e.g. one stored with get_or_insert)' % (cb.path, why), reg.loc())
    # owned registration produces typ = None
    ob = F.body(D + 'DepsGraph::insert_owned_asset')
    if ob:
        inn = [c for c in ob.calls() if c.callee and c.callee.best.startswith(D + 'DepsGraph::') and c.callee.recv_kind() == '&mut self']
        ok = len(inn) == 1
        if ok:
            a = agg_stmts(ob, inn[0].args[3]) if len(inn[0].args) > 3 else []
            ok = len(a) == 1 and a[0]['rv'].get('variant_name') == 'None'
        R6.check(ok, cfg, ob.path, 'owned-node-has-typ=None', 'an owned load must be registered with typ = None', ob.loc())
    else:
        regs_owned = F.calls_to(r'^hot_reloading::HotReloader::add_owned_asset$')
        if regs_owned:
            R6.missing(cfg, 'DepsGraph::insert_owned_asset')


GRAPH_MAP = re.compile(r'HashMap<hot_reloading::records::Dependency, hot_reloading::dependencies::GraphNode')
GRAPH_OCC = re.compile(r'hash_map::(Occupied)?Entry<.*hot_reloading::records::Dependency, hot_reloading::dependencies::GraphNode')


def r9(R9, cfg, F):
    """remove / take tell the reloader RemoveAsset(key); its handler ends in DepsGraph::remove_asset.  After it the key must
    not be reloadable any more (a value later stored there with get_or_insert would be overwritten by a reload): on every
    path on which the node of the key was found, its `typ` becomes None or the node is deleted -- whatever else the
    function looks at (dependents, dependencies)."""
    b = F.body(D + 'DepsGraph::remove_asset')
    if not b:
        R9.missing(cfg, 'DepsGraph::remove_asset')
        return
    look = [c for c in b.calls() if c.callee and c.args and c.args[0]['k'] in ('copy', 'move') and GRAPH_MAP.search(c.args[0]['place']['ty'])
            and c.callee.name in ('get', 'get_mut', 'get_key_value', 'contains_key', 'entry', 'remove', 'remove_entry')
            and len(c.args) > 1 and common.value_built_from(b, c.args[1], at=c.bb) == ['arg2']]
    resets = set()
    for bb, j, st in b.assigns():
        pl = st['place']
        if pl['p'] and isinstance(pl['p'][-1], dict) and pl['p'][-1].get('n') == 'typ' and pl['p'][-1].get('of') == D + 'GraphNode':
            rv = st['rv']
            if rv['k'] == 'use':
                lit = agg_direct(b, rv['op'])
                rv = lit['rv'] if lit is not None else rv
            if rv['k'] == 'aggregate' and rv.get('variant_name') == 'None':
                resets.add(bb)
    for c in b.calls():
        if c.callee and c.args and c.args[0]['k'] in ('copy', 'move') and c.callee.name in ('remove', 'remove_entry') \
                and (GRAPH_MAP.search(c.args[0]['place']['ty']) and len(c.args) > 1 and common.value_built_from(b, c.args[1], at=c.bb) == ['arg2']
                     or GRAPH_OCC.search(c.args[0]['place']['ty'])):
            resets.add(c.bb)
    ok = bool(look) and bool(resets)
    why = 'shape: no look-up of the key in the graph / no `typ = None`'
    if ok:
        rets = set(b.return_blocks())
        for c in look:
            if c.bb in resets:
                continue
            if c.callee.name == 'contains_key':
                found = [bb for bb in sorted(b.live_blocks(unwind=False)) if any(x is c and truth for x, truth in common.call_truth_guards(b, bb))]
                if not found:
                    ok, why = False, 'shape: the result of contains_key is not tested'
                    break
            else:
                sw = b.primary_switch(c.dest['l'])
                some = b.variant_edge(sw, 1) if sw is not None else None
                found = [some] if some is not None else None
                if not found:
                    # (the result may pass through the return slot of a helper written in place before it is matched)
                    found = []
                    for bb_, t_ in b.terms():
                        tst = common.switch_test(b, bb_) if t_['k'] == 'switch' and not b.blocks[bb_]['cleanup'] else None
                        if tst and tst[0] == 'discr' and common.strip_refs(common.deep_path(b, tst[1])) == ['call@bb%d' % c.bb]:
                            e_ = b.variant_edge(bb_, 1)
                            if e_ is not None:
                                found.append(e_)
                    found = found or None
                if not found:
                    ok, why = False, 'shape: the result of `%s` is not matched' % c.callee.name
                    break
            if b.reachable(found, removed_blocks=list(resets)) & rets:
                ok = False
                why = 'on some path the node of the removed key is found and left reloadable (its `typ` is neither reset nor the node deleted)'
                break
    R9.check(ok, cfg, b.path, 'found-node-stops-being-reloadable', 'DepsGraph::remove_asset: %s' % why, b.loc())


def r8(R8, cfg, F):
    """on_insert (arg 3 of AssetMap::insert) is the only way a load registers itself as reloadable.  It must run
    only when the entry is stored -- otherwise the key of a value stored by someone else (get_or_insert) becomes
    reloadable (finding F8) -- and whenever it is stored -- otherwise a loaded asset is never reloaded (C05)."""
    for m in ('cache::AssetMap', 'local_cache::AssetMap'):
        b = F.body('<%s as anycache::AssetMap>::insert' % m)
        if not b:
            R8.missing(cfg, m + '::insert')
            continue
        if b.arg_count != 3:
            R8.unrecognised(cfg, b.path, 'insert(&self, entry, on_insert)', b.loc())
            continue
        keep = [c for c in b.calls() if map_call_kind(c) == 'KEEP_FIRST']
        entry = [c for c in b.calls() if map_call_kind(c) == 'ENTRY']
        direct = [c for c in b.calls() if common.user_call_kind(c) and ('arg', 3) in b.origins(c.args[0])]
        cl = [(bb, j, st) for bb, j, st in b.assigns() if 'closure' in st['rv'] and any(b.access_path(o) == ['arg3'] for o in st['rv']['ops'])]
        ok, why = False, 'on_insert is neither called under the Vacant arm nor handed to or_insert_with'
        if len(cl) == 1 and not direct and len(keep) == 1 and keep[0].callee.name in ('or_insert_with', 'or_insert_with_key'):
            me = 'agg@bb%d.%d' % (cl[0][0], cl[0][1])
            uses = [u for l in b.flows_to(cl[0][2]['place']['l']) for u in b.uses_of(l) if u[0] == 'call']
            cb = F.body(cl[0][2]['rv']['closure'])
            ok = len(keep[0].args) == 2 and b.access_path(keep[0].args[1]) == [me] and all(u[2].bb == keep[0].bb for u in uses) and cb is not None
            why = 'the closure that runs on_insert is not (only) the argument of or_insert_with'
            if ok:
                k = [i for i, o in enumerate(cl[0][2]['rv']['ops']) if b.access_path(o) == ['arg3']][0]
                e = [i for i, o in enumerate(cl[0][2]['rv']['ops']) if b.access_path(o) == ['arg2']]
                calls = [c for c in cb.calls() if common.user_call_kind(c)]
                ok = len(calls) == 1 and (common.deep_path(cb, calls[0].args[0]) or [])[-1:] == [str(k)] \
                    and not common.guards_of(cb, calls[0].bb) and common.inevitable(cb, [], calls[0].bb)
                why = 'the closure given to or_insert_with does not call on_insert exactly once on every path'
                if ok:
                    rets = [st for _, _, st in cb.assigns() if st['place']['l'] == 0 and not st['place']['p']]
                    ok = len(e) == 1 and len(rets) >= 1 and all(st['rv']['k'] == 'use' and (common.deep_path(cb, st['rv']['op']) or [])[-1:] == [str(e[0])] for st in rets)
                    why = 'the value stored by or_insert_with is not the entry argument'
        elif not cl and len(direct) == 1 and len(entry) == 1:
            # match map.entry(key) { Vacant(e) => { on_insert(); e.insert(entry) } Occupied(e) => e.into_mut() }
            g = common.guards_of(b, direct[0].bb)
            ent = F.ext_enum_variants('std::collections::hash_map::Entry')
            vac = [x for x in g if x[3] == ('discr', ['call@bb%d' % entry[0].bb])]
            ok = len(vac) == 1 and ent is not None and vac[0][2] == 'sw:%d' % ent.index('Vacant') and common.inevitable(b, vac, direct[0].bb)
            why = 'the direct call of on_insert is not on (exactly) the Vacant arm of the map entry'
        R8.check(ok, cfg, b.path, 'on_insert-iff-stored', 'AssetMap::insert: %s' % why, b.loc())
    # the other insertion (get_or_insert) passes a callback that does nothing
    ib = F.body('<T as anycache::Cache>::insert')
    if ib:
        for bb, j, st in ib.assigns():
            if 'closure' in st['rv']:
                cb = F.body(st['rv']['closure'])
                R8.check(cb is not None and not cb.calls(), cfg, ib.path, 'get_or_insert-callback-is-empty', 'the on_insert callback of get_or_insert must not do anything', ib.loc())
    else:
        R8.missing(cfg, 'Cache::insert')


def const_forward(F, path):
    """text of the single constant a const body evaluates to"""
    b = F.bodies.get(path)
    if b is None:
        return None
    rets = [s for _, _, s in b.assigns() if s['place']['l'] == 0 and s['rv']['k'] == 'use' and s['rv']['op']['k'] == 'const']
    return rets[0]['rv']['op']['text'] if len(rets) == 1 else None


def r7(R7, cfg, F, only_pairing=False):
    """Whether a key is reloadable is decided from Type.inner.hot_reloaded (records, registration) and from
    <T as Storable>::HOT_RELOADED (entry kind).  Both must come from what the type declared."""
    if only_pairing:
        # (for C02: the TypeId a look-up uses is the TypeId of the very type asked for)
        for fn in ('of_asset', 'of_storable'):
            b = F.body('key::Type::' + fn)
            if not b:
                R7.missing(cfg, 'key::Type::' + fn)
                continue
            ag = [s for _, _, s in b.assigns() if s['rv']['k'] == 'aggregate' and s['rv'].get('adt') == 'key::Type']
            ok = len(ag) == 1
            if ok:
                f = dict(zip(ag[0]['rv']['fields'], ag[0]['rv']['ops']))
                a, c = b.call_roots(f['type_id']), b.call_roots(f['inner'])
                ok = len(a) == 1 and a[0].callee.best == 'std::any::TypeId::of' and a[0].callee.args == ['T'] and len(c) == 1 and c[0].callee.best == 'key::Inner::' + fn and c[0].callee.args == ['T']
            R7.check(ok, cfg, b.path, 'Type=(TypeId::of::<T>, Inner::%s::<T>)' % fn, 'a Type must pair the TypeId of T with the descriptor of the same T', b.loc())
        return
    for fn, trait, loader in (('of_asset', 'asset::Compound', 'key::Inner::of_asset::load_entry::<T>'), ('of_storable', 'asset::Storable', 'key::Inner::of_storable::load')):
        pb = F.bodies.get('key::Inner::%s::{promoted#0}' % fn)
        if pb is None:
            R7.missing(cfg, 'key::Inner::%s descriptor' % fn)
            continue
        ag = [s for _, _, s in pb.assigns() if s['rv']['k'] == 'aggregate' and s['rv'].get('adt') == 'key::Inner']
        ok = len(ag) == 1
        got = None
        if ok:
            f = dict(zip(ag[0]['rv']['fields'], ag[0]['rv']['ops']))
            got = (f['hot_reloaded'].get('uneval'), sorted(pb.origins(f['load'])))
            ok = f['hot_reloaded'].get('uneval') == trait + '::HOT_RELOADED' and f['hot_reloaded'].get('uneval_args', [None])[0] == 'T' \
                and pb.origins(f['load']) == {('const', loader)}
        R7.check(ok, cfg, 'key::Inner::' + fn, 'hot_reloaded=<T as %s>::HOT_RELOADED' % trait.split('::')[-1],
                 'the type descriptor must take hot_reloaded from <T as %s>::HOT_RELOADED and its load function from T; found %s' % (trait, got), pb.loc())
    b = F.body('key::Type::is_hot_reloaded')
    if b:
        rets = [s for _, _, s in b.assigns() if s['place']['l'] == 0]
        ok = not b.calls() and len(rets) == 1 and rets[0]['rv']['k'] == 'use' and (b.access_path(rets[0]['rv']['op']) or [])[-2:] == ['*', 'hot_reloaded'] \
            and 'inner' in (b.access_path(rets[0]['rv']['op']) or [])
        R7.check(ok, cfg, b.path, 'is_hot_reloaded=self.inner.hot_reloaded', 'Type::is_hot_reloaded must return the descriptor flag', b.loc())
    else:
        R7.missing(cfg, 'Type::is_hot_reloaded')
    for fn in ('of_asset', 'of_storable'):
        b = F.body('key::Type::' + fn)
        if not b:
            R7.missing(cfg, 'key::Type::' + fn)
            continue
        ag = [s for _, _, s in b.assigns() if s['rv']['k'] == 'aggregate' and s['rv'].get('adt') == 'key::Type']
        ok = len(ag) == 1
        if ok:
            f = dict(zip(ag[0]['rv']['fields'], ag[0]['rv']['ops']))
            a, c = b.call_roots(f['type_id']), b.call_roots(f['inner'])
            ok = len(a) == 1 and a[0].callee.best == 'std::any::TypeId::of' and a[0].callee.args == ['T'] and len(c) == 1 and c[0].callee.best == 'key::Inner::' + fn and c[0].callee.args == ['T']
        R7.check(ok, cfg, b.path, 'Type=(TypeId::of::<T>, Inner::%s::<T>)' % fn, 'a Type must pair the TypeId of T with the descriptor of the same T', b.loc())
    # the chain of declarations
    for path, want in (('<T as asset::Storable>::HOT_RELOADED', '<T as asset::Compound>::HOT_RELOADED'), ('<T as asset::Compound>::HOT_RELOADED', '<T as asset::Asset>::HOT_RELOADED'),
                       ('<std::sync::Arc<T> as asset::Compound>::HOT_RELOADED', '<T as asset::Compound>::HOT_RELOADED')):
        got = const_forward(F, path)
        R7.check(got == want, cfg, path, 'forwards-' + want, 'the blanket impl must forward the opt-out of the type: `%s` is %s, expected %s' % (path, got, want))
    # every wrapper impl (`impl<U: Compound> Compound for Wrapper<U>`: Arc<U>, OnceInitCell<U, T>, OnceInitCell<Option<U>, T>)
    # must forward the opt-out of what it wraps: the trait default is `true`, so a wrapper that says nothing would make
    # a non-reloadable type reloadable
    for im in F.impls:
        if im['trait'] != 'asset::Compound' or not im.get('self_ty'):
            continue
        wrapped = [m.group(1) for pr in im['predicates'] for m in [re.match(r'^(\w+): asset::Compound$', pr)] if m]
        if len(wrapped) != 1 or im['self_ty'] == wrapped[0]:
            continue
        items = {it.get('name'): it['path'] for it in im['items']}
        want = '<%s as asset::Compound>::HOT_RELOADED' % wrapped[0]
        got = const_forward(F, items['HOT_RELOADED']) if 'HOT_RELOADED' in items else None
        R7.check(got == want, cfg, '<%s as asset::Compound>' % im['self_ty'], 'forwards-' + want,
                 '`impl Compound for %s` must forward the opt-out of the type it wraps (HOT_RELOADED = %s); it is %s'
                 % (im['self_ty'], want, got if got is not None else 'not declared (the trait default, true, applies)'))
    ck = F.bodies.get('asset::Storable::_CHECK_NOT_HOT_RELOADED')
    if ck:
        texts = [s['rv']['op'].get('text') for _, _, s in ck.assigns() if s['rv']['k'] == 'use' and s['rv']['op']['k'] == 'const']
        sw = [t_ for _, t_ in ck.terms() if t_['k'] == 'switch']
        pan = [c for c in ck.calls(include_dead=True) if c.callee and 'panic' in c.callee.best]
        ok = '<Self as asset::Storable>::HOT_RELOADED' in texts and bool(pan)
        R7.check(ok, cfg, ck.path, 'assert!(!HOT_RELOADED)', '_CHECK_NOT_HOT_RELOADED must assert that the type is not hot-reloaded', ck.loc())
