"""C02 -- the cache is a faithful map keyed by (id, type) for every front-end.
Necessary structural clauses only (DESIGN.md section 4, C02)."""
import re
from collections import deque

import common
from common import map_call_kind
from c01 import r4 as key_agreement, r7 as shard_agreement

LEVEL = 'other'
EXPLANATION = (
    'Call-graph and path rules over the MIR of every feature configuration: (R1) each public operation of '
    'AssetCache / LocalAssetCache / AnyCache reaches exactly the reference set of core operations and the sets '
    'agree between front-ends; (R2) in RawCache::add_asset the map insertion is reachable only through the '
    'Continue edge of the `?` on the load result and inserts that payload; (R3) who-may-insert: AssetMap::insert '
    '<- {add_asset, Cache::insert} <- add_any <- the None arm of _get_or_insert; load_owned / get_cached / contains '
    '/ load_and_record reach no insertion; (R4) take/remove/clear name exactly their key / the whole map; (R5) the two '
    'AssetMap impls use the same HashMap operation per method; key hash/eq use id AND type (C01.R4). '
    'These are necessary conditions of map-equivalence, not the behaviour itself.')
TRUSTED = ['rustc MIR construction', 'hashbrown map semantics', 'amfacts driver + rule engine in /verif/sa']

FRONT = {
    'AssetCache': 'cache::AssetCache::<S>::',
    'LocalAssetCache': 'local_cache::LocalAssetCache::<S>::',
    'AnyCache': "anycache::AnyCache::<'a>::",
}
# reference table (confirmed by reading the pinned tree): operation -> core operations it must reach
REF = {
    'load': {'load_entry'}, 'load_expect': {'load_entry'}, 'load_owned': {'load_owned_entry'},
    'get_cached': {'get_cached_entry_inner'}, 'get_or_insert': {'get_cached_entry_inner', 'insert'},
    'contains': {'contains_key'}, 'load_dir': {'load_entry'}, 'load_rec_dir': {'load_entry'},
    'remove': {'map.take'}, 'take': {'map.take'}, 'clear': {'map.clear'},   # AssetMap::remove (if it exists) = take(..).is_some()
}
HAS = {
    'AssetCache': set(REF) | {'no_record'},
    'LocalAssetCache': set(REF),
    'AnyCache': set(REF) - {'remove', 'take', 'clear'} | {'no_record'},
}


def core_of(defp):
    m = re.search(r'anycache::Cache(?:>)?::(load_entry|load_owned_entry|get_cached_entry_inner|insert)$', defp)
    if m:
        return m.group(1)
    if re.search(r'anycache::AssetMap(?:>)?::contains_key$', defp):
        return 'contains_key'
    m = re.search(r'^(?:cache|local_cache)::AssetMap::(take|clear)$', defp)
    if m:
        return 'map.' + m.group(1)
    if defp == 'hot_reloading::records::no_record':
        return 'no_record'
    return None


def core_set(F, start, max_hops=4):
    out = set()
    seen = {start}
    dq = deque([(start, 0)])
    while dq:
        f, d = dq.popleft()
        b = F.body(f)
        if not b:
            continue
        for u in F.unit(b) if b.kind != 'Closure' else [b]:
            for c in u.calls():
                if not c.callee:
                    continue
                k = core_of(c.callee.defp) or core_of(c.callee.best)
                if k:
                    out.add(k)
                    continue
                if d < max_hops:
                    for t in F.callee_targets(c):
                        if t not in seen:
                            seen.add(t)
                            dq.append((t, d + 1))
    return out


def run(ctx):
    rep = ctx.report
    R1 = rep.rule('C02.R1', 'front-end parity: each public operation reaches the reference core-operation set on every front-end', floor=30)
    R2 = rep.rule('C02.R2', 'add_asset inserts only after the load succeeded, and inserts that entry', floor=2)
    R3 = rep.rule('C02.R3', 'who-may-insert: closed set of callers; read-only operations reach no insertion', floor=8)
    R4 = rep.rule('C02.R4', 'take/remove/clear name exactly what they destroy', floor=6)
    R5 = rep.rule('C02.R5', 'the two AssetMap impls use the same HashMap operation per trait method', floor=3)
    R6 = rep.rule('C01.R4', 'key hash/eq use both id and type (shared with C01)', floor=7)
    R7 = rep.rule('C01.R7', 'take/remove (get_shard_mut) look in the shard that get/insert (get_shard) use (shared with C01)', floor=2)
    R9 = rep.rule('C10.R7', 'a Type pairs the TypeId of T with the descriptor of the same T (shared with C10): look-ups use the key the insertion used', floor=2)
    R8 = rep.rule('C10.R8', 'AssetMap::insert stores its entry argument if and only if the key was absent (shared with C10)', floor=2)
    S10 = rep.rule('C01.R8', 'get_cached / contains answer from the map itself: a look-up says `absent` only when the hash map has no such entry (shared with C01)', floor=3)
    for cfg, F in ctx.cfgs():
        hr = 'hot-reloading' in ctx.cfg_features[cfg]
        from c01 import r8 as absent_only_if_not_in_map
        absent_only_if_not_in_map(S10, cfg, F)
        S10.finish_cfg(cfg)
        from c10 import r8 as stores_the_entry_argument
        stores_the_entry_argument(R8, cfg, F)
        R8.finish_cfg(cfg)
        from c10 import r7 as type_descriptors
        type_descriptors(R9, cfg, F, only_pairing=True)
        R9.finish_cfg(cfg)
        r1(R1, cfg, F, hr)
        r2(R2, cfg, F)
        r3(R3, cfg, F)
        r4(R4, cfg, F)
        r5(R5, cfg, F)
        key_agreement(R6, cfg, F)
        shard_agreement(R7, cfg, F)
        for r in (R1, R2, R3, R4, R5, R6, R7):
            r.finish_cfg(cfg)


def r1(R1, cfg, F, hr):
    table = {}
    for fe, prefix in FRONT.items():
        for op in sorted(HAS[fe]):
            b = F.body(prefix + op)
            if not b:
                R1.missing(cfg, prefix + op)
                continue
            cs = core_set(F, b.path)
            table[(fe, op)] = cs
            if op == 'no_record':
                want = {'no_record'} if hr else set()
            else:
                want = REF[op]
            R1.check(cs == want, cfg, b.path, 'core-ops=%s' % '+'.join(sorted(want) or ['-']),
                     '`%s` must reach exactly the core operations %s, reaches %s' % (b.path, sorted(want), sorted(cs)), b.loc(), reaches=sorted(cs))
    # type argument of the destroyers / contains / directory loads
    for fe, prefix in FRONT.items():
        for op in ('remove', 'take', 'contains'):
            if op not in HAS[fe]:
                continue
            b = F.view(prefix + op, ['cache::AssetMap::remove', 'local_cache::AssetMap::remove'])
            if not b:
                continue
            tid = [c for c in b.calls() if c.callee and c.callee.best == 'std::any::TypeId::of']
            if not tid:
                # goes through _contains::<T>
                cc = [c for c in b.calls() if c.callee and c.callee.name == '_contains']
                ok = len(cc) == 1 and cc[0].callee.args[-1:] == ['T'] and b.access_path(cc[0].args[1]) == ['arg2']
                R1.check(ok, cfg, b.path, 'passes-own-T-and-id', '`%s` must query its own type parameter and id' % b.path, b.loc())
                continue
            ok = all(x.callee.args == ['T'] for x in tid)
            core = [c for c in b.calls() if c.callee and (core_of(c.callee.best) or core_of(c.callee.defp))]
            if op == 'contains' and not core and not F.body('anycache::CacheExt::_contains'):
                # (`_contains::<T>(id)`, a one-line helper, written into its callers: they ask `Cache::contains` themselves)
                core = [c for c in b.calls() if c.callee and c.callee.defp == 'anycache::Cache::contains']
            ok = ok and len(core) == 1 and b.access_path(core[0].args[1]) == ['arg2'] and b.access_path(core[0].args[2]) in [['call@bb%d' % x.bb] for x in tid]
            R1.check(ok, cfg, b.path, 'passes-TypeId::of::<T>-and-id', '`%s` must pass its id parameter and TypeId::of::<T>() to the map' % b.path, b.loc())
        for op, dirty in (('load_dir', 'dirs::Directory<T>'), ('load_rec_dir', 'dirs::RecursiveDirectory<T>')):
            b = F.body(prefix + op)
            if not b:
                continue
            ld = [c for c in b.calls() if c.callee and c.callee.name == 'load']
            ok = len(ld) == 1 and dirty in ld[0].callee.args and b.access_path(ld[0].args[1]) == ['arg2']
            R1.check(ok, cfg, b.path, 'loads-' + dirty, '`%s` must load %s of its id' % (b.path, dirty), b.loc())


def r2(R2, cfg, F):
    """(normal form: `?` and an explicit match on the result are the same control flow)"""
    b = F.body('anycache::RawCache::add_asset')
    if not b:
        R2.missing(cfg, 'RawCache::add_asset')
        return
    ins = [c for c in b.calls() if c.callee and c.callee.defp == 'anycache::AssetMap::insert']
    ld = [c for c in b.calls() if c.callee and c.callee.best == 'asset::load_and_record']
    if len(ins) != 1 or len(ld) != 1:
        R2.unrecognised(cfg, b.path, 'one load_and_record and one AssetMap::insert', b.loc())
        return
    ins, ld = ins[0], ld[0]
    me = 'call@bb%d' % ld.bb
    # load_and_record returns (Result<CacheEntry>, Recorded) -- or, before that, the Result itself
    res = ([me, '0'], [me])
    R2.check(common.guarded_by_variant(b, ins.bb, res, 0), cfg, b.path, 'insert-only-when-the-load-is-Ok',
             'AssetMap::insert is reachable without the load having succeeded (no test of the result of load_and_record for Ok guards it)', ins.loc())
    ap = common.deep_path(b, ins.args[1])
    R2.check(ap in ([me, '0', 'as:Ok', '0'], [me, 'as:Ok', '0']), cfg, b.path, 'inserts-the-loaded-entry',
             'the inserted entry must be the Ok payload of load_and_record; it is %s' % ap, ins.loc())


def PARAM(b, site, i):
    """where the i-th argument of a call comes from, looking through the captures of a closure written in place"""
    return common.strip_refs(common.arg_path(site, i))


def r3(R3, cfg, F):
    def callers(rx):
        return sorted({c.body.path for c in F.calls_to(rx)})
    ci = callers(r'anycache::AssetMap(>)?::insert$')
    R3.check(ci == ['<T as anycache::Cache>::insert', 'anycache::RawCache::add_asset'], cfg, 'anycache::AssetMap::insert', 'callers={add_asset,Cache::insert}',
             'AssetMap::insert may be called only from RawCache::add_asset and Cache::insert; callers: %s' % ci)
    cc = callers(r'anycache::Cache(>)?::insert$')
    R3.check(cc == ['anycache::CacheExt::_get_or_insert'], cfg, 'anycache::Cache::insert', 'callers={get_or_insert}', 'Cache::insert may be called only by get_or_insert (directly or through its add_any helper, which is looked through); callers: %s' % cc)
    caa = callers(r'^anycache::RawCache::add_asset$')
    R3.check(caa == ['<T as anycache::Cache>::load_entry'], cfg, 'anycache::RawCache::add_asset', 'callers={load_entry}', 'add_asset may be called only from Cache::load_entry; callers: %s' % caa)
    # add_any only on the None arm of the lookup
    b = F.body('anycache::CacheExt::_get_or_insert')
    if not b:
        R3.missing(cfg, '_get_or_insert')
    else:
        look = [c for c in b.calls() if c.callee and c.callee.name == '_get_cached_entry']
        add = [c for c in b.calls() if c.callee and c.callee.defp == 'anycache::Cache::insert']
        mk = [c for c in b.calls() if c.callee and c.callee.best == 'entry::CacheEntry::new']
        ok = False
        if len(look) == 1 and len(add) == 1 and len(mk) == 1:
            ok = common.guarded_by_variant(b, add[0].bb, [['call@bb%d' % look[0].bb]], 0) and common.guarded_by_variant(b, mk[0].bb, [['call@bb%d' % look[0].bb]], 0)
            pt = common.make_pt(r'convert::(From|Into)<.*>>::(from|into)$', r'Clone>::clone$', r'ToOwned>::to_owned$', r'^std::convert::(From::from|Into::into)$')
            # the entry stored is CacheEntry::new(default, id, ..) of this very call
            def conv_root(op, at):
                # where a value comes from, through conversions (`id.into()`, `SharedString::from(id)`, clones)
                dp = common.strip_refs(common.deep_path(b, op, at=at))
                for _ in range(4):
                    cs_ = [c for c in b.calls() if dp == ['call@bb%d' % c.bb]]
                    rx_ = r'convert::(From|Into)<.*>>::(from|into)$|Clone>::clone$|ToOwned>::to_owned$|^std::convert::(From::from|Into::into)$'
                    if not cs_ or not cs_[0].callee or not cs_[0].args or not (re.search(rx_, cs_[0].callee.best) or re.search(rx_, cs_[0].callee.defp or '')):
                        break
                    dp = common.strip_refs(common.deep_path(b, cs_[0].args[0], at=cs_[0].bb))
                return dp
            # the entry stored is CacheEntry::new(default, id, ..) of this very call
            ok = ok and conv_root(add[0].args[1], add[0].bb) == ['call@bb%d' % mk[0].bb] and conv_root(mk[0].args[0], mk[0].bb) == ['arg3'] \
                and conv_root(mk[0].args[1], mk[0].bb) == ['arg2'] and PARAM(b, look[0], 1) == ['arg2']
        R3.check(ok, cfg, b.path, 'add_any-only-on-absent', 'get_or_insert must insert (id, default) only when the lookup found nothing', b.loc())
    # load_entry: add_asset only on the None arm
    b = F.body('<T as anycache::Cache>::load_entry')
    if not b:
        R3.missing(cfg, 'Cache::load_entry')
    else:
        look = [c for c in b.calls() if c.callee and c.callee.name == 'get_cached_entry_inner']
        add = [c for c in b.calls() if c.callee and c.callee.name == 'add_asset']
        ok = False
        if len(look) == 1 and len(add) == 1:
            ok = common.guarded_by_variant(b, add[0].bb, [['call@bb%d' % look[0].bb]], 0)
            ok = ok and PARAM(b, add[0], 1) == ['arg2'] and PARAM(b, add[0], 2) == ['arg3'] \
                and PARAM(b, look[0], 1) == ['arg2'] and PARAM(b, look[0], 2) == ['arg3']
            # and what the lookup found is what is returned on the other arm
            oks = [st for _, _, st in b.assigns() if st['place']['l'] == 0 and st['rv']['k'] == 'aggregate' and st['rv'].get('variant_name') == 'Ok']
            ok = ok and any(common.deep_path(b, st['rv']['ops'][0]) == ['call@bb%d' % look[0].bb, 'as:Some', '0'] for st in oks)
        R3.check(ok, cfg, b.path, 'load=get-or-(load,insert)', 'load_entry must return the cached entry when present and load+insert the same (id,type) otherwise', b.loc())
    # read-only operations reach no insertion (direct + CHA edges; indirect loader calls excluded by design)
    inserters = {p for p in F.bodies if re.search(r'as anycache::AssetMap>::insert$', p)} | {'anycache::RawCache::add_asset', '<T as anycache::Cache>::insert', 'anycache::CacheExt::add_any'}
    for p in ('<T as anycache::Cache>::load_owned_entry', '<T as anycache::Cache>::get_cached_entry_inner',
              '<T as anycache::Cache>::contains', 'asset::load_and_record', 'anycache::CacheExt::_get_cached',
              'anycache::CacheExt::_contains', 'anycache::CacheExt::_load_owned'):
        if not F.body(p):
            if p == 'anycache::CacheExt::_contains' and any(
                    c.callee and c.callee.defp == 'anycache::Cache::contains'
                    for fb in [F.body(q + 'contains') for q in FRONT.values()] if fb for c in fb.calls()):
                continue          # written into the front-ends' `contains` (C02.R1 checks what they pass and reach)
            R3.missing(cfg, p)
            continue
        reach = F.reach([p])
        hit = sorted(reach & inserters)
        R3.check(not hit, cfg, p, 'reaches-no-insert', '`%s` must not add entries of its own, but reaches %s' % (p, hit), F.body(p).loc())


def r4(R4, cfg, F):
    for m in ('cache::AssetMap', 'local_cache::AssetMap'):
        b = F.body(m + '::take')
        if not b:
            R4.missing(cfg, m + '::take')
            continue
        rm = [c for c in b.calls() if map_call_kind(c) == 'DESTROY']
        ok = False
        why = 'shape'
        if len(rm) == 1 and rm[0].callee.name == 'remove' and rm[0].dest['l'] == 0:
            ap = b.access_path(rm[0].args[1])
            if ap and ap[0].startswith('call@bb'):
                kc = [c for c in b.calls() if c.bb == int(ap[0][7:])]
                if kc and kc[0].callee and kc[0].callee.best.endswith('BorrowedKey::<\'a>::new_with'):
                    a1, a2 = b.access_path(kc[0].args[0]), b.access_path(kc[0].args[1])
                    ok = (a1 == ['arg2'] and a2 == ['arg3'])
                    why = 'key built from %s,%s' % (a1, a2)
        R4.check(ok, cfg, b.path, 'removes-exactly-(id,type_id)', 'take must remove exactly the key (id, type_id) it was given and return the removed entry (%s)' % why, b.loc())
        # remove = take(id, type_id).is_some(): decided on the front-end `remove` with AssetMap::remove (a one-line
        # wrapper that may or may not exist) inlined into it
        fe = {'cache::AssetMap': 'cache::AssetCache::<S>::remove', 'local_cache::AssetMap': 'local_cache::LocalAssetCache::<S>::remove'}[m]
        b = F.view(fe, [m + '::remove'])
        if not b:
            R4.missing(cfg, fe)
        else:
            tk = [c for c in b.calls() if c.callee and c.callee.best == m + '::take']
            ok = len(tk) == 1
            why = 'exactly one AssetMap::take call expected, found %d' % len(tk)
            if ok:
                a = [common.deep_path(b, x) for x in tk[0].args]
                tid = [c for c in b.calls() if c.callee and c.callee.best == 'std::any::TypeId::of' and 'call@bb%d' % c.bb == (a[2] or ['?'])[0]]
                ok = a[1] == ['arg2'] and len(tid) == 1 and (a[0] or [])[:1] == ['arg1']
                why = 'take must receive (the id parameter, TypeId::of::<T>()); got %s' % a[1:]
            if ok:
                # the boolean result is "the Option returned by take is Some"
                isome = [c for c in b.calls() if c.callee and c.callee.name in ('is_some', 'is_none') and 'Option' in c.callee.best
                         and (common.deep_path(b, c.args[0]) or [])[:1] == ['call@bb%d' % tk[0].bb]]
                sw = [bb for bb, t in b.terms() if t['k'] == 'switch' and common.deep_path(b, t['discr']) == ['call@bb%d' % tk[0].bb, 'discr']]
                ok = len(isome) == 1 or len(sw) >= 1
                why = 'the result of take is not tested for Some'
            R4.check(ok, cfg, fe, 'remove=take(id,TypeId::of::<T>()).is_some()', 'remove must be take(id, type_id).is_some(): %s' % why, b.loc())
        b = F.body(m + '::clear')
        if not b:
            R4.missing(cfg, m + '::clear')
            continue
        names = [c.callee.name for c in b.calls() if c.callee]
        clr = [c for c in b.calls() if map_call_kind(c) == 'DESTROY']
        allowed = {'into_iter', 'next', 'get_mut', 'deref_mut', 'clear', 'iter_mut'}
        ok = len(clr) == 1 and clr[0].callee.name == 'clear' and set(names) <= allowed
        if m == 'cache::AssetMap':
            # the loop iterates the whole shard slice: next() is applied to an iterator made directly from self.shards
            adaptors = [c.callee.name for c in b.calls() if c.callee and c.callee.trait == 'std::iter::Iterator' and c.callee.name != 'next']
            nx = [c for c in b.calls() if c.callee and c.callee.name == 'next']
            ok = ok and len(nx) == 1 and not adaptors
            if ok:
                pt = common.make_pt(r'IntoIterator.*::into_iter$', r'::iter_mut$', r'::iter$')
                ok = b.origins(nx[0].args[0], passthrough=pt) == {('arg', 1)}
                srcs = [c for c in b.calls() if c.callee and c.callee.name in ('into_iter', 'iter_mut') and (b.access_path(c.args[0]) or [])[:3] == ['arg1', '*', 'shards']]
                ok = ok and len(srcs) >= 1
                # every iteration clears: from the Some edge of next(), the loop header is reached only through clear()
                hdr = nx[0].bb
                sw = [bb for bb, t in b.terms() if t['k'] == 'switch' and b.access_path(t['discr']) == ['call@bb%d' % hdr, 'discr']]
                some = [d for bbx in sw for d, lab in b.edges(bbx) if lab == 'sw:1']
                ok = ok and len(some) == 1 and hdr not in b.reachable(some, removed_blocks=[clr[0].bb])
        R4.check(ok, cfg, b.path, 'clears-every-map', 'clear must clear the whole map (every shard, no iterator adaptor); calls: %s' % names, b.loc())


def r5(R5, cfg, F):
    def body_of(m, meth):
        # (`contains_key` may be `self.get(id, type_id).is_some()`: the sibling is written in place; C01.R8 decides that
        # the answer is "the look-up found an entry")
        p = '<%s as anycache::AssetMap>::%s' % (m, meth)
        return F.view(p, ['<%s as anycache::AssetMap>::get' % m]) if meth == 'contains_key' else F.body(p)
    for meth in ('get', 'insert', 'contains_key'):
        ops = {}
        for m in ('cache::AssetMap', 'local_cache::AssetMap'):
            b = body_of(m, meth)
            if not b:
                R5.missing(cfg, '%s::%s' % (m, meth))
                continue
            ops[m] = [(c.callee.name, map_call_kind(c)) for c in b.calls() if map_call_kind(c) in ('READ', 'ENTRY', 'KEEP_FIRST', 'DESTROY', 'CONSUME')
                      and c.callee.defp not in common.DEREFS]
        want = {'get': [('get', 'READ')], 'insert': [('entry', 'ENTRY'), ('or_insert', 'KEEP_FIRST')], 'contains_key': [('contains_key', 'READ')]}[meth]
        if len(ops) == 2:
            vals = list(ops.values())
            if meth == 'insert':   # or_insert / or_insert_with / match on the entry are the same keep-first operation
                same = all([k for _, k in v if k != 'READ'] == [k for _, k in want] for v in vals)
            else:
                same = vals[0] == vals[1] and (vals[0] == want or (meth == 'contains_key' and vals[0] == [('get', 'READ')]))
            R5.check(same, cfg, 'anycache::AssetMap::' + meth, 'both-impls-use-' + '+'.join(n for n, _ in want),
                     'the two AssetMap impls must implement `%s` with the same map operation %s; found %s' % (meth, want, ops))
            # key arguments
            for m in ops:
                b = body_of(m, meth)
                if meth in ('get', 'contains_key'):
                    kc = [c for c in b.calls() if c.callee and c.callee.best.endswith("BorrowedKey::<'a>::new_with")]
                    ok = len(kc) == 1 and b.access_path(kc[0].args[0]) == ['arg2'] and b.access_path(kc[0].args[1]) == ['arg3']
                    R5.check(ok, cfg, b.path, 'looks-up-(id,type_id)', 'lookup key must be built from the (id, type_id) parameters', b.loc())
                else:
                    kc = [c for c in b.calls() if c.callee and c.callee.best.endswith('OwnedKey::new_with')]
                    ok = len(kc) == 1
                    if ok:
                        a0 = b.call_roots(kc[0].args[0], passthrough=common.make_pt(r'Clone>::clone$'))
                        a1 = b.call_roots(kc[0].args[1])
                        ok = [r.callee.best for r in a0] == ['entry::CacheEntry::id'] and [r.callee.best for r in a1] == ['entry::CacheEntry::type_id']
                    R5.check(ok, cfg, b.path, 'key=(entry.id,entry.type_id)', 'insertion key must be the entry\'s own id and type id', b.loc())
