"""C15 -- the reloader is quiet when idle and goes away with its cache.
Structural causes of "spins forever" / "never exits" (DESIGN.md section 4)."""
import re

import common

from mir import agg_stmts

LEVEL = 'other'
EXPLANATION = (
    'Loop-structure rules on the MIR of hot_reloading_thread in every hot-reloading configuration: (R1) once the '
    'blocking Select::ready call and the message-consuming Ok edges of try_recv are removed, the thread function '
    'has no cycle left, i.e. every iteration either blocks or consumed a message; (R2) for each Receiver::try_recv '
    'the Err outcome is inspected and, with the Empty edge removed, the blocking call is no longer reachable, i.e. '
    'Disconnected leaves the loop (a disconnected channel makes Select::ready return immediately, so without this '
    'exit the thread spins); (R3) a failed send_multiple in the notify handler drops the watcher; (R4) exactly one '
    'thread is spawned per reloader and it owns its inputs by move. Necessary conditions only: CPU time, '
    'time-to-exit and OS watcher behaviour are not decided.')
TRUSTED = ['rustc MIR construction', 'crossbeam-channel: Select::ready blocks while all registered channels are empty and connected, and returns immediately for a disconnected one',
           'amfacts driver + rule engine in /verif/sa']

TH = 'hot_reloading::hot_reloading_thread'


BLOCKING = re.compile(r"^crossbeam_channel::Receiver::<T>::(recv|recv_timeout|recv_deadline|iter)$|crossbeam_channel::Receiver<.*> as std::iter::IntoIterator>::into_iter$"
                      r"|^<crossbeam_channel::(Iter|IntoIter)<.*> as std::iter::Iterator>::next$|^crossbeam_channel::Select::<'a>::(select|ready|select_timeout|ready_timeout|select_deadline|ready_deadline)$"
                      r"|^std::thread::(sleep|park|park_timeout)$|^std::sync::mpsc::Receiver::<T>::(recv|iter)|Condvar::wait")


def _cmp_says(g, idx):
    """a comparison guard (path, op, constant, truth ..) that holds exactly when the value equals idx"""
    try:
        op, k, truth = g[1], str(g[2]), g[-1]
    except Exception:
        return False
    k = re.sub(r'_?[iu](8|16|32|64|128|size)$', '', k)
    if op in ('==', 'Eq', 'eq'):
        return k == str(idx) and truth is True
    if op in ('!=', 'Ne', 'ne'):
        return k == str(idx) and truth is False
    return False


def has_cycle(b, removed_blocks, removed_edges):
    live = b.reachable([0], removed_edges=removed_edges, removed_blocks=removed_blocks)
    color = {}

    def dfs(u):
        stack = [(u, iter(b.succ(u)))]
        color[u] = 1
        while stack:
            node, it = stack[-1]
            adv = False
            for v in it:
                if v in removed_blocks or (node, v) in removed_edges or v not in live:
                    continue
                if color.get(v) == 1:
                    return (node, v)
                if v not in color:
                    color[v] = 1
                    stack.append((v, iter(b.succ(v))))
                    adv = True
                    break
            if not adv:
                color[node] = 2
                stack.pop()
        return None
    for s in sorted(live):
        if s not in color:
            r = dfs(s)
            if r:
                return r
    return None


def _bool_call_of(b, sw):
    """the call whose bool result the switch at `sw` tests (through copies and `!`), if it is one"""
    t = b.blocks[sw]['term']
    if t['discr']['k'] not in ('copy', 'move') or t['discr']['place']['p']:
        return []
    l, at, truth = t['discr']['place']['l'], sw, True
    for _ in range(8):
        ds = [d for d in b.defs_of(l) if d[0] in ('stmt', 'call')]
        if len(ds) > 1:
            ds = [d for d in ds if d[1] == at] or ds
        if len(ds) != 1:
            return []
        d = ds[0]
        if d[0] == 'call':
            return [(d[2], truth)]
        rv = d[3]['rv']
        if rv['k'] == 'use' and rv['op']['k'] in ('copy', 'move') and not rv['op']['place']['p']:
            l, at = rv['op']['place']['l'], d[1]
        elif rv['k'] == 'unop' and rv['a']['k'] in ('copy', 'move') and not rv['a']['place']['p']:
            l, at, truth = rv['a']['place']['l'], d[1], not truth
        else:
            return []
    return []


def r5(R5, cfg, F):
    """The notify handler learns that the reloader (hence the cache) is gone only from a failed send (R3).  Its batches
    come from a lazy iterator chain (no upper size bound), so EventSender::send_multiple must attempt the send for
    them whatever they contain: the only returns that skip the send are the ones decided by the iterator's size_hint
    (an iterator that promises at most 0 / 1 items), never by what was collected."""
    b = F.one(r'^hot_reloading::EventSender::send_multiple$')
    if not b:
        R5.missing(cfg, 'EventSender::send_multiple')
        return
    snd = [c for c in b.calls() if c.callee and c.callee.best == 'crossbeam_channel::Sender::<T>::send']
    sh = [c for c in b.calls() if c.callee and c.callee.name == 'size_hint']
    ok = len(snd) == 1 and len(sh) == 1
    why = 'shape: one size_hint and one Sender::send expected'
    if ok:
        # every decision that lets a path avoid the send is a test of size_hint().1 or of the iterator's own next()
        nx = [c for c in b.calls() if c.callee and c.callee.name == 'next' and c.callee.trait == 'std::iter::Iterator']
        allowed = {'call@bb%d' % sh[0].bb} | {'call@bb%d' % c.bb for c in nx}
        bad = []
        live = b.live_blocks(unwind=False)
        can_send = {bb for bb in live if snd[0].bb in b.reachable([bb])}
        for bb, t in b.terms():
            if t['k'] != 'switch' or bb not in can_send or b.blocks[bb]['cleanup']:
                continue
            rets = set(b.return_blocks())
            if not [d for d, _ in b.edges(bb) if d not in can_send and (b.reachable([d]) & rets)]:
                continue        # (an edge that ends in `unreachable` -- the impossible arm of an exhaustive match -- or diverges decides nothing)
            # a decision that can take the send away
            root = None
            for c, truth in _bool_call_of(b, bb):
                root = 'call@bb%d' % c.bb
                what = c.callee.best if c.callee else '?'
            if root is None:
                tst = common.switch_test(b, bb)
                dp = common.deep_path(b, tst[1], at=bb) if tst else None
                root = dp[0] if dp else '?'
                what = dp
            if root not in allowed:
                bad.append(what)
        ok = not bad
        why = 'the send is skipped depending on %s: a batch that turns out to be empty would never reach the channel, and a watcher whose cache is gone would never find out' % bad
    R5.check(ok, cfg, b.path, 'send-skipped-only-by-size_hint', 'send_multiple: %s' % why, b.loc())


def run(ctx):
    rep = ctx.report
    R1 = rep.rule('C15.R1', 'every cycle of the reloader thread blocks in Select::ready or consumed a message', floor=1)
    R2 = rep.rule('C15.R2', 'Disconnected on either receiver leaves the loop', floor=2)
    R3 = rep.rule('C15.R3', 'a failed send_multiple makes the notify handler drop its watcher', floor=1)
    R4 = rep.rule('C15.R4', 'one thread per reloader, owning both receivers and the source by move', floor=3)
    R5 = rep.rule('C15.R5', 'the file watcher notices that its cache is gone: every batch it reports is handed to the channel, even an empty one', floor=1)
    for cfg, F in ctx.hr_cfgs():
        r5(R5, cfg, F)
        R5.finish_cfg(cfg)
        b = F.body(TH)
        if not b:
            R1.missing(cfg, TH)
            continue
        ready = [c for c in b.calls() if c.callee and re.search(r"crossbeam_channel::Select::<'a>::(ready|select)$", c.callee.best)]
        recvs = [c for c in b.calls() if c.callee and re.search(r'crossbeam_channel::Receiver::<T>::(try_recv|recv)$', c.callee.best)]
        if len(ready) != 1 or not recvs:
            R1.unrecognised(cfg, TH, 'one blocking Select::ready and the try_recv calls', b.loc())
            continue
        ok_edges = set()
        for r in recvs:
            for sw in [b.primary_switch(r.dest['l'])]:
                if sw is None:
                    continue
                t = b.variant_edge(sw, 0)
                if t is not None and any(lab == 'sw:0' for _, lab in b.edges(sw)):
                    ok_edges.add((sw, t))
        cyc = has_cycle(b, {ready[0].bb}, ok_edges)
        R1.check(cyc is None, cfg, TH, 'no-cycle-without-blocking-or-consuming',
                 'the thread has a cycle (through bb%s->bb%s) that neither blocks in Select::ready nor consumes a message: busy loop' % (cyc or ('', '')), ready[0].loc())
        # both receivers registered with the selector
        regs = [c for c in b.calls() if c.callee and re.search(r"Select::<'a>::recv$", c.callee.best)]
        # (the receivers are parameters, or fields of one parameter that groups what the thread owns)
        def rx_of(op):
            return '.'.join(x for x in common.strip_refs(common.deep_path(b, op) or ['?']))
        regd = sorted(rx_of(c.args[1]) for c in regs)
        rcv = sorted({rx_of(r.args[0]) for r in recvs})
        R1.check(regd == rcv and len(rcv) == 2, cfg, TH, 'select-registers-both-receivers', 'Select must wait on exactly the receivers that are polled (registered %s, polled %s)' % (regd, rcv), b.loc())
        # the events channel is polled exactly when Select::ready named its operation (operations are numbered in the order
        # they were registered); polling it on any other condition leaves a ready channel unread -> ready() returns at once, for ever
        ev = [r for r in recvs if 'Events' in ' '.join(r.callee.args or []) + (r.args[0]['place']['ty'] if r.args and r.args[0]['k'] in ('copy', 'move') else '')]
        order = [rx_of(c.args[1]) for c in sorted(regs, key=lambda c: (0 if b.dominates(c.bb, regs[0].bb) else 1, c.bb))]
        if len(ev) == 1 and len(regs) == 2:
            first = regs[0] if b.dominates(regs[0].bb, regs[1].bb) else regs[1]
            idx = 0 if rx_of(first.args[1]) == rx_of(ev[0].args[0]) else 1
            cg = [x for x in common.comparison_guards(b, ev[0].bb) if (x[0] or [None])[0] == 'call@bb%d' % ready[0].bb]
            okr = all(x[1] == 'Eq' and str(x[2]) == str(idx) for x in cg)
            R1.check(okr, cfg, TH, 'events-polled-when-their-operation-is-ready', 'events.try_recv() must run when Select::ready returned the index of the events operation (%d); it is guarded by %s' % (idx, cg), ev[0].loc())
        # R2
        for r in recvs:
            ap = b.access_path(r.args[0]) or ['?']
            nm = b.local_name(int(ap[0][3:])) if ap[0].startswith('arg') else ap[0]
            psw = b.primary_switch(r.dest['l'])
            sws = [psw] if psw is not None else []
            ok = False
            why = 'the result of try_recv is not matched'
            if len(sws) == 1:
                err_t = b.variant_edge(sws[0], 1)
                # Empty edges: switches on the discriminant of the Err payload, variant 0
                empty_edges = set()
                for bb, t in b.terms():
                    if t['k'] != 'switch' or b.blocks[bb]['cleanup']:
                        continue
                    for d in b.defs_of(t['discr']['place']['l']) if t['discr']['k'] in ('copy', 'move') else []:
                        if d[0] == 'stmt' and d[3]['rv']['k'] == 'discr':
                            pl = d[3]['rv']['place']
                            if pl['l'] == r.dest['l'] and any(isinstance(e, dict) and e.get('n') == 'Err' for e in pl['p']):
                                e0 = [x for x, lab in b.edges(bb) if lab == 'sw:0']
                                if e0:
                                    empty_edges.add((bb, e0[0]))
                reach = b.reachable([err_t], removed_edges=empty_edges) if err_t is not None else set()
                ok = ready[0].bb not in reach and bool(reach & set(b.return_blocks()))
                why = ('Err(Disconnected) is treated like Err(Empty): from the Err edge the blocking call is reached again without '
                       'distinguishing the two, so after the sender is dropped Select::ready returns immediately forever' if ready[0].bb in reach
                       else 'Disconnected does not reach the end of the thread function')
            R2.check(ok, cfg, TH, 'disconnected-not-handled:' + str(nm), 'receiver `%s`: %s' % (nm, why), r.loc(), receiver=nm)
        # ... and once the loop is left the thread ends: nothing between the loop and the return waits again (a blocking
        # iterator over a channel whose senders outlive the cache never ends)
        live = b.live_blocks(unwind=False)
        after = [bb for bb in sorted(live) if ready[0].bb not in b.reachable([bb])]
        waits = [c for c in b.calls() if c.bb in after and c.callee and BLOCKING.search(c.callee.best)]
        for cb_ in F.closures_of.get(b.path, []):
            sites = common.closure_sites(b, cb_.path)
            if sites and all(x[0] in after for x in sites):
                waits += [c for c in cb_.calls() if c.callee and BLOCKING.search(c.callee.best)]
        R2.check(not waits, cfg, TH, 'ends-without-waiting', 'after leaving its loop the thread waits again (%s): it does not exit while a sender is alive, its receivers are never dropped, and the sources / watcher never learn that the cache is gone'
                 % sorted({c.callee.best for c in waits}), waits[0].loc() if waits else b.loc())
        # every message leaves a channel through one of the try_recv calls judged above: a second way of emptying a receiver
        # (try_iter, iter, recv ..) cannot tell `empty` from `disconnected`, so the thread would neither stop nor sleep
        unit = [b] + [x for x in F.closures_of.get(b.path, [])]
        other_rx = [c for x in unit for c in x.calls() if c.callee and re.search(r'^crossbeam_channel::Receiver::<T>::(try_iter|iter|recv|recv_timeout|recv_deadline|len|is_empty)$|crossbeam_channel::Receiver<.*> as std::iter::IntoIterator>::into_iter$', c.callee.best)]
        R2.check(not other_rx, cfg, TH, 'receives-only-through-the-matched-try_recv', 'the thread also takes messages with %s: that path cannot notice a disconnected channel (Select::ready then returns at once, for ever)'
                 % sorted({c.callee.best for c in other_rx}), other_rx[0].loc() if other_rx else b.loc())
        # R3
        hb = F.one(r'^<hot_reloading::watcher::NotifyEventHandler as notify::EventHandler>::handle_event$')
        if not hb:
            R3.missing(cfg, 'NotifyEventHandler::handle_event')
        else:
            sm = [c for c in hb.calls() if c.callee and c.callee.name == 'send_multiple']
            tk = [c for c in hb.calls() if c.callee and c.callee.best == 'std::option::Option::<T>::take' and 'watcher' in (common.deep_path(hb, c.args[0]) or [])]
            ok = len(sm) == 1 and len(tk) == 1
            if ok:
                # (normal form) take() runs exactly when send_multiple returned Err, on every such path, and what it returns is dropped
                g = [x for x in common.guards_of(hb, tk[0].bb) if x[3][0] == 'discr' and common.deep_path(hb, x[3][1]) == ['call@bb%d' % sm[0].bb]]
                ok = len(g) >= 1 and all(common.guard_variant(hb, x) == 1 for x in g)
                if ok:
                    errt = g[0][1]
                    after = hb.reachable([errt], removed_blocks=[tk[0].bb])
                    ok = not (after & set(hb.return_blocks())) and sm[0].bb not in after
                    w = tk[0].dest['l']
                    dropped = any(d.term['place']['l'] in hb.flows_to(w) for d in hb.drops()) or \
                        any(u[0] == 'call' and u[2].callee and u[2].callee.best == 'std::mem::drop' for l in hb.flows_to(w) for u in hb.uses_of(l))
                    ok = ok and dropped
            R3.check(ok, cfg, hb.path, 'send-failure-drops-watcher', 'when send_multiple fails (the reloader is gone) the handler must drop(self.watcher.take()) so that notify stops', hb.loc())
        # R4
        sp = F.calls_to(r'^std::thread::(Builder::spawn|spawn|Builder::spawn_scoped|Builder::spawn_unchecked)$')
        fns = sorted({c.body.path for c in sp})
        R4.check(fns == ['hot_reloading::HotReloader::start'] and len(sp) == 1, cfg, 'std::thread::spawn', 'spawned-only-in-HotReloader::start-once', 'threads are spawned in %s (%d sites)' % (fns, len(sp)))
        cs = F.callers_of(r'^hot_reloading::HotReloader::start$')
        R4.check(cs == ['hot_reloading::HotReloader::make'], cfg, 'hot_reloading::HotReloader::start', 'callers={make}', 'callers: %s' % cs)
        if len(sp) == 1:
            sb = sp[0].body
            cl = [x for x in agg_stmts(sb, sp[0].args[1]) if x['rv'].get('closure')]
            ok = len(cl) == 1 and 'closure' in cl[0]['rv'] and all(o['k'] == 'move' and not o['place']['p'] for o in cl[0]['rv']['ops'])
            tys = sorted(o['place']['ty'] for o in cl[0]['rv']['ops']) if ok else []
            # a private struct that groups the thread's inputs counts for what it contains
            for t_ in list(tys):
                a_ = F.adt(re.sub(r'<.*$', '', t_))
                if a_ and a_['kind'] == 'struct' and a_['variants']:
                    tys.remove(t_)
                    tys += [f_['ty'] for f_ in a_['variants'][0]['fields']]
            tys = sorted(tys)
            ok = ok and sum(1 for t in tys if t.startswith('crossbeam_channel::Receiver<')) == 2 and any('dyn source::Source' in t for t in tys)
            ok = ok and not any('Sender<hot_reloading::CacheMessage>' in t_ for t_ in tys)
            R4.check(ok, cfg, sb.path, 'thread-owns-receivers-and-source', 'the thread closure must own both receivers and the boxed source by move; captures %s' % tys, sp[0].loc())
        # the cache is the only holder of the message sender: a clone kept elsewhere (e.g. by the thread itself)
        # would keep the channel connected after the cache is gone
        clones = [c for c in F.calls_to(r'Clone>::clone$') if c.callee and 'Sender<hot_reloading::CacheMessage>' in (c.callee.self_ty or '') + ' '.join(c.callee.args or [])]
        R4.check(not clones, cfg, 'hot_reloading::HotReloader.sender', 'message-sender-never-cloned', 'Sender<CacheMessage> is cloned in %s' % sorted({c.body.path for c in clones}))
        for r in (R1, R2, R3, R4):
            r.finish_cfg(cfg)
