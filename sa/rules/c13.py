"""C13 -- every stored value is dropped exactly once; type erasure never lies.
Rust ownership gives exactly-once drop everywhere except at the sites that
step outside it: enumerate those, give each a pairing / dominance obligation."""
import re
import common

from c07 import r3 as _unused  # noqa: F401  (C07 decides the guard side)
from common import pt_deref
from mir import op_local

LEVEL = 'other'
EXPLANATION = (
    'Every pointer cast whose source or target pointee is EntryStorage / Handle / UntypedHandle is enumerated from '
    'the MIR (Cast rvalues and ptr::cast calls) and must be (a) an identity cast to/from a #[repr(transparent)] '
    'wrapper of exactly that storage type, (b) an unsizing to dyn Any+Send+Sync, (c) a Box/NonNull pointer '
    'projection, or (d) a downcast dominated by the true edge of is::<T>() for the same T, where is() compares the '
    'type_id field written only by the constructors with TypeId::of of the stored type. The byte swap of a reload is '
    'reached only behind a real assert! on equal type ids and swaps size_of_val bytes. Ownership-escaping '
    'primitives (forget, ManuallyDrop, ptr::read/write/copy/swap, Box::into_raw/from_raw/leak, Vec::from_raw_parts, '
    'alloc/dealloc, mem::replace on unions) form a closed table: outside utils::bytes / utils::cell (decided by C16 / C17) '
    'only the paired into_raw->from_raw of downcast and the swap of swap_any may exist.')
TRUSTED = ['rustc MIR construction', 'TypeId uniqueness', 'repr(transparent) layout guarantee',
           'amfacts driver + rule engine in /verif/sa']

STORAGE = ('entry::EntryStorage', 'entry::Handle', 'entry::UntypedHandle')
DYN_ANY = 'dyn std::any::Any + std::marker::Send + std::marker::Sync'


def norm_ty(t):
    t = t.replace("(dyn std::any::Any + std::marker::Send + std::marker::Sync + 'static)", DYN_ANY)
    t = t.replace('(' + DYN_ANY + ')', DYN_ANY)
    return t


def pointee(t):
    t = norm_ty(t.strip())
    m = re.match(r"^(\*const |\*mut |&('\w+ )?(mut )?)(.*)$", t)
    if m:
        return m.group(4)
    m = re.match(r'^(std::boxed::Box|std::ptr::NonNull|std::ptr::Unique)<(.*)>$', t)
    if m:
        return m.group(2)
    return None


def about_storage(t):
    return any(s in t for s in STORAGE)


ESCAPE = re.compile(
    r'(^std::mem::forget$|^std::mem::ManuallyDrop::<T>::(new|take|drop|into_inner)$'
    r'|^std::ptr::(read|write|copy|copy_nonoverlapping|swap|swap_nonoverlapping|drop_in_place|replace|read_unaligned|write_unaligned|read_volatile|write_volatile)$'
    r'|^std::ptr::(mut_ptr|const_ptr)::<impl \*(mut|const) T>::(write|read|copy_to|copy_from|drop_in_place|swap|replace|write_bytes|copy_to_nonoverlapping|copy_from_nonoverlapping|write_unaligned|read_unaligned)$'
    r'|^std::boxed::Box::<T.*>::(into_raw|from_raw|leak|into_raw_with_allocator|from_raw_in|into_non_null|from_non_null)$'
    r'|^std::vec::Vec::<T.*>::(from_raw_parts|into_raw_parts|set_len|leak|from_raw_parts_in)$'
    r'|^std::alloc::(alloc|dealloc|realloc|alloc_zeroed)$'
    r'|MaybeUninit::<T>::(assume_init|assume_init_read|assume_init_drop|zeroed|uninit)$'
    r'|^std::mem::(zeroed|uninitialized|transmute_copy)$'
    r'|^std::sync::Arc::<T.*>::(from_raw|into_raw|increment_strong_count|decrement_strong_count)$'
    r'|^std::rc::Rc::<T.*>::(from_raw|into_raw)$)')
MEMSWAP = re.compile(r'^std::mem::(replace|swap|take)$')
DELEGATED = {'utils::bytes': 'C16', 'utils::cell': 'C17'}


def module_of(path):
    p = re.sub(r'^<', '', path)
    for m in DELEGATED:
        if m + '::' in p:
            return m
    return None


def run(ctx):
    rep = ctx.report
    R1 = rep.rule('C13.R1', 'every entry pointer cast is a transparent identity, an unsizing, a Box projection, or a downcast dominated by is::<T>()', floor=6)
    R2 = rep.rule('C13.R2', 'byte swap only between equal types: real assert on type ids dominates it; length = size_of_val', floor=2)
    R3 = rep.rule('C13.R3', 'ownership-escaping primitives are a closed table with pairing obligations', floor=2)
    S4 = rep.rule('C07.R1', 'every access to the stored value is lock-disciplined (shared with C07)', floor=5)
    S5 = rep.rule('C07.R3', 'a reload replaces the value inside the write-guard region (shared with C07)', floor=5)
    S6 = rep.rule('C07.R4', 'one writer (shared with C07)', floor=1)
    S7 = rep.rule('C10.R2', 'only entries that have a lock are written (shared with C10)', floor=1)
    S1 = rep.rule('C01.R1', 'no stored value is dropped (replaced / removed) while only a shared borrow of the cache is held (shared with C01)', floor=8)
    S3 = rep.rule('C01.R3', 'destroying map operations need &mut self (shared with C01)', floor=4)
    S8 = rep.rule('C07.R6', 'a reference mapped out of a read guard cannot outlive the guard (and so cannot reach a value a reload drops): the closures of AssetReadGuard::map / try_map are higher-ranked (shared with C07)', floor=2)
    S9 = rep.rule('C08.R4', 'the map lent to the reloader thread as a raw pointer stays alive while it is used: hot_reload blocks, without a time limit, until its own request was answered (shared with C08)', floor=4)
    S10 = rep.rule('C08.R2', 'every raw Condvar wait sits in the predicate loop of Condvar::wait_while: no timed wait lets hot_reload return early (shared with C08, wait clauses)', floor=2)
    from c01 import r1 as no_destroy_under_shared_borrow
    from c07 import r6 as mapped_ref_stays_in_guard
    for cfg, F in ctx.cfgs():
        hr = 'hot-reloading' in ctx.cfg_features[cfg]
        no_destroy_under_shared_borrow(S1, S3, cfg, F)
        S1.finish_cfg(cfg)
        S3.finish_cfg(cfg)
        r1(R1, cfg, F)
        R1.finish_cfg(cfg)
        if hr:
            r2(R2, cfg, F)
            R2.finish_cfg(cfg)
            # "replaced by a reload ... never while a read guard can still reach it": the replacement happens under the entry's
            # write lock, and only entries that have a lock are ever written
            from c07 import r1 as value_access_discipline, r3 as writer_region
            from c10 import r2 as write_needs_dynamic
            value_access_discipline(S4, cfg, F, True)
            writer_region(S5, S6, cfg, F)
            write_needs_dynamic(S7, cfg, F)
            from c08 import r4 as waits_for_own_answer, r2 as condvar_protocol
            waits_for_own_answer(S9, cfg, F)
            condvar_protocol(S10, cfg, F, only_waits=True)
            for r in (S4, S5, S6, S7, S9, S10):
                r.finish_cfg(cfg)
        r3(R3, cfg, F, hr)
        R3.finish_cfg(cfg)
        mapped_ref_stays_in_guard(S8, cfg, F)
        S8.finish_cfg(cfg)


def transparent_over(F, wrapper, inner_rx):
    a = F.adt(wrapper)
    if not a or not a['transparent'] or a['kind'] != 'struct':
        return False
    fs = a['variants'][0]['fields']
    return len(fs) == 1 and bool(re.match(inner_rx, norm_ty(fs[0]['ty'])))


def is_check_edge(b, target_param):
    """(switch_bb, true_target) of `if self.is::<T>()` for T == target_param"""
    for c in b.calls():
        if c.callee and re.search(r'^entry::EntryStorage::<.*>::is$', c.callee.best) and c.callee.args[-1:] == [target_param]:
            ap = b.access_path(c.args[0])
            if not ap or ap[0] != 'arg1':
                continue
            for bb, t in b.terms():
                if t['k'] == 'switch' and b.access_path(t['discr']) == ['call@bb%d' % c.bb]:
                    true = [d for d, lab in b.edges(bb) if lab != 'sw:0']
                    if len(true) == 1:
                        return bb, true[0], c
    return None


def r1(R1, cfg, F):
    ok_h = transparent_over(F, 'entry::Handle', r'^entry::EntryStorage<T>$')
    ok_u = transparent_over(F, 'entry::UntypedHandle', r'^entry::EntryStorage<%s>$' % re.escape(DYN_ANY))
    R1.check(ok_h, cfg, 'entry::Handle', 'repr(transparent)-over-EntryStorage<T>', 'Handle<T> must be #[repr(transparent)] over exactly EntryStorage<T>')
    R1.check(ok_u, cfg, 'entry::UntypedHandle', 'repr(transparent)-over-EntryStorage<dyn Any>', 'UntypedHandle must be #[repr(transparent)] over exactly EntryStorage<dyn Any+Send+Sync>')
    n = 0
    for b in F.fn_bodies():
        sites = []
        for bb, j, s in b.assigns():
            rv = s['rv']
            if rv['k'] == 'cast' and (rv['kind'] in ('PtrToPtr', 'Transmute') or rv['kind'].startswith('PointerCoercion(Unsize')):
                sites.append((bb, rv['kind'], norm_ty(rv['from']), norm_ty(rv['ty']), s['line']))
        for c in b.calls():
            if c.callee and re.search(r'std::ptr::(mut_ptr|const_ptr)::<impl \*(mut|const) T>::(cast|cast_mut|cast_const)$|^std::ptr::NonNull::<T>::cast$|^std::mem::transmute$', c.callee.best):
                a0 = c.args[0]
                frm = a0['place']['ty'] if a0['k'] in ('copy', 'move') else a0.get('ty', '')
                sites.append((c.bb, 'call:' + c.callee.name, norm_ty(frm), norm_ty(c.dest['ty']), c.line))
        for bb, kind, frm, to, line in sites:
            if not (about_storage(frm) or about_storage(to)):
                continue
            n += 1
            pf, pt = pointee(frm), pointee(to)
            loc = '%s:%s' % (b.file, line)
            what = '%s -> %s' % (frm, to)
            if pf is None or pt is None:
                R1.bad(cfg, b.path, 'cast:' + what, 'cast between non-pointer representations of an entry (%s, %s)' % (kind, what), loc)
                continue
            if pf == pt:
                R1.ok(cfg, b.path, 'identity:' + what, loc)                       # Box/NonNull projection, *const<->*mut, no-op unsize
            elif kind.startswith('PointerCoercion(Unsize') and re.match(r'^entry::EntryStorage<.+>$', pf) and pt == 'entry::EntryStorage<%s>' % DYN_ANY:
                R1.ok(cfg, b.path, 'unsize:' + what, loc)
            elif (pf, pt) in (('entry::EntryStorage<T>', 'entry::Handle<T>'), ('entry::Handle<T>', 'entry::EntryStorage<T>')):
                R1.check(ok_h, cfg, b.path, 'transparent:' + what, 'cast relies on Handle<T> being repr(transparent) over EntryStorage<T>', loc)
            elif {pf, pt} == {'entry::EntryStorage<%s>' % DYN_ANY, 'entry::UntypedHandle'}:
                R1.check(ok_u, cfg, b.path, 'transparent:' + what, 'cast relies on UntypedHandle being repr(transparent) over EntryStorage<dyn Any>', loc)
            elif pf == 'entry::EntryStorage<%s>' % DYN_ANY and re.match(r'^entry::EntryStorage<(\w+)>$', pt):
                param = re.match(r'^entry::EntryStorage<(\w+)>$', pt).group(1)
                chk = is_check_edge(b, param)
                ok = False
                if chk:
                    sw, true_t, isc = chk
                    ok = bb not in b.reachable([0], removed_edges=[(sw, true_t)])
                R1.check(ok, cfg, b.path, 'downcast-dominated-by-is::<%s>' % param,
                         'downcast of a type-erased entry to EntryStorage<%s> is not dominated by the true edge of self.is::<%s>()' % (param, param), loc)
            else:
                R1.bad(cfg, b.path, 'cast:' + what, 'unclassified pointer cast involving an entry type (%s)' % kind, loc)
    R1.note(cfg, casts=n)
    # is::<T>() compares the stored type_id with TypeId::of::<T>()
    ib = F.one(r'^entry::EntryStorage::<\(dyn .*\)>::is$')
    if not ib:
        R1.missing(cfg, 'EntryStorage<dyn>::is')
    else:
        eq = [c for c in ib.calls() if c.callee and c.callee.name == 'eq' and c.callee.trait == 'std::cmp::PartialEq' and c.callee.self_ty == 'std::any::TypeId']
        of = [c for c in ib.calls() if c.callee and c.callee.best == 'std::any::TypeId::of']
        ok = len(eq) == 1 and len(of) == 1 and of[0].callee.args == ['T'] and eq[0].dest['l'] == 0
        if ok:
            aps = sorted([ib.access_path(eq[0].args[0]), ib.access_path(eq[0].args[1])], key=str)
            ok = aps == sorted([['arg1', '*', 'type_id', '&'], ['call@bb%d' % of[0].bb, '&']], key=str)
        R1.check(ok, cfg, ib.path, 'is::<T>=(type_id==TypeId::of::<T>())', 'is::<T>() must compare the stored type id with TypeId::of::<T>()', ib.loc())
    # type_id is written only by constructors, with TypeId::of of the stored value's type
    for b in F.fn_bodies():
        for bb, j, s in b.assigns():
            rv = s['rv']
            if rv['k'] == 'aggregate' and rv.get('adt') == 'entry::EntryStorage':
                f = dict(zip(rv['fields'], rv['ops']))
                r = b.call_roots(f['type_id'])
                v = b.call_roots(f['value'])
                ok = len(r) == 1 and r[0].callee.best == 'std::any::TypeId::of' and len(v) == 1 and v[0].callee.best == 'std::cell::UnsafeCell::<T>::new' \
                    and r[0].callee.args == v[0].callee.args
                if not ok and len(r) == 1 and len(v) == 1 and r[0] is v[0] and r[0].dest and r[0].dest['ty'] == s['place']['ty']:
                    # `EntryStorage { dynamic: .., ..other }`: id and value are taken together from one storage of the same type
                    ok = common.strip_refs(common.deep_path(b, f['type_id'], at=bb) or []) == ['call@bb%d' % r[0].bb, 'type_id'] \
                        and common.strip_refs(common.deep_path(b, f['value'], at=bb) or []) == ['call@bb%d' % r[0].bb, 'value']
                R1.check(ok, cfg, b.path, 'constructor-records-TypeId-of-stored-type', 'an EntryStorage must record TypeId::of of the very type it stores', '%s:%s' % (b.file, s['line']))
            pl = s['place']
            if any(isinstance(e, dict) and e.get('n') == 'type_id' and e.get('of') == 'entry::EntryStorage' for e in pl['p'][-1:]):
                R1.bad(cfg, b.path, 'type_id-overwritten', 'the type id of an entry is assigned outside its constructors', '%s:%s' % (b.file, s['line']))
    # failing arms: None / diverge
    dr = F.one(r'^entry::EntryStorage::<\(dyn .*\)>::downcast_ref$')
    if dr:
        chk = is_check_edge(dr, 'T')
        ok = False
        if chk:
            sw, true_t, _ = chk
            false_t = [d for d, lab in dr.edges(sw) if lab == 'sw:0']
            if false_t:
                blocks = dr.reachable(false_t)
                vals = [s['rv'].get('variant_name') for bbx in blocks for s in dr.blocks[bbx]['stmts'] if s['k'] == 'assign' and s['place']['l'] == 0 and s['rv']['k'] == 'aggregate']
                ok = 'None' in vals
        R1.check(ok, cfg, dr.path, 'wrong-type-yields-None', 'downcast_ref must yield None for any other type', dr.loc())
    else:
        R1.missing(cfg, 'EntryStorage<dyn>::downcast_ref')
    for p, res_variant, bad_idx in (('entry::UntypedHandle::downcast_ref_ok', 'None', 0), ('entry::CacheEntry::into_inner', 'Err', 1)):
        b = F.body(p)
        if not b:
            R1.missing(cfg, p)
            continue
        dc = [c for c in b.calls() if c.callee and re.search(r'::(downcast_ref|downcast)$', c.callee.best)]
        ok = len(dc) == 1
        if ok:
            sws = b.discr_switches(dc[0].dest['l'])
            ok = len(sws) >= 1
            if ok:
                bad_t = None
                es = b.edges(sws[0])
                for d, lab in es:
                    if lab == 'sw:%d' % bad_idx:
                        bad_t = d
                if bad_t is None:
                    bad_t = [d for d, lab in es if lab == 'otherwise'][0]
                reach = b.reachable([bad_t])
                ok = not (reach & set(b.return_blocks())) and any(c.bb in reach and c.callee and c.callee.best == 'entry::wrong_handle_type' for c in b.calls())
        R1.check(ok, cfg, p, 'wrong-type-diverges', '`%s` must panic (wrong_handle_type) rather than return when the type does not match' % p, b.loc())


PTR_CAST = common.make_pt(r'^std::ptr::(mut_ptr|const_ptr)::<impl \*(mut|const) T>::(cast|cast_mut|cast_const)$')


def r2(R2, cfg, F):
    sb = F.body('entry::swap_any')
    if not sb:
        R2.missing(cfg, 'entry::swap_any')
        return
    sw = [c for c in sb.calls() if c.callee and c.callee.best == 'std::ptr::swap_nonoverlapping']
    sz = [c for c in sb.calls() if c.callee and c.callee.best == 'std::mem::size_of_val']
    ok = len(sw) == 1 and len(sz) == 1
    if ok:
        ok = sb.access_path(sw[0].args[2]) == ['call@bb%d' % sz[0].bb] and sb.origins(sz[0].args[0]) == {('arg', 1)} \
            and sb.origins(sw[0].args[0], passthrough=PTR_CAST) == {('arg', 1)} and sb.origins(sw[0].args[1], passthrough=PTR_CAST) == {('arg', 2)}
    R2.check(ok, cfg, sb.path, 'swaps-size_of_val(a)-bytes-of-a-and-b', 'swap_any must exchange exactly size_of_val(a) bytes between its two operands', sb.loc())
    callers = F.callers_of(r'^entry::swap_any$')
    if len(callers) != 1:
        R2.bad(cfg, 'entry::swap_any', 'single-caller', 'swap_any must have exactly one caller; callers: %s' % callers)
        return
    w = F.body(callers[0])
    call = [c for c in w.calls() if c.callee and c.callee.best == 'entry::swap_any'][0]
    found = assert_dominates(F, w, call.bb)
    if not found:
        # the assert may sit in the (single) caller of a helper
        ups = F.callers_of('^' + re.escape(w.path) + '$')
        if len(ups) == 1:
            u = F.body(ups[0])
            ucall = [c for c in u.calls() if c.callee and c.callee.best == w.path]
            found = len(ucall) == 1 and assert_dominates(F, u, ucall[0].bb)
    R2.check(found, cfg, w.path, 'assert!(type ids equal)-dominates-swap', 'the byte swap must be dominated by a real (non-debug) assertion that both entries have the same type id', call.loc())


def assert_dominates(F, b, site_bb):
    for c in b.calls():
        if not (c.callee and c.callee.name == 'eq' and c.callee.self_ty == 'std::any::TypeId'):
            continue
        aps = [b.access_path(a) or [] for a in c.args[:2]]
        if not all('type_id' in a for a in aps) or {a[0] for a in aps if a} != {a[0] for a in aps} or len({a[0] for a in aps}) != 2:
            continue
        for bb, t in b.terms():
            if t['k'] == 'switch' and 'folded' not in t and b.access_path(t['discr']) == ['call@bb%d' % c.bb]:
                true = [d for d, lab in b.edges(bb) if lab != 'sw:0']
                false = [d for d, lab in b.edges(bb) if lab == 'sw:0']
                if len(true) == 1 and false and site_bb not in b.reachable([0], removed_edges=[(bb, true[0])]) \
                        and not (b.reachable(false) & set(b.return_blocks())):
                    return True
    return False


def r3(R3, cfg, F, hr):
    nsites = 0
    for b in F.fn_bodies():
        mod = module_of(b.path)
        for c in b.calls():
            if not c.callee:
                continue
            nm = c.callee.best
            esc = bool(ESCAPE.search(nm))
            if not esc and MEMSWAP.search(nm):
                a0 = c.args[0]
                ty = a0['place']['ty'] if a0['k'] in ('copy', 'move') else ''
                adt = re.sub(r"^&('\w+ )?(mut )?", '', ty).split('<')[0]
                esc = 'ManuallyDrop' in ty or (F.adt(adt) or {}).get('kind') == 'union' or ty.startswith('*')
            if not esc:
                continue
            nsites += 1
            if mod:
                R3.ok(cfg, b.path, 'delegated-to-%s:%s' % (DELEGATED[mod], c.callee.name), c.loc())
                continue
            short = c.callee.name
            if re.search(r'Box::<T.*>::into_raw$', nm):
                # result flows only into a Box::from_raw of the same function; the argument is an owned parameter
                dst = b.flows_to(c.dest['l'])
                users = [u[2] for l in dst for u in b.uses_of(l) if u[0] == 'call']
                ok = len(users) == 1 and bool(re.search(r'Box::<T.*>::from_raw$', users[0].callee.best)) and b.origins(c.args[0]) == {('arg', 1)} and not b.local_ty(1).startswith('&')
                R3.check(ok, cfg, b.path, 'into_raw-paired-with-from_raw', 'Box::into_raw must hand its pointer to exactly one Box::from_raw in the same function (else the entry leaks or is freed twice)', c.loc())
            elif re.search(r'Box::<T.*>::from_raw$', nm):
                roots = b.call_roots(c.args[0])
                ok = len(roots) == 1 and bool(re.search(r'Box::<T.*>::into_raw$', roots[0].callee.best))
                R3.check(ok, cfg, b.path, 'from_raw-of-own-into_raw', 'Box::from_raw must rebuild the box released by Box::into_raw in the same function', c.loc())
            elif nm == 'std::ptr::swap_nonoverlapping' and b.path == 'entry::swap_any':
                R3.ok(cfg, b.path, 'swap_nonoverlapping-in-swap_any', c.loc())
            else:
                R3.bad(cfg, b.path, 'unclassified:' + short, 'ownership-escaping primitive `%s` at a site that is not in the confirmed table (it can leak, duplicate or double-drop a value)' % nm, c.loc())
    R3.note(cfg, sites=nsites)
    if hr:
        # the replaced value leaves inside the by-value entry, which is dropped on every exit, after the lock
        callers = F.callers_of(r'^entry::swap_any$')
        if len(callers) == 1:
            w = F.body(callers[0])
            call = [c for c in w.calls() if c.callee and c.callee.best == 'entry::swap_any'][0]
            r = w.call_roots(call.args[1], passthrough=pt_deref)
            ap = w.access_path(r[0].args[0]) if len(r) == 1 else None
            ok = bool(ap) and ap[0].startswith('arg') and w.local_ty(int(ap[0][3:])) == 'entry::CacheEntry'
            if ok:
                v = int(ap[0][3:])
                # implicit drops of the parameter, or an explicit drop(value) (possibly after moving it into another local)
                holders = set(w.flows_to(v)) | {v}
                drops = [d.bb for d in w.drops() if d.term['place']['l'] in holders and not d.term['place']['p']]
                drops += [c.bb for c in w.calls() if c.callee and c.callee.best == 'std::mem::drop' and c.args
                          and c.args[0]['k'] == 'move' and c.args[0]['place']['l'] in holders and not c.args[0]['place']['p']]
                exits = set(w.return_blocks()) | set(w.resume_blocks())
                # drop flags are followed: when the value was moved into an explicit drop(..), its flag is false on the
                # unwind paths that come after that call and the cleanup correctly skips it
                vflags = set()
                for bb, t in w.terms():
                    if t['k'] == 'switch' and op_local(t['discr']) in w.flag_locals() and \
                            any(w.blocks[d]['term']['k'] == 'drop' and w.blocks[d]['term']['place']['l'] in holders for d, _ in w.edges(bb, True)):
                        vflags.add(op_local(t['discr']))
                start_flags = {f: True for f in vflags}
                states = w.reachable_with_flags(call.target, start_flags, removed_blocks=drops, unwind=True)
                leak = [bb for bb, st in states if bb in exits and (not vflags or any(v is not False for f, v in st if f in vflags))]
                ok = bool(drops) and not leak
                wg = [c for c in w.calls() if c.callee and re.search(r'RwLock::<T>::write$', c.callee.best)]
                if ok and len(wg) == 1:
                    reg = w.region_of(wg[0])
                    normal = [d for d in drops if not w.blocks[d]['cleanup']]
                    ok = all((d, len(w.blocks[d]['stmts'])) not in reg for d in normal)
            R3.check(ok, cfg, w.path, 'old-value-dropped-on-every-exit-after-unlock',
                     'after the swap the old value lives in the by-value CacheEntry parameter, which must be dropped on every path (and, on the normal path, after the write guard)', call.loc())
        else:
            R3.missing(cfg, 'single writer')
