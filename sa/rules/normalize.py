"""Normal form of MIR bodies (JSON level), so that rules do not depend on which of
several equivalent spellings the source uses:

  * `expr?`                    == `match expr { Ok(v) => v, Err(e) => return Err(From::from(e)) }`
  * a helper returning a flag / Option / Result that the caller tests at once
                               == the helper's branches jumping to the caller's arms
  * a closure that is called where it is defined == its body written in place

Passes (each a semantics-preserving transformation of the control-flow graph):

  expand_try        models of <Result|Option as Try>::branch and FromResidual::from_residual
  thread_jumps      a switch on the discriminant (or value) of a local whose value is known on an
                    incoming chain of straight-line blocks is bypassed for that chain (block cloning)

They are applied when the facts are loaded (mir.Facts), after helper inlining (inline.py).
"""
import copy
import re


def _split_generics(ty):
    """'std::result::Result<A, B<C, D>>' -> ('std::result::Result', ['A', 'B<C, D>'])"""
    i = ty.find('<')
    if i < 0 or not ty.endswith('>'):
        return ty, []
    head, body = ty[:i], ty[i + 1:-1]
    out, depth, cur = [], 0, ''
    for ch in body:
        if ch in '<([':
            depth += 1
        elif ch in '>)]':
            depth -= 1
        if ch == ',' and depth == 0:
            out.append(cur.strip())
            cur = ''
        else:
            cur += ch
    if cur.strip():
        out.append(cur.strip())
    return head, out


def _new_local(raw, ty, adt=None):
    raw['locals'].append({'ty': ty, 'adt': adt})
    return len(raw['locals']) - 1


def _new_block(raw, stmts, term, cleanup=False, **kw):
    raw['blocks'].append(dict({'cleanup': cleanup, 'stmts': stmts, 'term': term}, **kw))
    return len(raw['blocks']) - 1


def _field(place, variant_idx, variant_name, of, ty):
    p = copy.deepcopy(place)
    p['p'] = p['p'] + [{'downcast': variant_idx, 'n': variant_name}, {'f': 0, 'n': '0', 'of': of, 'ty': ty}]
    p['ty'] = ty
    return p


def _agg(adt, idx, name, args, ops):
    return {'k': 'aggregate', 'adt': adt, 'variant': idx, 'variant_name': name, 'args': args, 'fields': [str(i) for i in range(len(ops))], 'ops': ops}


def _assign(place, rv, t):
    return {'k': 'assign', 'place': place, 'rv': rv, 'line': t.get('line'), 'exp': bool(t.get('exp')), 'syn': True}


def _loc(l, ty):
    return {'l': l, 'p': [], 'ty': ty}


RES, OPT, CF = 'std::result::Result', 'std::option::Option', 'std::ops::ControlFlow'


def expand_try(raw):
    n = 0
    for i in range(len(raw['blocks'])):
        b = raw['blocks'][i]
        t = b['term']
        if t['k'] != 'call' or t['func'].get('k') != 'const' or not t['func'].get('fn') or t.get('target') is None:
            continue
        fn = t['func']['fn']
        a0 = t['args'][0] if t['args'] else None
        if a0 is None or a0['k'] not in ('move', 'copy'):
            continue
        self_ty = fn.get('self_ty') or ''
        head, gen = _split_generics(self_ty)
        g = {'line': t.get('line'), 'file': t.get('file'), 'exp': t.get('exp'), 'syn': True}
        if fn['def'] == 'std::ops::Try::branch' and head in (RES, OPT):
            dest, tgt = t['dest'], t['target']
            d = _new_local(raw, 'isize')
            unreach = _new_block(raw, [], dict(g, k='unreachable'), b['cleanup'])
            cft = dest['ty']
            if head == RES and len(gen) == 2:
                T, E = gen
                rt = '%s<std::convert::Infallible, %s>' % (RES, E)
                cfa = [rt, T]
                ok = _new_block(raw, [_assign(dest, _agg(CF, 0, 'Continue', cfa, [{'k': 'move', 'place': _field(a0['place'], 0, 'Ok', RES, T)}]), t)],
                                dict(g, k='goto', target=tgt), b['cleanup'])
                tmp = _new_local(raw, rt, RES)
                err = _new_block(raw, [_assign(_loc(tmp, rt), _agg(RES, 1, 'Err', ['std::convert::Infallible', E],
                                                                  [{'k': 'move', 'place': _field(a0['place'], 1, 'Err', RES, E)}]), t),
                                       _assign(dest, _agg(CF, 1, 'Break', cfa, [{'k': 'move', 'place': _loc(tmp, rt)}]), t)],
                                dict(g, k='goto', target=tgt), b['cleanup'])
                targets = [['0', ok], ['1', err]]
            elif head == OPT and len(gen) == 1:
                T = gen[0]
                rt = '%s<std::convert::Infallible>' % OPT
                cfa = [rt, T]
                some = _new_block(raw, [_assign(dest, _agg(CF, 0, 'Continue', cfa, [{'k': 'move', 'place': _field(a0['place'], 1, 'Some', OPT, T)}]), t)],
                                  dict(g, k='goto', target=tgt), b['cleanup'])
                tmp = _new_local(raw, rt, OPT)
                none = _new_block(raw, [_assign(_loc(tmp, rt), _agg(OPT, 0, 'None', ['std::convert::Infallible'], []), t),
                                        _assign(dest, _agg(CF, 1, 'Break', cfa, [{'k': 'move', 'place': _loc(tmp, rt)}]), t)],
                                  dict(g, k='goto', target=tgt), b['cleanup'])
                targets = [['0', none], ['1', some]]
            else:
                continue
            b['stmts'].append(_assign(_loc(d, 'isize'), {'k': 'discr', 'place': copy.deepcopy(a0['place'])}, t))
            b['term'] = dict(g, k='switch', discr={'k': 'move', 'place': _loc(d, 'isize')}, discr_ty='isize', targets=targets, otherwise=unreach, try_branch=True)
            n += 1
        elif fn['def'] == 'std::ops::FromResidual::from_residual' and head in (RES, OPT):
            dest, tgt = t['dest'], t['target']
            if head == OPT and len(gen) == 1:
                b['stmts'].append(_assign(dest, _agg(OPT, 0, 'None', gen, []), t))
                b['term'] = dict(g, k='goto', target=tgt, from_residual=True)
                n += 1
                continue
            if len(gen) != 2:
                continue
            T, F = gen
            ah, ag = _split_generics(a0['place']['ty'])
            if ah != RES or len(ag) != 2:
                continue
            E = ag[1]
            src = {'k': 'move', 'place': _field(a0['place'], 1, 'Err', RES, E)}
            fin = _new_block(raw, [], dict(g, k='goto', target=tgt), b['cleanup'])
            if E == F:
                raw['blocks'][fin]['stmts'].append(_assign(dest, _agg(RES, 1, 'Err', [T, F], [src]), t))
                b['term'] = dict(g, k='goto', target=fin, from_residual=True)
            else:
                conv = _new_local(raw, F)
                raw['blocks'][fin]['stmts'].append(_assign(dest, _agg(RES, 1, 'Err', [T, F], [{'k': 'move', 'place': _loc(conv, F)}]), t))
                text = '<%s as std::convert::From<%s>>::from' % (F, E)
                b['term'] = dict(g, k='call', func={'k': 'const', 'ty': 'fn(%s) -> %s {%s}' % (E, F, text), 'text': text,
                                                   'fn': {'def': 'std::convert::From::from', 'args': [F, E], 'local': False, 'krate': 'core', 'trait': 'std::convert::From',
                                                          'self_ty': F, 'name': 'from', 'method': False, 'recv': None, 'sig_inputs': ['T'], 'sig_output': 'Self',
                                                          'resolved': None}},
                                 fn_ty=text, indirect=False, args=[src], dest=_loc(conv, F), target=fin, unwind=t.get('unwind'), from_residual=True)
            n += 1
    return n


# ---------------------------------------------------------------------------------------------------------------

def _succs(t):
    k = t['k']
    if k == 'goto':
        return [t['target']]
    if k == 'switch':
        if 'folded' in t:
            return [t['folded']]
        return [x for _, x in t['targets']] + [t['otherwise']]
    out = []
    if k in ('drop', 'assert', 'call'):
        if t.get('target') is not None:
            out.append(t['target'])
        if isinstance(t.get('unwind'), int):
            out.append(t['unwind'])
    return out


def _bare(op):
    if op and op.get('k') in ('copy', 'move') and not op['place']['p']:
        return op['place']['l']
    return None


def _switched(b):
    """what a switch block tests, if recognisable inside the block itself:
    ('variant', local, stmt_index) for `d = discriminant(local); switch d`,
    ('value', local, None, negated) for `switch local` / `t = Not(local); switch t`"""
    t = b['term']
    d = _bare(t['discr'])
    if d is None:
        return None
    defs = [(j, s) for j, s in enumerate(b['stmts']) if s['k'] == 'assign' and s['place']['l'] == d and not s['place']['p']]
    if not defs:
        return ('value', d, -1, False)
    j, s = defs[-1]
    rv = s['rv']
    if rv['k'] == 'discr' and not rv['place']['p']:
        return ('variant', rv['place']['l'], j, False)
    if rv['k'] == 'discr' and rv['place']['p'] == ['deref']:
        # `r = &x; d = discriminant(*r)` (what `x.is_ok()` / `matches!(&x, ..)` expand to)
        r = rv['place']['l']
        refs = [(k, s2) for k, s2 in enumerate(b['stmts'][:j]) if s2['k'] == 'assign' and s2['place']['l'] == r and not s2['place']['p']]
        if refs and refs[-1][1]['rv']['k'] == 'ref' and not refs[-1][1]['rv']['place']['p']:
            return ('variant', refs[-1][1]['rv']['place']['l'], refs[-1][0], False)
    if rv['k'] == 'unop' and str(rv.get('op', '')).lower().startswith('not') and _bare(rv.get('a')) is not None:
        return ('value', _bare(rv['a']), j, True)
    if rv['k'] == 'use' and _bare(rv['op']) is not None:
        return ('value', _bare(rv['op']), j, False)
    return None


def _writes(s, local):
    return s['k'] == 'assign' and s['place']['l'] == local


def _known_in(stmts, local, kind, upto=None):
    """scan statements backwards for the value of `local`: ('known', v) | ('alias', other_local) | ('unknown',) | None (not assigned here)"""
    rng = range(len(stmts) - 1 if upto is None else upto - 1, -1, -1)
    for j in rng:
        s = stmts[j]
        if s['k'] in ('live', 'dead') and s.get('l') == local and s['k'] == 'dead':
            return ('unknown',)
        if not _writes(s, local):
            # a reference to the local may be used to modify it: give up on any borrow of it
            if s['k'] == 'assign' and s['rv']['k'] in ('ref', 'rawptr') and s['rv']['place']['l'] == local and s['rv'].get('mut'):
                return ('unknown',)
            continue
        if s['place']['p']:
            return ('unknown',)
        rv = s['rv']
        if kind == 'variant' and rv['k'] == 'aggregate' and rv.get('variant') is not None and rv.get('adt'):
            return ('known', str(rv['variant']))
        if kind == 'value' and rv['k'] == 'use' and rv['op']['k'] == 'const' and 'bits' in rv['op']:
            return ('known', str(rv['op']['bits']))
        if rv['k'] == 'use' and _bare(rv['op']) is not None:
            return ('alias', _bare(rv['op']), j)
        return ('unknown',)
    return None


def _target_for(t, v, negated):
    if negated:
        v = '0' if v != '0' else '1'
    for val, bb in t['targets']:
        if str(val) == str(v):
            return bb
    return t['otherwise']


def _const_only_locals(raw):
    """locals whose every definition is a constant (drop flags and the like): never worth threading"""
    nonconst, const = set(), set()
    for b in raw['blocks']:
        for s in b['stmts']:
            if s['k'] == 'assign' and not s['place']['p']:
                # constants written by the combinator models (is_some() => true / false) are real results, not drop flags
                (const if s['rv']['k'] == 'use' and s['rv']['op']['k'] == 'const' and not s.get('syn') else nonconst).add(s['place']['l'])
        t = b['term']
        if t['k'] == 'call' and not t['dest']['p']:
            nonconst.add(t['dest']['l'])
    return const - nonconst


def thread_jumps(raw, max_rounds=60, max_chain=6):
    total = 0
    flags = _const_only_locals(raw)
    for _ in range(max_rounds):
        blocks = raw['blocks']
        preds = {}
        for i, b in enumerate(blocks):
            for s in _succs(b['term']):
                preds.setdefault(s, []).append(i)
        done = False
        for si, S in enumerate(blocks):
            if S['term']['k'] != 'switch' or 'folded' in S['term'] or si not in preds and si != 0:
                continue
            sw = _switched(S)
            if sw is None:
                continue
            kind, local, upto, neg = sw
            if kind == 'value' and local in flags:
                continue
            # value known inside S itself?
            k0 = _known_in(S['stmts'], local, kind, upto if upto >= 0 else None)
            while k0 and k0[0] == 'alias':
                k0 = _known_in(S['stmts'], k0[1], kind, k0[2]) or ('pending', k0[1])
            if k0 and k0[0] == 'known':
                S['term']['folded'] = _target_for(S['term'], k0[1], neg)
                total += 1
                done = True
                break
            if k0 and k0[0] == 'unknown':
                continue
            track0 = k0[1] if k0 and k0[0] == 'pending' else local
            # walk back along straight-line predecessors
            work = [([si], track0)]
            found = None
            seen = 0
            while work and not found and seen < 40:
                chain, track = work.pop()
                seen += 1
                head = chain[0]
                for p in preds.get(head, []):
                    P = blocks[p]
                    pt = P['term']
                    if p in chain or P['cleanup'] != S['cleanup']:
                        continue
                    if pt['k'] == 'goto' or (pt['k'] == 'drop' and pt['target'] == head) or (pt['k'] == 'switch' and pt.get('folded') == head):
                        if pt['k'] == 'drop' and pt['place']['l'] == track:
                            continue
                        k = _known_in(P['stmts'], track, kind)
                        tr = track
                        while k and k[0] == 'alias':
                            tr = k[1]
                            k = _known_in(P['stmts'], tr, kind, k[2])
                        if k and k[0] == 'known':
                            found = (p, chain, k[1])
                            break
                        if k and k[0] == 'unknown':
                            continue
                        if len(chain) < max_chain and p != 0:
                            work.append(([p] + chain, tr))
                    elif pt['k'] == 'switch' and 'folded' not in pt and head in _succs(pt):
                        # a block that decides something else (a drop flag ..) on its way here: if the value is known at its
                        # end, the edge(s) that lead here can be redirected; the walk does not go further back through it
                        k = _known_in(P['stmts'], track, kind)
                        tr = track
                        while k and k[0] == 'alias':
                            tr = k[1]
                            k = _known_in(P['stmts'], tr, kind, k[2])
                        if k and k[0] == 'known':
                            found = (p, chain, k[1])
                            break
                    elif pt['k'] == 'call' and pt.get('target') == head and not pt['dest']['p'] and pt['dest']['l'] == track:
                        continue
            if not found:
                continue
            p, chain, v = found
            tgt = _target_for(S['term'], v, neg)
            # clone chain[0..] ; the clone of S jumps straight to tgt
            first = None
            prev = None
            for bi in chain:
                nb = copy.deepcopy(blocks[bi])
                nb['threaded_from'] = bi
                idx = len(blocks)
                blocks.append(nb)
                if first is None:
                    first = idx
                if prev is not None:
                    pb = blocks[prev]['term']
                    if pb['k'] == 'switch':
                        pb['folded'] = idx
                    else:
                        pb['target'] = idx
                prev = idx
            st = blocks[prev]['term']
            blocks[prev]['term'] = {'k': 'goto', 'target': tgt, 'line': st.get('line'), 'file': st.get('file'), 'exp': st.get('exp'), 'threaded': v}
            pt = blocks[p]['term']
            if pt['k'] == 'switch' and 'folded' not in pt:
                pt['targets'] = [[v_, (first if d_ == chain[0] else d_)] for v_, d_ in pt['targets']]
                if pt['otherwise'] == chain[0]:
                    pt['otherwise'] = first
            elif pt['k'] == 'switch':
                pt['folded'] = first
            else:
                pt['target'] = first
            total += 1
            done = True
            break
        if not done:
            break
    return total




# ---------------------------------------------------------------------------------------------------------------
# scalar replacement of enum aggregates whose construction reaches a use of one of their fields:
#     C = Continue(move (R as Ok).0); ...; v = move (C as Continue).0      ==>      v = move (R as Ok).0

def _place_locals(p):
    out = {p['l']}
    for e in p['p']:
        if isinstance(e, dict) and 'index' in e:
            out.add(e['index'])
    return out


def _op_locals(o):
    return _place_locals(o['place']) if o and o.get('k') in ('copy', 'move') else set()


def _kill(state, local):
    for k in list(state):
        if k == local or local in state[k][2]:
            del state[k]


def _stmt_transfer(state, s):
    if s['k'] == 'dead':
        # the storage of a moved-from source ends right after the move: that does not change where the value came from
        state.pop(s['l'], None)
        return
    if s['k'] != 'assign':
        if s['k'] == 'setdiscr':
            _kill(state, s['place']['l'])
        return
    rv = s['rv']
    # moves out of / mutable borrows of a tracked local invalidate it
    if rv['k'] in ('ref', 'rawptr') and rv.get('mut'):
        _kill(state, rv['place']['l'])
    dst = s['place']
    alias = None
    if not dst['p'] and rv['k'] == 'use' and _bare(rv['op']) is not None and _bare(rv['op']) in state and _bare(rv['op']) != dst['l']:
        alias = state[_bare(rv['op'])]
    _kill(state, dst['l'])
    if alias is not None and dst['l'] not in alias[2]:
        state[dst['l']] = alias       # `b = move a` where a is a known enum aggregate
        return
    if not dst['p'] and rv['k'] == 'aggregate' and rv.get('variant') is not None and rv.get('adt') \
            and all(o.get('k') in ('copy', 'move', 'const') for o in rv['ops']):
        deps = set()
        for o in rv['ops']:
            deps |= _op_locals(o)
        if dst['l'] not in deps:
            state[dst['l']] = (rv.get('variant_name'), rv['ops'], deps)


def _rewrite_place(state, p):
    st = state.get(p['l'])
    if not st or len(p['p']) < 2:
        return None
    e0, e1 = p['p'][0], p['p'][1]
    if not (isinstance(e0, dict) and 'downcast' in e0 and e0.get('n') == st[0] and isinstance(e1, dict) and 'f' in e1):
        return None
    k = e1['f']
    if k >= len(st[1]) or st[1][k].get('k') not in ('copy', 'move'):
        return None
    q = st[1][k]['place']
    return {'l': q['l'], 'p': q['p'] + p['p'][2:], 'ty': p['ty']}


def _rewrite_node(state, node):
    """rewrite every place read inside an rvalue / operand (in place); returns number of rewrites"""
    n = 0
    if isinstance(node, list):
        for x in node:
            n += _rewrite_node(state, x)
        return n
    if not isinstance(node, dict):
        return 0
    for k, v in list(node.items()):
        if isinstance(v, dict) and 'l' in v and 'p' in v and isinstance(v['p'], list):
            q = _rewrite_place(state, v)
            if q is not None:
                node[k] = q
                n += 1
        elif isinstance(v, (dict, list)):
            n += _rewrite_node(state, v)
    return n


def propagate_aggregates(raw):
    blocks = raw['blocks']
    n = len(blocks)
    preds = [[] for _ in range(n)]
    for i, b in enumerate(blocks):
        t = b['term']
        outs = []
        if t['k'] == 'goto':
            outs = [t['target']]
        elif t['k'] == 'switch':
            outs = [t['folded']] if 'folded' in t else [x for _, x in t['targets']] + [t['otherwise']]
        elif t['k'] in ('drop', 'assert', 'call') and t.get('target') is not None:
            outs = [t['target']]
        for o in outs:
            preds[o].append(i)

    def out_state(i, inn):
        st = dict(inn)
        b = blocks[i]
        for s in b['stmts']:
            _stmt_transfer(st, s)
        t = b['term']
        if t['k'] == 'call':
            for a in t['args']:
                if a.get('k') == 'move':
                    _kill(st, a['place']['l'])
            _kill(st, t['dest']['l'])
        elif t['k'] == 'drop':
            _kill(st, t['place']['l'])
        return st

    IN = [None] * n
    IN[0] = {}
    OUT = [None] * n
    work = [0]
    guard = 0
    while work and guard < 20 * n + 100:
        guard += 1
        i = work.pop()
        o = out_state(i, IN[i] or {})
        if OUT[i] is not None and set(OUT[i]) == set(o):
            continue
        OUT[i] = o
        t = blocks[i]['term']
        succ = []
        if t['k'] == 'goto':
            succ = [t['target']]
        elif t['k'] == 'switch':
            succ = [t['folded']] if 'folded' in t else [x for _, x in t['targets']] + [t['otherwise']]
        elif t['k'] in ('drop', 'assert', 'call') and t.get('target') is not None:
            succ = [t['target']]
        for s in succ:
            ps = [OUT[p] for p in preds[s] if OUT[p] is not None]
            new = None
            for st in ps:
                if new is None:
                    new = dict(st)
                else:
                    for k in list(new):
                        if k not in st or st[k][0] != new[k][0] or st[k][1] != new[k][1]:
                            del new[k]
            new = new or {}
            if IN[s] is None or set(IN[s]) != set(new):
                IN[s] = new
                work.append(s)
    total = 0
    for i, b in enumerate(blocks):
        if IN[i] is None:
            continue
        st = dict(IN[i])
        for s in b['stmts']:
            if s['k'] == 'assign':
                total += _rewrite_node(st, s['rv'])
            _stmt_transfer(st, s)
        t = b['term']
        if t['k'] == 'call':
            total += _rewrite_node(st, t['args'])
        elif t['k'] == 'switch':
            total += _rewrite_node(st, {'d': t['discr']})
    return total




# ---------------------------------------------------------------------------------------------------------------
# models of the std combinators whose closure argument is written in place (so that
#   opt.map(|x| f(x))      ==  match opt { Some(x) => Some(f(x)), None => None }
#   r.is_ok() / if ..      ==  match r { Ok(_) => .., Err(_) => .. }
#   it.for_each(|x| ..)    ==  for x in it { .. }
# look the same to the rules)

def _closure_of(raw, op, depth=0):
    """def-path of the crate closure held by operand `op` (a local built once by a closure aggregate, possibly moved
    through other locals -- e.g. into the parameter of a helper that was written in place), else None"""
    l = _bare(op)
    if l is None:
        return None
    defs = []
    for b in raw['blocks']:
        for s in b['stmts']:
            if s['k'] == 'assign' and s['place']['l'] == l and not s['place']['p']:
                defs.append(s)
        t = b['term']
        if t['k'] == 'call' and t['dest']['l'] == l:
            defs.append(None)
    if len(defs) == 1 and defs[0] is not None and defs[0]['rv'].get('closure'):
        return defs[0]['rv']['closure']
    if len(defs) == 1 and defs[0] is not None and defs[0]['rv']['k'] == 'use' and _bare(defs[0]['rv']['op']) is not None and depth < 6:
        return _closure_of(raw, defs[0]['rv']['op'], depth + 1)
    return None


def _const_fn_of(raw, op, depth=0):
    """the `const fn-item` operand that a local holds (possibly moved through other locals), else None"""
    if op.get('k') == 'const':
        return op if op.get('fn') else None
    l = _bare(op)
    if l is None or depth > 6:
        return None
    defs = []
    for b in raw['blocks']:
        for s in b['stmts']:
            if s['k'] == 'assign' and s['place']['l'] == l and not s['place']['p']:
                defs.append(s)
        t = b['term']
        if t['k'] == 'call' and t['dest']['l'] == l:
            return None
    if len(defs) == 1 and defs[0]['rv']['k'] == 'use':
        return _const_fn_of(raw, defs[0]['rv']['op'], depth + 1)
    return None


def _apply(raw, raws, bi, fop, args, dest, target, unwind, t):
    """make block bi end with `dest = f(args...)` then goto target, f being a crate closure (inlined) or a fn item (called)"""
    import inline
    b = raw['blocks'][bi]
    cp = _closure_of(raw, fop)
    if cp is not None and cp in raws:
        g = raws[cp]
        if g['arg_count'] == 1 + len(args):
            env_ty = g['locals'][1]['ty']
            if env_ty.startswith('&'):
                e = _new_local(raw, env_ty)
                b['stmts'].append(_assign(_loc(e, env_ty), {'k': 'ref', 'mut': env_ty.startswith('&mut') or bool(re.match(r"&'\w+ mut ", env_ty)),
                                                              'place': copy.deepcopy(fop['place'])}, t))
                env = {'k': 'move', 'place': _loc(e, env_ty)}
            else:
                env = fop
            inline.splice(raw, bi, g, [env] + args, dest, target, unwind, t, cp)
            return True
        return False
    if fop.get('k') == 'const' and fop.get('fn'):
        fd = fop['fn'].get('def') or ''
        ctor = None
        if fop['fn'].get('krate') in ('core', 'std') and re.search(r'(^|::)(Ok|Err|Some)$', fd) and ('Result' in fd or 'Option' in fd or 'prelude' in fd):
            ctor = {'Ok': (RES, 0, 'Ok'), 'Err': (RES, 1, 'Err'), 'Some': (OPT, 1, 'Some')}[fd.rsplit('::', 1)[-1]]
        if ctor and len(args) == 1:
            # `.map(Some)` / `.map_or_else(.., Ok)`: a tuple-variant constructor used as a function
            _, dg = _split_generics(dest['ty'])
            b['stmts'].append(_assign(dest, _agg(ctor[0], ctor[1], ctor[2], dg, [args[0]]), t))
            b['term'] = {'k': 'goto', 'target': target, 'line': t.get('line'), 'file': t.get('file'), 'exp': t.get('exp'), 'syn': True}
            return True
        b['term'] = {'k': 'call', 'func': fop, 'fn_ty': fop.get('ty'), 'indirect': False, 'args': args, 'dest': dest, 'target': target, 'unwind': unwind,
                     'line': t.get('line'), 'file': t.get('file'), 'exp': t.get('exp'), 'syn': True}
        return True
    return False


def _enum_place(op):
    """(place of the enum value, its type) for an operand that is the enum by value or a reference to it"""
    if op.get('k') not in ('copy', 'move'):
        return None, None
    p = op['place']
    ty = p['ty']
    m = re.match(r"&(?:'\w+ )?(?:mut )?(.*)$", ty)
    if m:
        q = copy.deepcopy(p)
        q['p'] = q['p'] + ['deref']
        q['ty'] = m.group(1)
        return q, m.group(1)
    return copy.deepcopy(p), ty


OPT_MODELS = {'map', 'and_then', 'unwrap_or_else', 'ok_or_else', 'map_or_else', 'is_some', 'is_none', 'ok_or', 'map_or', 'unwrap_or', 'as_ref', 'as_mut'}
RES_MODELS = {'map', 'map_err', 'and_then', 'unwrap_or_else', 'is_ok', 'is_err', 'ok', 'err', 'or_else'}


def expand_combinators(raw, raws, max_n=40):
    n = 0
    i = 0
    while i < len(raw['blocks']) and n < max_n:
        b = raw['blocks'][i]
        t = b['term']
        i += 1
        if t['k'] != 'call' or t['func'].get('k') != 'const' or not t['func'].get('fn') or t.get('target') is None:
            continue
        fn = t['func']['fn']
        r = fn.get('resolved') or {}
        best = r.get('def') if r.get('kind') == 'item' else fn['def']
        m = re.match(r'std::(option::Option::<T>|result::Result::<T, E>)::(\w+)$', best or '')
        bi = i - 1
        g = {'line': t.get('line'), 'file': t.get('file'), 'exp': t.get('exp'), 'syn': True}
        dest, tgt, uw, args = t['dest'], t['target'], t.get('unwind'), t['args']
        if m:
            is_opt = m.group(1).startswith('option')
            name = m.group(2)
            if name not in (OPT_MODELS if is_opt else RES_MODELS):
                continue
            ep, ety = _enum_place(args[0])
            if ep is None:
                continue
            head, gen = _split_generics(ety)
            if (is_opt and (head != OPT or len(gen) != 1)) or (not is_opt and (head != RES or len(gen) != 2)):
                continue
            by_ref = ep['p'][-1:] == ['deref'] and args[0]['place']['ty'].startswith('&')
            mv = 'copy' if by_ref else 'move'
            d = _new_local(raw, 'isize')
            unreach = _new_block(raw, [], dict(g, k='unreachable'), b['cleanup'])
            dty = dest['ty']
            dh, dg = _split_generics(dty)

            def arm(stmts=None):
                return _new_block(raw, stmts or [], dict(g, k='goto', target=tgt), b['cleanup'])

            def const_bool(v):
                return arm([_assign(dest, {'k': 'use', 'op': {'k': 'const', 'ty': 'bool', 'text': 'true' if v else 'false', 'bits': '1' if v else '0'}}, t)])
            if is_opt:
                T = gen[0]
                some_p = {'k': mv, 'place': _field(ep, 1, 'Some', OPT, T)}
                if name in ('is_some', 'is_none'):
                    a_none, a_some = const_bool(name == 'is_none'), const_bool(name == 'is_some')
                elif name in ('as_ref', 'as_mut'):
                    if not by_ref or not dg:
                        continue
                    rt = dg[0]
                    tmp = _new_local(raw, rt)
                    a_some = arm([_assign(_loc(tmp, rt), {'k': 'ref', 'mut': name == 'as_mut', 'place': _field(ep, 1, 'Some', OPT, T)}, t),
                                  _assign(dest, _agg(OPT, 1, 'Some', dg, [{'k': 'move', 'place': _loc(tmp, rt)}]), t)])
                    a_none = arm([_assign(dest, _agg(OPT, 0, 'None', dg, []), t)])
                elif name == 'map':
                    U = dg[0] if dg else '?'
                    tmp = _new_local(raw, U)
                    fin = arm([_assign(dest, _agg(OPT, 1, 'Some', [U], [{'k': 'move', 'place': _loc(tmp, U)}]), t)])
                    a_some = _new_block(raw, [], dict(g, k='unreachable'), b['cleanup'])
                    if not _apply(raw, raws, a_some, args[1], [some_p], _loc(tmp, U), fin, uw, t):
                        continue
                    a_none = arm([_assign(dest, _agg(OPT, 0, 'None', [U], []), t)])
                elif name == 'and_then':
                    a_some = _new_block(raw, [], dict(g, k='unreachable'), b['cleanup'])
                    if not _apply(raw, raws, a_some, args[1], [some_p], dest, tgt, uw, t):
                        continue
                    a_none = arm([_assign(dest, _agg(OPT, 0, 'None', dg, []), t)])
                elif name in ('unwrap_or_else', 'unwrap_or'):
                    a_some = arm([_assign(dest, {'k': 'use', 'op': some_p}, t)])
                    if name == 'unwrap_or':
                        a_none = arm([_assign(dest, {'k': 'use', 'op': args[1]}, t)])
                    else:
                        a_none = _new_block(raw, [], dict(g, k='unreachable'), b['cleanup'])
                        if not _apply(raw, raws, a_none, args[1], [], dest, tgt, uw, t):
                            continue
                elif name in ('ok_or_else', 'ok_or'):
                    a_some = arm([_assign(dest, _agg(RES, 0, 'Ok', dg, [some_p]), t)])
                    if name == 'ok_or':
                        a_none = arm([_assign(dest, _agg(RES, 1, 'Err', dg, [args[1]]), t)])
                    else:
                        E = dg[1] if len(dg) == 2 else '?'
                        tmp = _new_local(raw, E)
                        fin = arm([_assign(dest, _agg(RES, 1, 'Err', dg, [{'k': 'move', 'place': _loc(tmp, E)}]), t)])
                        a_none = _new_block(raw, [], dict(g, k='unreachable'), b['cleanup'])
                        if not _apply(raw, raws, a_none, args[1], [], _loc(tmp, E), fin, uw, t):
                            continue
                elif name in ('map_or_else', 'map_or'):
                    a_some = _new_block(raw, [], dict(g, k='unreachable'), b['cleanup'])
                    if not _apply(raw, raws, a_some, args[2], [some_p], dest, tgt, uw, t):
                        continue
                    if name == 'map_or':
                        a_none = arm([_assign(dest, {'k': 'use', 'op': args[1]}, t)])
                    else:
                        a_none = _new_block(raw, [], dict(g, k='unreachable'), b['cleanup'])
                        if not _apply(raw, raws, a_none, args[1], [], dest, tgt, uw, t):
                            continue
                else:
                    continue
                targets = [['0', a_none], ['1', a_some]]
            else:
                T, E = gen
                ok_p = {'k': mv, 'place': _field(ep, 0, 'Ok', RES, T)}
                err_p = {'k': mv, 'place': _field(ep, 1, 'Err', RES, E)}
                if name in ('is_ok', 'is_err'):
                    a_ok, a_err = const_bool(name == 'is_ok'), const_bool(name == 'is_err')
                elif name == 'ok':
                    a_ok = arm([_assign(dest, _agg(OPT, 1, 'Some', [T], [ok_p]), t)])
                    a_err = arm([_assign(dest, _agg(OPT, 0, 'None', [T], []), t)])
                elif name == 'err':
                    a_ok = arm([_assign(dest, _agg(OPT, 0, 'None', [E], []), t)])
                    a_err = arm([_assign(dest, _agg(OPT, 1, 'Some', [E], [err_p]), t)])
                elif name == 'map':
                    U = dg[0] if dg else '?'
                    tmp = _new_local(raw, U)
                    fin = arm([_assign(dest, _agg(RES, 0, 'Ok', dg, [{'k': 'move', 'place': _loc(tmp, U)}]), t)])
                    a_ok = _new_block(raw, [], dict(g, k='unreachable'), b['cleanup'])
                    if not _apply(raw, raws, a_ok, args[1], [ok_p], _loc(tmp, U), fin, uw, t):
                        continue
                    a_err = arm([_assign(dest, _agg(RES, 1, 'Err', dg, [err_p]), t)])
                elif name == 'map_err':
                    F = dg[1] if len(dg) == 2 else '?'
                    tmp = _new_local(raw, F)
                    fin = arm([_assign(dest, _agg(RES, 1, 'Err', dg, [{'k': 'move', 'place': _loc(tmp, F)}]), t)])
                    a_err = _new_block(raw, [], dict(g, k='unreachable'), b['cleanup'])
                    if not _apply(raw, raws, a_err, args[1], [err_p], _loc(tmp, F), fin, uw, t):
                        continue
                    a_ok = arm([_assign(dest, _agg(RES, 0, 'Ok', dg, [ok_p]), t)])
                elif name == 'and_then':
                    a_ok = _new_block(raw, [], dict(g, k='unreachable'), b['cleanup'])
                    if not _apply(raw, raws, a_ok, args[1], [ok_p], dest, tgt, uw, t):
                        continue
                    a_err = arm([_assign(dest, _agg(RES, 1, 'Err', dg, [err_p]), t)])
                elif name == 'or_else':
                    a_err = _new_block(raw, [], dict(g, k='unreachable'), b['cleanup'])
                    if not _apply(raw, raws, a_err, args[1], [err_p], dest, tgt, uw, t):
                        continue
                    a_ok = arm([_assign(dest, _agg(RES, 0, 'Ok', dg, [ok_p]), t)])
                elif name == 'unwrap_or_else':
                    a_ok = arm([_assign(dest, {'k': 'use', 'op': ok_p}, t)])
                    a_err = _new_block(raw, [], dict(g, k='unreachable'), b['cleanup'])
                    if not _apply(raw, raws, a_err, args[1], [err_p], dest, tgt, uw, t):
                        continue
                else:
                    continue
                targets = [['0', a_ok], ['1', a_err]]
            b['stmts'].append(_assign(_loc(d, 'isize'), {'k': 'discr', 'place': ep}, t))
            b['term'] = dict(g, k='switch', discr={'k': 'move', 'place': _loc(d, 'isize')}, discr_ty='isize', targets=targets, otherwise=unreach, model=best)
            n += 1
        elif re.match(r'std::ops::ControlFlow::<B, C>::(is_break|is_continue)$', best or '') and len(args) == 1:
            # ControlFlow::{Continue = 0, Break = 1}: `x.is_break()` is `matches!(x, Break(_))`
            ep, ety = _enum_place(args[0])
            if ep is None:
                continue
            want = 1 if best.endswith('is_break') else 0
            d = _new_local(raw, 'isize')

            def cbool(v):
                return _new_block(raw, [_assign(dest, {'k': 'use', 'op': {'k': 'const', 'ty': 'bool', 'text': 'true' if v else 'false', 'bits': '1' if v else '0'}}, t)],
                                  dict(g, k='goto', target=tgt), b['cleanup'])
            a0, a1 = cbool(want == 0), cbool(want == 1)
            unreach = _new_block(raw, [], dict(g, k='unreachable'), b['cleanup'])
            b['stmts'].append(_assign(_loc(d, 'isize'), {'k': 'discr', 'place': ep}, t))
            b['term'] = dict(g, k='switch', discr={'k': 'move', 'place': _loc(d, 'isize')}, discr_ty='isize', targets=[['0', a0], ['1', a1]], otherwise=unreach, model=best)
            n += 1
        elif best in ('std::primitive::bool::then', 'bool::then', 'core::bool::<impl bool>::then', 'std::primitive::bool::then_some', 'core::bool::<impl bool>::then_some') \
                or re.match(r'(std|core)::bool::<impl bool>::then(_some)?$', best or ''):
            some_name = (best or '').endswith('then_some')
            dty = dest['ty']
            dh, dg = _split_generics(dty)
            if dh != OPT or len(dg) != 1 or len(args) != 2:
                continue
            U = dg[0]
            tmp = _new_local(raw, U)
            fin = _new_block(raw, [_assign(dest, _agg(OPT, 1, 'Some', [U], [{'k': 'move', 'place': _loc(tmp, U)}]), t)], dict(g, k='goto', target=tgt), b['cleanup'])
            a_true = _new_block(raw, [], dict(g, k='unreachable'), b['cleanup'])
            if some_name:
                raw['blocks'][a_true]['stmts'].append(_assign(_loc(tmp, U), {'k': 'use', 'op': args[1]}, t))
                raw['blocks'][a_true]['term'] = dict(g, k='goto', target=fin)
            elif not _apply(raw, raws, a_true, args[1], [], _loc(tmp, U), fin, uw, t):
                continue
            a_false = _new_block(raw, [_assign(dest, _agg(OPT, 0, 'None', [U], []), t)], dict(g, k='goto', target=tgt), b['cleanup'])
            b['term'] = dict(g, k='switch', discr=args[0], discr_ty='bool', targets=[['0', a_false]], otherwise=a_true, model=best)
            n += 1
        elif fn['def'] == 'std::iter::Iterator::try_for_each' and len(args) == 2 and args[0].get('k') in ('move', 'copy') and args[0]['place']['ty'].startswith('&mut '):
            # it.try_for_each(|x| -> Option<()> / Result<(), E>)  ==  for x in it { f(x)? }  (the receiver is `&mut iter`)
            cp = _closure_of(raw, args[1])
            if cp is None or cp not in raws or raws[cp]['arg_count'] != 2:
                continue
            rty = raws[cp]['locals'][0]['ty']
            rh, rg = _split_generics(rty)
            if rh not in (OPT, RES) or dest['ty'] != rty:
                continue
            item_ty = raws[cp]['locals'][2]['ty']
            oty = '%s<%s>' % (OPT, item_ty)
            nxt = _new_local(raw, oty, OPT)
            res = _new_local(raw, rty, rh)
            d = _new_local(raw, 'isize')
            d2 = _new_local(raw, 'isize')
            mty = args[0]['place']['ty']
            hdr = _new_block(raw, [], None, b['cleanup'])
            sw = _new_block(raw, [_assign(_loc(d, 'isize'), {'k': 'discr', 'place': _loc(nxt, oty)}, t)], None, b['cleanup'])
            unreach = _new_block(raw, [], dict(g, k='unreachable'), b['cleanup'])
            unit = {'k': 'const', 'ty': '()', 'text': '()'}
            done = _new_block(raw, [_assign(dest, _agg(rh, 1 if rh == OPT else 0, 'Some' if rh == OPT else 'Ok', rg, [unit]), t)], dict(g, k='goto', target=tgt), b['cleanup'])
            body = _new_block(raw, [], dict(g, k='unreachable'), b['cleanup'])
            chk = _new_block(raw, [_assign(_loc(d2, 'isize'), {'k': 'discr', 'place': _loc(res, rty)}, t)], None, b['cleanup'])
            if rh == OPT:
                stop = _new_block(raw, [_assign(dest, _agg(OPT, 0, 'None', rg, []), t)], dict(g, k='goto', target=tgt), b['cleanup'])
                raw['blocks'][chk]['term'] = dict(g, k='switch', discr={'k': 'move', 'place': _loc(d2, 'isize')}, discr_ty='isize', targets=[['0', stop], ['1', hdr]], otherwise=unreach, model='try_for_each')
            else:
                stop = _new_block(raw, [_assign(dest, _agg(RES, 1, 'Err', rg, [{'k': 'move', 'place': _field(_loc(res, rty), 1, 'Err', RES, rg[1] if len(rg) > 1 else '?')}]), t)],
                                  dict(g, k='goto', target=tgt), b['cleanup'])
                raw['blocks'][chk]['term'] = dict(g, k='switch', discr={'k': 'move', 'place': _loc(d2, 'isize')}, discr_ty='isize', targets=[['0', hdr], ['1', stop]], otherwise=unreach, model='try_for_each')
            text = '<%s as std::iter::Iterator>::next' % mty
            raw['blocks'][hdr]['term'] = dict(g, k='call', func={'k': 'const', 'ty': text, 'text': text, 'fn': {
                'def': 'std::iter::Iterator::next', 'args': [mty[5:]], 'local': False, 'krate': 'core', 'trait': 'std::iter::Iterator', 'self_ty': mty[5:], 'name': 'next',
                'method': True, 'recv': '&mut Self', 'sig_inputs': ['&mut Self'], 'sig_output': 'std::option::Option<Self::Item>', 'resolved': None}},
                fn_ty=text, indirect=False, args=[{'k': 'copy', 'place': copy.deepcopy(args[0]['place'])}], dest=_loc(nxt, oty), target=sw, unwind=uw)
            raw['blocks'][sw]['term'] = dict(g, k='switch', discr={'k': 'move', 'place': _loc(d, 'isize')}, discr_ty='isize', targets=[['0', done], ['1', body]], otherwise=unreach,
                                             model='try_for_each')
            if not _apply(raw, raws, body, args[1], [{'k': 'move', 'place': _field(_loc(nxt, oty), 1, 'Some', OPT, item_ty)}], _loc(res, rty), chk, uw, t):
                continue
            b['term'] = dict(g, k='goto', target=hdr, model='try_for_each')
            n += 1
        elif fn['def'] == 'std::iter::Iterator::for_each' and len(args) == 2 and args[0].get('k') in ('move', 'copy'):
            cp = _closure_of(raw, args[1])
            if cp is None or cp not in raws or raws[cp]['arg_count'] != 2:
                continue
            # it.map(g).for_each(f)  ==  it.for_each(|x| f(g(x))): iterate the inner iterator and apply g in the loop body
            fuse = None
            l0 = _bare(args[0])
            d0 = _single_defs(raw).get(l0) if l0 is not None else None
            if d0 is not None and d0[0] == 'call':
                tm = d0[3]
                fm = (tm['func'].get('fn') or {}) if tm['func'].get('k') == 'const' else {}
                is_map = fm.get('def') == 'std::iter::Iterator::map' and len(tm['args']) == 2
                cg = _closure_of(raw, tm['args'][1]) if is_map else None
                if cg is not None and cg in raws and raws[cg]['arg_count'] == 2 and tm['args'][0].get('k') in ('move', 'copy') and tm.get('target') is not None \
                        and raw['blocks'][d0[1]]['cleanup'] == b['cleanup']:
                    fuse = (d0[1], tm, cg)
                elif is_map and cg is None and tm['args'][1].get('k') == 'const' and (tm['args'][1].get('fn') or {}).get('def') and tm['args'][0].get('k') in ('move', 'copy') \
                        and tm.get('target') is not None and raw['blocks'][d0[1]]['cleanup'] == b['cleanup']:
                    fuse = (d0[1], tm, None)        # `.map(Key::as_borrowed)`: a function passed by name
            src = fuse[1]['args'][0] if fuse else args[0]
            if fuse:
                raw['blocks'][fuse[0]]['term'] = dict(g, k='goto', target=fuse[1]['target'], model='map-fused')
            ity = src['place']['ty']
            it = _new_local(raw, ity)
            b['stmts'].append(_assign(_loc(it, ity), {'k': 'use', 'op': src}, t))
            if fuse and fuse[2] is None:
                si = (fuse[1]['args'][1]['fn'].get('sig_inputs') or ['?'])
                item_ty = si[0] if si and 'Self' not in si[0] else '?'
            else:
                item_ty = raws[fuse[2] if fuse else cp]['locals'][2]['ty']
            oty = '%s<%s>' % (OPT, item_ty)
            nxt = _new_local(raw, oty, OPT)
            rty = '&mut ' + ity
            rf = _new_local(raw, rty)
            d = _new_local(raw, 'isize')
            unit = _new_local(raw, '()')
            hdr = _new_block(raw, [_assign(_loc(rf, rty), {'k': 'ref', 'mut': True, 'place': _loc(it, ity)}, t)], None, b['cleanup'])
            sw = _new_block(raw, [_assign(_loc(d, 'isize'), {'k': 'discr', 'place': _loc(nxt, oty)}, t)], None, b['cleanup'])
            unreach = _new_block(raw, [], dict(g, k='unreachable'), b['cleanup'])
            done = _new_block(raw, [_assign(dest, {'k': 'use', 'op': {'k': 'const', 'ty': '()', 'text': '()'}}, t)], dict(g, k='goto', target=tgt), b['cleanup'])
            body = _new_block(raw, [], dict(g, k='unreachable'), b['cleanup'])
            text = '<%s as std::iter::Iterator>::next' % ity
            raw['blocks'][hdr]['term'] = dict(g, k='call', func={'k': 'const', 'ty': text, 'text': text, 'fn': {
                'def': 'std::iter::Iterator::next', 'args': [ity], 'local': False, 'krate': 'core', 'trait': 'std::iter::Iterator', 'self_ty': ity, 'name': 'next',
                'method': True, 'recv': '&mut Self', 'sig_inputs': ['&mut Self'], 'sig_output': 'std::option::Option<Self::Item>', 'resolved': None}},
                fn_ty=text, indirect=False, args=[{'k': 'move', 'place': _loc(rf, rty)}], dest=_loc(nxt, oty), target=sw, unwind=uw)
            raw['blocks'][sw]['term'] = dict(g, k='switch', discr={'k': 'move', 'place': _loc(d, 'isize')}, discr_ty='isize', targets=[['0', done], ['1', body]], otherwise=unreach,
                                             model='for_each')
            item = {'k': 'move', 'place': _field(_loc(nxt, oty), 1, 'Some', OPT, item_ty)}
            if fuse:
                mty = raws[fuse[2]]['locals'][0]['ty'] if fuse[2] is not None else raws[cp]['locals'][2]['ty']
                mid = _new_local(raw, mty)
                body2 = _new_block(raw, [], dict(g, k='unreachable'), b['cleanup'])
                okf = _apply(raw, raws, body, fuse[1]['args'][1], [item], _loc(mid, mty), body2, uw, t) and \
                    _apply(raw, raws, body2, args[1], [{'k': 'move', 'place': _loc(mid, mty)}], _loc(unit, '()'), hdr, uw, t)
            else:
                okf = _apply(raw, raws, body, args[1], [item], _loc(unit, '()'), hdr, uw, t)
            if not okf:
                b['stmts'].pop()
                continue
            b['term'] = dict(g, k='goto', target=hdr, model='for_each')
            n += 1
    return n


def _single_defs(raw):
    defs = {}
    for i, b in enumerate(raw['blocks']):
        for j, s in enumerate(b['stmts']):
            if s['k'] == 'assign' and not s['place']['p']:
                defs.setdefault(s['place']['l'], []).append(('stmt', i, j, s))
        t = b['term']
        if t['k'] == 'call' and not t['dest']['p']:
            defs.setdefault(t['dest']['l'], []).append(('call', i, None, t))
    for k in range(1, raw.get('arg_count', 0) + 1):
        defs.setdefault(k, []).append(('arg', None, None, None))
    return {l: d[0] for l, d in defs.items() if len(d) == 1}


def fold_enum_eq(raw, raws, max_n=8):
    """`x == E::V` on a field-less enum (the derived eq written in place: `Eq(discriminant(*a), discriminant(*b))` where b
    is a constant variant) becomes the `match x { E::V => true, _ => false }` it means, so that it threads like a match."""
    n = 0
    for _ in range(max_n):
        sd = _single_defs(raw)

        def enum_place(l, depth=0):
            # what a reference local points to: ('const', variant) | ('place', place) | None
            d = sd.get(l)
            if d is None or d[0] != 'stmt' or depth > 6:
                return None
            rv = d[3]['rv']
            if rv['k'] == 'use' and rv['op']['k'] in ('copy', 'move') and not rv['op']['place']['p']:
                return enum_place(rv['op']['place']['l'], depth + 1)
            if rv['k'] == 'use' and rv['op']['k'] == 'const' and rv['op'].get('promoted') is not None and raws is not None:
                pb = raws.get('%s::{promoted#%d}' % (rv['op'].get('uneval'), rv['op']['promoted']))
                if pb and len(pb['blocks']) == 1:
                    ags = [x for x in pb['blocks'][0]['stmts'] if x['k'] == 'assign' and x['rv']['k'] == 'aggregate']
                    if len(ags) == 1 and ags[0]['rv'].get('variant') is not None and not ags[0]['rv'].get('ops'):
                        return ('const', ags[0]['rv']['variant'])
                return None
            if rv['k'] == 'ref':
                pl = rv['place']
                if pl['p'] == ['deref']:
                    return enum_place(pl['l'], depth + 1)
                if not pl['p']:
                    dd = sd.get(pl['l'])
                    if dd is not None and dd[0] == 'stmt' and dd[3]['rv']['k'] == 'aggregate' and dd[3]['rv'].get('variant') is not None and not dd[3]['rv'].get('ops'):
                        return ('const', dd[3]['rv']['variant'])
                    return ('place', pl)
            return None

        def side(op):
            l = _bare(op)
            for _k in range(4):
                d = sd.get(l) if l is not None else None
                if d is None or d[0] != 'stmt':
                    return None
                rv = d[3]['rv']
                if rv['k'] == 'use' and _bare(rv['op']) is not None:
                    l = _bare(rv['op'])
                    continue
                if rv['k'] == 'discr':
                    pl = rv['place']
                    if pl['p'] == ['deref']:
                        return enum_place(pl['l'])
                    if not pl['p']:
                        return ('place', pl)
                return None
            return None
        hit = None
        for i, b in enumerate(raw['blocks']):
            for j, s in enumerate(b['stmts']):
                if s['k'] == 'assign' and not s['place']['p'] and s['rv']['k'] == 'binop' and s['rv'].get('op') in ('Eq', 'Ne'):
                    x, y = side(s['rv']['a']), side(s['rv']['b'])
                    if x and y and {x[0], y[0]} == {'const', 'place'}:
                        hit = (i, j, s, x if x[0] == 'place' else y, x if x[0] == 'const' else y)
                        break
            if hit:
                break
        if not hit:
            break
        i, j, s, pl, cv = hit
        b = raw['blocks'][i]
        nl = len(raw['locals'])
        raw['locals'].append({'ty': 'isize', 'adt': None})
        base = len(raw['blocks'])
        eq = s['rv']['op'] == 'Eq'
        line = s.get('line')

        def cst(v):
            return {'k': 'assign', 'place': copy.deepcopy(s['place']), 'rv': {'k': 'use', 'op': {'k': 'const', 'ty': 'bool', 'text': 'true' if v else 'false', 'bits': '1' if v else '0'}}, 'line': line, 'syn': True}
        rest = {'cleanup': b['cleanup'], 'stmts': b['stmts'][j + 1:], 'term': b['term']}
        bt = {'cleanup': b['cleanup'], 'stmts': [cst(eq)], 'term': {'k': 'goto', 'target': base + 2, 'line': line, 'file': raw.get('file'), 'exp': False}}
        bf = {'cleanup': b['cleanup'], 'stmts': [cst(not eq)], 'term': {'k': 'goto', 'target': base + 2, 'line': line, 'file': raw.get('file'), 'exp': False}}
        raw['blocks'] += [bt, bf, rest]
        b['stmts'] = b['stmts'][:j] + [{'k': 'assign', 'place': {'l': nl, 'p': [], 'ty': 'isize'}, 'rv': {'k': 'discr', 'place': copy.deepcopy(pl[1])}, 'line': line, 'syn': True}]
        b['term'] = {'k': 'switch', 'discr': {'k': 'move', 'place': {'l': nl, 'p': [], 'ty': 'isize'}}, 'targets': [[str(cv[1]), base]], 'otherwise': base + 1,
                     'line': line, 'file': raw.get('file'), 'exp': False, 'syn': True}
        n += 1
    return n


def normalize(raw, raws=None):
    """in place; returns (combinator expansions, try expansions, threaded jumps, field reads forwarded)"""
    m = (inline_local_closure_calls(raw, raws) + expand_combinators(raw, raws)) if raws is not None else 0
    m += fold_enum_eq(raw, raws)
    a = expand_try(raw)
    b = thread_jumps(raw)
    c = propagate_aggregates(raw) if (a or b or m) else 0
    return m, a, b, c


FN_CALLS = ('std::ops::Fn::call', 'std::ops::FnMut::call_mut', 'std::ops::FnOnce::call_once')


def inline_local_closure_calls(raw, raws, max_n=12):
    """a closure of this very function that is called where it is defined (`let f = |x| ..; f(a)`) is written in
    place: same normal form as a nested fn or the plain statements"""
    import inline
    n = 0
    i = 0
    while i < len(raw['blocks']) and n < max_n:
        b = raw['blocks'][i]
        t = b['term']
        i += 1
        if t['k'] != 'call' or t['func'].get('k') != 'const' or not t['func'].get('fn') or t.get('target') is None:
            continue
        fn = t['func']['fn']
        r = fn.get('resolved') or {}
        if fn['def'] not in FN_CALLS or len(t['args']) != 2:
            continue
        env, tup = t['args']
        if r.get('kind') == 'item' and r.get('local'):
            cp = r['def']
        else:
            # `f(x)` on a generic F: the value may be a closure of this function handed to a helper written in place
            cp = _closure_of(raw, env)
        g = raws.get(cp) if cp else None
        if g is None and not (r.get('kind') == 'item'):
            # a function passed by name (`with_reloader(HotReloader::clear)`): call it directly
            cf = _const_fn_of(raw, env)
            if cf is not None and tup.get('k') in ('copy', 'move'):
                nin = len(cf['fn'].get('sig_inputs') or [])
                fargs = []
                for k in range(nin):
                    pp = copy.deepcopy(tup['place'])
                    pp['p'] = pp['p'] + [{'f': k, 'n': str(k), 'of': None, 'ty': '?'}]
                    fargs.append({'k': 'move', 'place': pp})
                t['func'] = cf
                t['fn_ty'] = cf.get('ty')
                t['indirect'] = False
                t['args'] = fargs
                t['syn'] = True
                n += 1
            continue
        if g is None or g['kind'] != 'Closure' or g.get('root') != (raw.get('root') or raw['path']) or cp == raw['path']:
            continue
        if env.get('k') not in ('copy', 'move'):
            continue
        if g['locals'][1]['ty'] != env['place']['ty'] and not (not g['locals'][1]['ty'].startswith('&') and not env['place']['ty'].startswith('&')):
            # (two by-value spellings of the same closure type -- the concrete one and the generic parameter of a helper
            # written in place -- are the same value)
            ety = g['locals'][1]['ty']
            if not ety.startswith('&') or env['place']['p'] or env['place']['ty'].startswith('&'):
                continue
            # the body takes its environment by reference, the call site holds the closure by value
            e = _new_local(raw, ety)
            b['stmts'].append(_assign(_loc(e, ety), {'k': 'ref', 'mut': ety.startswith('&mut') or bool(re.match(r"&'\w+ mut ", ety)),
                                                          'place': copy.deepcopy(env['place'])}, t))
            env = {'k': 'move', 'place': _loc(e, ety)}
        nparams = g['arg_count'] - 1
        if nparams and tup.get('k') not in ('copy', 'move'):
            continue
        args = [env]
        for k in range(nparams):
            p = copy.deepcopy(tup['place'])
            ty = g['locals'][2 + k]['ty']
            p['p'] = p['p'] + [{'f': k, 'n': str(k), 'of': None, 'ty': ty}]
            p['ty'] = ty
            args.append({'k': 'move', 'place': p})
        inline.splice(raw, i - 1, g, args, t['dest'], t['target'], t.get('unwind'), t, cp)
        n += 1
    return n
