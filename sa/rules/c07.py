"""C07 -- readers are isolated from reloads: guards pin values, no torn reads.
Lock-region (lockset) analysis (DESIGN.md section 4, C07)."""
import re

import common
from common import make_pt, pt_deref

LEVEL = 'other'
EXPLANATION = (
    'Lockset discipline decided on the MIR of every configuration (std locks in B/D/E, parking_lot in C): every '
    'site that turns EntryStorage.value into a reference is enumerated and classified (read: after the read guard '
    'is taken, and the guard travels in the returned AssetReadGuard; get: behind the dynamic.is_some() panic; write: '
    'inside the live range of the write guard, on normal and unwind paths; owned: by value / &mut on an owned '
    'entry); every AssetReadGuard construction carries its guard; the writer updates value, reload id and global '
    'flag inside one write-guard region in that order; Static mode is reachable only with &\'static cache; '
    'HotReloader::reload waits for the answer to its own token and the reloader answers after update_if_local. '
    'With RwLock semantics these per-path facts hold for every interleaving.')
TRUSTED = ['rustc MIR construction (drop elaboration, unwind edges)', 'RwLock semantics of std and parking_lot',
           'crossbeam-channel FIFO delivery', 'amfacts driver + rule engine in /verif/sa']

ES = 'entry::EntryStorage'


def value_access_sites(F):
    """calls / statements that reach into EntryStorage.value"""
    out = []
    for b in F.fn_bodies():
        for c in b.calls():
            if not c.callee or c.callee.impl_adt != 'std::cell::UnsafeCell' or not c.args:
                continue
            if c.callee.name == 'new':
                continue
            ap = b.access_path(c.args[0])
            if ap and 'value' in ap:
                # make sure it is EntryStorage's field
                if fields_of_value(b, c.args[0]):
                    out.append((b, c, ap))
    return out


def fields_of_value(b, op):
    """does the operand resolve through a place with field `value` of EntryStorage"""
    def walk(o, depth=0):
        if o['k'] not in ('copy', 'move') or depth > 12:
            return False
        for e in o['place']['p']:
            if isinstance(e, dict) and e.get('n') == 'value' and e.get('of') == ES:
                return True
        for d in b.defs_of(o['place']['l']):
            if d[0] == 'stmt':
                rv = d[3]['rv']
                if rv['k'] in ('ref', 'rawptr'):
                    for e in rv['place']['p']:
                        if isinstance(e, dict) and e.get('n') == 'value' and e.get('of') == ES:
                            return True
                    if walk({'k': 'copy', 'place': rv['place']}, depth + 1):
                        return True
                elif rv['k'] in ('use', 'cast') and walk(rv['op'], depth + 1):
                    return True
        return False
    return walk(op)


def run(ctx):
    rep = ctx.report
    R1 = rep.rule('C07.R1', 'every access to EntryStorage.value is classified: read-under-guard / get-behind-panic / write-in-guard-region / owned', floor=3)
    R2 = rep.rule('C07.R2', 'every AssetReadGuard construction carries the read guard (fresh lock.read() or the consumed guard)', floor=3)
    R3 = rep.rule('C07.R3', 'writer region: swap, reload-id increment and global flag store lie inside the write guard, in that order; guard dropped on every exit', floor=5)
    R4 = rep.rule('C07.R4', 'one writer: swap_any is called only from EntryStorage::write', floor=1)
    R5 = rep.rule('C07.R5', 'values change only inside hot_reload unless enhance_hot_reloading(&\'static self) was called; hot_reload waits for its answer', floor=9)
    R6 = rep.rule('C07.R6', 'the closures of AssetReadGuard::map / try_map are higher-ranked over the borrow: the mapped reference cannot escape the guard', floor=2)
    S1 = rep.rule('C08.R2', 'hot_reload waits until *its* answer is there: every raw Condvar::wait sits in the predicate loop of utils::private::Condvar::wait_while, for both lock back ends (shared with C08, wait clauses only)', floor=2)
    S2 = rep.rule('C08.R4', 'hot_reload waits for the answer to *its own* request: unique tokens, the wait follows a successful send on the token just sent, and the waiter\'s predicate is `slot != Some(my token)` (shared with C08)', floor=4)
    R7 = rep.rule('C07.R7', 'the reference a read guard carries is used only through the guard: nobody copies `AssetReadGuard.value` out (it has the lifetime of the handle, not of the guard, so the borrow checker does not object)', floor=2)
    rep.assumptions += ['user code does not hold an AssetReadGuard across hot_reload (documented precondition of the crate)']
    for cfg, F in ctx.cfgs():
        hr = 'hot-reloading' in ctx.cfg_features[cfg]
        r1(R1, cfg, F, hr)
        if hr:
            r2(R2, cfg, F)
            r3(R3, R4, cfg, F)
            r5(R5, cfg, F)
            from c08 import r2 as condvar_protocol, r4 as waits_for_own_answer
            condvar_protocol(S1, cfg, F, only_waits=True)
            waits_for_own_answer(S2, cfg, F)
            for r in (R2, R3, R4, R5, S1, S2):
                r.finish_cfg(cfg)
        R1.finish_cfg(cfg)
        r6(R6, cfg, F)
        R6.finish_cfg(cfg)
        r7(R7, cfg, F)
        R7.finish_cfg(cfg)


def read_guard_call(F, b):
    """the Option::map(as_ref(&self.dynamic), |d| d.lock.read()) call in `b`, or None"""
    for c in b.calls():
        if c.callee and c.callee.best == 'std::option::Option::<T>::map' and len(c.args) == 2:
            cl = c.args[1]
            aggs = [s for s in agg_of(b, cl)]
            for s in aggs:
                cp = s['rv'].get('closure')
                cb = F.body(cp) if cp else None
                if cb and closure_takes_read_lock(cb):
                    # the option comes from self.dynamic
                    roots = b.origins(c.args[0], passthrough=make_pt(r'Option::<T>::as_ref$'))
                    if roots == {('arg', 1)}:
                        return c
    return None


def agg_of(b, op):
    from mir import agg_stmts
    return agg_stmts(b, op)


def closure_takes_read_lock(cb):
    cs = [c for c in cb.calls()]
    if len(cs) != 1 or not cs[0].callee or not re.search(r'utils::private::RwLock::<T>::read$', cs[0].callee.best):
        return False
    ap = cb.access_path(cs[0].args[0])
    return bool(ap) and ap[0] == 'arg2' and 'lock' in ap and cs[0].dest['l'] == 0


def r1(R1, cfg, F, hr):
    sites = value_access_sites(F)
    seen_kinds = []
    for b, c, ap in sites:
        name = c.callee.name
        fn = b.path
        kind = None
        why = ''
        root = ap[0]
        if name == 'get' and root == 'arg1' and b.local_ty(1).startswith('&entry::EntryStorage'):
            # shared access (read / get / write): on the normal form, the access must never be reached on a path where the
            # entry is dynamic (`self.dynamic` is Some) unless that path acquired the entry's lock, and the lock is held
            if not hr:
                kind = 'no-reloading'   # without the feature nothing ever writes a shared entry (write is compiled out)
                ok = not F.find(r'entry::swap_any$')
                why = 'swap_any exists although hot-reloading is off'
            else:
                DYN = ['arg1', 'dynamic']
                sws = []
                for bb, t in b.terms():
                    if t['k'] == 'switch' and not b.blocks[bb]['cleanup'] and bb in b.live_blocks(unwind=False):
                        tst = common.switch_test(b, bb)
                        if tst and tst[0] == 'discr' and common.strip_refs(common.deep_path(b, tst[1])) == DYN:
                            sws.append(bb)
                locks = [x for x in b.calls() if x.callee and re.search(r'utils::private::RwLock::<T>::(read|write)$', x.callee.best)
                         and common.strip_refs(common.deep_path(b, x.args[0]))[:4] == DYN + ['as:Some', '0'] and 'lock' in common.strip_refs(common.deep_path(b, x.args[0]))]
                kind = ('write' if any(x.callee.name == 'write' for x in locks) else 'read') if locks else 'get'
                ok = bool(sws) and c.bb not in b.reachable([0], removed_blocks=sws)
                why = 'a shared access must be preceded on every path by a test of `self.dynamic`'
                if ok:
                    for sw in sws:
                        some = b.variant_edge(sw, 1)
                        if some is not None and c.bb in b.reachable([some], removed_blocks=[x.bb for x in locks]):
                            ok = False
                            why = ('the value of a dynamic entry (one the reloader may rewrite) is accessed on a path that took no lock: '
                                   'an unguarded access is allowed only behind the `dynamic.is_some()` => panic check')
                if ok and kind == 'write':
                    ok = len(locks) == 1 and (c.bb, c.idx) in b.region_of(locks[0])
                    why = 'the value is accessed for writing outside the write guard'
                elif ok and kind == 'read':
                    rets = [s for _, _, s in b.assigns() if s['place']['l'] == 0 and s['rv']['k'] == 'aggregate' and s['rv'].get('adt') == 'entry::AssetReadGuard']
                    ok = len(rets) >= 1 and all('guard' in r['rv']['fields'] and
                                                any(('call', x.bb) in b.origins(r['rv']['ops'][r['rv']['fields'].index('guard')]) for x in locks) for r in rets)
                    why = 'the read guard does not travel with the returned reference'
        elif name == 'get_mut':
            kind = 'owned-mut'
            ty = b.local_ty(int(root[3:])) if root.startswith('arg') else ''
            ok = root.startswith('arg') and not ty.startswith('&')
            why = 'get_mut on the value of an entry that is not owned by value (root %s: %s)' % (root, ty)
        elif name == 'into_inner':
            kind = 'owned-move'
            ok = True
            # by-value self only
            ok = b.arg_count >= 1 and not b.local_ty(1).startswith('&')
            why = 'into_inner on an entry that is not owned'
        else:
            ok = False
            why = 'unclassified access to EntryStorage.value through UnsafeCell::%s' % name
            kind = 'unclassified'
        seen_kinds.append(kind)
        R1.check(ok, cfg, fn, 'value-access:%s:%s' % (name, kind), '%s (access path %s)' % (why, ap), c.loc(), kind=kind)
    R1.note(cfg, sites=len(sites), kinds=sorted(seen_kinds))
    want = {'read', 'get', 'write', 'owned-mut', 'owned-move'} if hr else {'no-reloading', 'owned-move'}
    for k in sorted(want - set(seen_kinds)):
        R1.missing(cfg, 'value access of kind ' + k)
    # raw field addresses that bypass UnsafeCell methods
    for b in F.fn_bodies():
        for bb, j, s in b.assigns():
            rv = s['rv']
            if rv['k'] == 'rawptr':
                for e in rv['place']['p']:
                    if isinstance(e, dict) and e.get('n') == 'value' and e.get('of') == ES:
                        R1.bad(cfg, b.path, 'raw-address-of-value', 'raw pointer to EntryStorage.value taken outside the classified sites', '%s:%s' % (b.file, s['line']))


def r2(R2, cfg, F):
    n = 0
    for b in F.fn_bodies():
        for bb, j, s in b.assigns():
            rv = s['rv']
            if rv['k'] != 'aggregate' or rv.get('adt') != 'entry::AssetReadGuard':
                continue
            n += 1
            if 'guard' not in rv['fields']:
                R2.bad(cfg, b.path, 'guard-field-missing', 'AssetReadGuard has no guard field although hot-reloading is on', '%s:%s' % (b.file, s['line']))
                continue
            gop = rv['ops'][rv['fields'].index('guard')]
            # every value that can reach the field is: the result of lock.read() (possibly in Some(..)), None (static entry:
            # R1 decides when that is allowed), or the guard of an AssetReadGuard consumed by value
            def is_read(site):
                return bool(site.callee and re.search(r'utils::private::RwLock::<T>::read$', site.callee.best))

            def fine(root, depth=0):
                if root[0] == 'call':
                    return any(is_read(x) for x in b.calls() if x.bb == root[1])
                if root[0] == 'arg':
                    ty = b.local_ty(root[1])
                    return 'entry::AssetReadGuard' in ty and not ty.startswith('&')
                if root[0] == 'agg' and depth < 3:
                    a = b.blocks[root[1]]['stmts'][root[2]]['rv']
                    if a.get('adt') == 'std::option::Option':
                        if a.get('variant_name') == 'None':
                            # no guard: only for an entry that has no lock at all (`self.dynamic` is None on this path)
                            return any(g[3][0] == 'discr' and common.strip_refs(common.deep_path(b, g[3][1])) == ['arg1', 'dynamic'] and common.guard_variant(b, g) == 0
                                       for g in common.guards_of(b, root[1]))
                        return all(fine(r, depth + 1) for r in b.origins(a['ops'][0]))
                return False
            roots = b.origins(gop)
            ok = bool(roots) and all(fine(r) for r in roots)
            ap = sorted(roots)
            R2.check(ok, cfg, b.path, 'guard-travels', 'the `guard` of a constructed AssetReadGuard must be a fresh lock.read() on the entry or the guard of the consumed AssetReadGuard; it comes from %s' % ap,
                     '%s:%s' % (b.file, s['line']))
    # try_map returns the original guard on None
    b = F.one(r"^entry::AssetReadGuard::<'a, T>::try_map$")
    if not b:
        R2.missing(cfg, 'AssetReadGuard::try_map')
    else:
        errs = [s for _, _, s in b.assigns() if s['rv']['k'] == 'aggregate' and s['rv'].get('variant_name') == 'Err']
        ok = len(errs) == 1 and b.access_path(errs[0]['rv']['ops'][0]) == ['arg1']
        R2.check(ok, cfg, b.path, 'Err-returns-original', 'try_map must give the original guard back when the closure returns None', b.loc())


def r3(R3, R4, cfg, F):
    # the writer is found by what it does (it calls swap_any), not by its name
    callers = F.callers_of(r'^entry::swap_any$')
    R4.check(len(callers) == 1, cfg, 'entry::swap_any', 'single-caller', 'swap_any must have exactly one caller (the writer); callers: %s' % callers)
    if len(callers) != 1:
        return
    b = F.body(callers[0])
    wg = [c for c in b.calls() if c.callee and re.search(r'utils::private::RwLock::<T>::write$', c.callee.best)]
    sw = [c for c in b.calls() if c.callee and c.callee.best == 'entry::swap_any']
    inc = [c for c in b.calls() if c.callee and c.callee.best == 'entry::AtomicReloadId::increment']
    if not inc and not F.body('entry::AtomicReloadId::increment'):
        # (the one-line helper written into the writer: `d.reload.0.fetch_add(1, ..)`; C18.R3 checks its operands)
        inc = [c for c in b.calls() if c.callee and c.callee.name == 'fetch_add' and 'atomic::Atomic' in c.callee.best and 'reload' in (b.access_path(c.args[0]) or [])]
    st = [c for c in b.calls() if c.callee and c.callee.name == 'store' and 'Atomic::<bool>' in c.callee.best]
    if len(wg) != 1 or len(sw) != 1 or len(inc) != 1 or len(st) != 1:
        R3.unrecognised(cfg, b.path, 'one lock.write(), one swap_any, one increment, one store (found %d,%d,%d,%d)' % (len(wg), len(sw), len(inc), len(st)), b.loc())
        return
    wg, sw, inc, st = wg[0], sw[0], inc[0], st[0]
    ap = b.access_path(wg.args[0])
    lock_is_dynamic = any(s['rv']['k'] == 'ref' and [e for e in s['rv']['place']['p'] if isinstance(e, dict) and e.get('n') == 'lock' and e.get('of') == 'entry::Dynamic']
                          for d in b.defs_of(wg.args[0]['place']['l']) if d[0] == 'stmt' for s in [d[3]]) if wg.args[0]['k'] in ('copy', 'move') else False
    R3.check(bool(ap) and ap[0].startswith('arg') and ap[-2:] == ['lock', '&'] and lock_is_dynamic, cfg, b.path, 'locks-own-entry-lock',
             'the writer must take the write lock of an entry\'s Dynamic (….dynamic.lock); takes %s' % ap, wg.loc())
    reg = b.region_of(wg)
    for nm, c in (('swap_any', sw), ('increment', inc), ('store(reload_global)', st)):
        R3.check((c.bb, c.idx) in reg, cfg, b.path, 'inside-write-guard:' + nm,
                 '`%s` executes outside the live range of the write guard (the guard is dropped or never bound before it)' % nm, c.loc())
    R3.check(b.dominates(wg.bb, sw.bb) and b.dominates(sw.bb, inc.bb) and b.dominates(inc.bb, st.bb) and len({wg.bb, sw.bb, inc.bb, st.bb}) == 4,
             cfg, b.path, 'order:lock<swap<increment<store', 'the writer must lock, swap, bump the reload id, then raise the global flag, in that order', sw.loc())
    # the id/flag belong to the same Dynamic as the lock
    api, aps = b.access_path(inc.args[0]), b.access_path(st.args[0])
    if api and api[-3:] == ['reload', '0', '&']:
        api = api[:-2] + ['&']
    base = ap[:-2] if ap else None
    R3.check(bool(api) and bool(aps) and api[:-2] == base and aps[:-2] == base and api[-2] == 'reload' and aps[-2] == 'reload_global', cfg, b.path,
             'counters-of-the-locked-entry', 'reload id / global flag updated are not those of the locked entry (%s, %s vs %s)' % (api, aps, ap), inc.loc())
    val = enum_const_true(b, st)
    R3.check(val, cfg, b.path, 'store(true)', 'reload_global must be set to true by the writer', st.loc())
    # guard dropped on all exits from the region
    exits = set(b.return_blocks()) | set(b.resume_blocks())
    leak = sorted(bb for bb, idx in reg if bb in exits and idx == len(b.blocks[bb]['stmts']))
    R3.check(bool(reg) and not leak, cfg, b.path, 'guard-released-on-every-exit', 'a path leaves the writer with the write guard still held (blocks %s)' % leak, wg.loc())
    # swap operands: self.value and the incoming entry's value
    a0 = b.call_roots(sw.args[0], passthrough=pt_deref)
    a1 = b.call_roots(sw.args[1], passthrough=pt_deref)
    n0 = [(r.callee.name, (b.access_path(r.args[0]) or ['?'])[0]) for r in a0]
    n1 = [(r.callee.name, (b.access_path(r.args[0]) or ['?'])[0]) for r in a1]
    def by_value_entry(a):
        return a.startswith('arg') and b.local_ty(int(a[3:])) == 'entry::CacheEntry'
    R3.check(len(n0) == 1 and len(n1) == 1 and n0[0] == ('get', 'arg1') and n1[0][0] == 'get_mut' and by_value_entry(n1[0][1]), cfg, b.path, 'swaps-self-with-new', 'swap_any must exchange self.value with the new entry\'s value; operands %s / %s' % (n0, n1), sw.loc())
    # R4: the writer is reachable only from UntypedHandle::write <- AnyCache::reload_untyped
    up = set()
    work = [b.path]
    g = F.call_graph()
    rev = {}
    for s_, ts in g.items():
        for t_ in ts:
            rev.setdefault(t_, set()).add(s_)
    while work:
        f = work.pop()
        for p_ in rev.get(f, ()):
            if p_ not in up and not p_.startswith('anycache::AnyCache'):
                up.add(p_)
                work.append(p_)
    R4.check(up <= {'entry::UntypedHandle::write', 'entry::EntryStorage::<(dyn std::any::Any + std::marker::Send + std::marker::Sync + \'static)>::write'} and 'entry::UntypedHandle::write' in (up | {b.path}),
             cfg, b.path, 'writer-reached-only-through-UntypedHandle::write', 'functions between the writer and AnyCache: %s' % sorted(up))


def enum_const_true(b, st):
    a = st.args[1]
    return a['k'] == 'const' and a.get('text') == 'true'


def sig_inputs(F, path):
    f = F.fns.get(path)
    return f['inputs'] if f else None


def r5(R5, cfg, F):
    P = 'hot_reloading::paths::'
    # CacheKind::Static constructed only in use_static_ref
    cons = []
    for b in F.fn_bodies():
        for bb, j, s in b.assigns():
            rv = s['rv']
            if rv['k'] == 'aggregate' and rv.get('adt') == P + 'CacheKind' and rv.get('variant_name') == 'Static':
                cons.append(b.path)
    R5.check(cons == [P + 'HotReloadingData::use_static_ref'], cfg, P + 'CacheKind::Static', 'constructed-only-in-use_static_ref',
             'CacheKind::Static may be constructed only in use_static_ref; constructed in %s' % cons)
    callers = F.callers_of(r'HotReloadingData::use_static_ref$')
    R5.check(callers == ['hot_reloading::hot_reloading_thread'], cfg, P + 'HotReloadingData::use_static_ref', 'callers={hot_reloading_thread}', 'callers: %s' % callers)
    th = F.body('hot_reloading::hot_reloading_thread')
    if not th:
        R5.missing(cfg, 'hot_reloading_thread')
        return
    us = [c for c in th.calls() if c.callee and c.callee.name == 'use_static_ref']
    ok = False
    if len(us) == 1:
        a1, a2 = th.access_path(us[0].args[1]), th.access_path(us[0].args[2])
        ok = bool(a1) and bool(a2) and 'as:Static' in a1 and 'as:Static' in a2 and a1[0].startswith('call@bb') and a1[0] == a2[0]
    R5.check(ok, cfg, th.path, 'use_static_ref-gets-the-Static-message-payload', 'use_static_ref must receive the payload of a CacheMessage::Static', us[0].loc() if us else th.loc())
    mcons = []
    for b in F.fn_bodies():
        for bb, j, s in b.assigns():
            rv = s['rv']
            if rv['k'] == 'aggregate' and rv.get('adt') == 'hot_reloading::CacheMessage' and rv.get('variant_name') == 'Static':
                mcons.append(b.path)
    R5.check(mcons == ['hot_reloading::HotReloader::send_static'], cfg, 'hot_reloading::CacheMessage::Static', 'constructed-only-in-send_static', 'constructed in %s' % mcons)
    si = sig_inputs(F, 'hot_reloading::HotReloader::send_static') or []
    R5.check(len(si) == 2 and all(x.startswith("&'static ") for x in si), cfg, 'hot_reloading::HotReloader::send_static', "takes-&'static-self-and-&'static-map",
             'send_static must require \'static references; signature inputs %s' % si)
    callers = F.callers_of(r'HotReloader::send_static$')
    R5.check(callers == ['cache::AssetCache::<S>::enhance_hot_reloading'], cfg, 'hot_reloading::HotReloader::send_static', 'callers={enhance_hot_reloading}', 'callers: %s' % callers)
    ei = sig_inputs(F, 'cache::AssetCache::<S>::enhance_hot_reloading') or []
    R5.check(len(ei) == 1 and ei[0].startswith("&'static "), cfg, 'cache::AssetCache::<S>::enhance_hot_reloading', "takes-&'static-self", 'signature inputs %s' % ei)
    # who runs an update pass, and in which mode: update_if_static only when the cache kind is Static, update_if_local and
    # use_static_ref only when it is Local; nothing else reloads (the pass itself may be a free function, a method, or
    # written in each of them: common.update_passes)
    ups = common.update_passes(F)
    want = {P + 'HotReloadingData::update_if_static': 'Static', P + 'HotReloadingData::update_if_local': 'Local', P + 'HotReloadingData::use_static_ref': 'Local'}
    R5.check(sorted(ups) == sorted(want), cfg, P + 'run_update', 'callers={update_if_local,update_if_static,use_static_ref}',
             'an update pass (DepsGraph::reload of the sorted change set) may be run only by update_if_local, update_if_static and use_static_ref; it is run by %s' % sorted(ups))
    for fn, variant in sorted(want.items()):
        b = ups.get(fn)
        if not b:
            R5.missing(cfg, fn)
            continue
        sites = [c for c in b.calls() if c.callee and c.callee.best in (common.RELOAD, common.TOPO)]
        idx = {'Local': 0, 'Static': 1}[variant]
        ok = bool(sites)
        # every test of `self.cache` in the function (the paths that name it), then: the site is guarded by the wanted
        # kind -- directly, or through `matches!(self.cache, ..)` bound to a flag
        cpaths = []
        for bb, t in b.terms():
            if t['k'] == 'switch' and not b.blocks[bb]['cleanup']:
                tst = common.switch_test(b, bb)
                if tst and tst[0] == 'discr':
                    dp = common.deep_path(b, tst[1])
                    if common.strip_refs(dp)[-1:] == ['cache'] and dp not in cpaths:
                        cpaths.append(dp)
        for c in sites:
            ok = ok and bool(cpaths) and common.guarded_by_variant(b, c.bb, cpaths, idx) and not common.guarded_by_variant(b, c.bb, cpaths, 1 - idx)
        R5.check(ok, cfg, fn, 'run_update-only-in-%s-mode' % variant, '%s must run the update only when the cache kind is %s' % (fn.split('::')[-1], variant), b.loc())
    he = F.body(P + 'HotReloadingData::handle_events')
    if not he:
        R5.missing(cfg, 'handle_events')
    else:
        reach = F.reach([he.path])
        direct = [c.callee.best for u in F.unit(he) for c in u.calls() if c.callee and c.callee.best in (common.RUN_UPDATE, common.RELOAD, common.TOPO, P + 'HotReloadingData::update_if_local')]
        R5.check(not direct and (P + 'HotReloadingData::update_if_local') not in reach, cfg, he.path, 'events-update-only-via-update_if_static',
                 'handle_events must update only through update_if_static (no reload in Local mode outside hot_reload); calls %s' % direct, he.loc())
    cul = F.callers_of(r'HotReloadingData::update_if_local$')
    R5.check(cul == ['hot_reloading::hot_reloading_thread'], cfg, P + 'HotReloadingData::update_if_local', 'callers={hot_reloading_thread}', 'callers: %s' % cul)
    # hot_reload waits: reload() sends Ptr(.., token) and on Ok waits for that token
    rl = F.body('hot_reloading::HotReloader::reload')
    if not rl:
        R5.missing(cfg, 'HotReloader::reload')
    else:
        ok, why_rl = common.reload_waits_for_own_token(rl)
        if ok:
            snd = [c for c in rl.calls() if c.callee and c.callee.best == 'crossbeam_channel::Sender::<T>::send']
            msg = [s for s in agg_of(rl, snd[0].args[1]) if s['rv'].get('variant_name') == 'Ptr']
            mp = [c for c in rl.calls() if c.args and rl.access_path(c.args[0]) == ['arg2']] if msg else []
            # the map sent is the one reload was given (the pointer may sit in a private struct that groups the request)
            from mir import agg_direct as _ad
            ops_ = list(msg[0]['rv']['ops']) if msg else []
            for o_ in list(ops_):
                sub_ = _ad(rl, o_) if o_.get('k') in ('copy', 'move') else None
                if sub_ is not None:
                    ops_ += sub_['rv'].get('ops') or []
            ok = bool(mp) and any((common.deep_path(rl, o_) or [''])[0] == 'call@bb%d' % mp[0].bb for o_ in ops_)
        R5.check(ok, cfg, rl.path, 'waits-for-own-token-after-successful-send', 'reload must wait for the answer carrying the token it just sent, on every path after a successful send', rl.loc())
    # reloader: notify(token) after update_if_local returns
    ul = [c for c in th.calls() if c.callee and c.callee.name == 'update_if_local']
    nt = [c for c in th.calls() if c.callee and c.callee.best == 'hot_reloading::Answers::notify']
    ok = len(ul) == 1 and len(nt) >= 1
    if ok:
        ok = any(th.dominates(ul[0].bb, n.bb) and n.bb in th.reachable([ul[0].target]) for n in nt if ul[0].target is not None)
        a = common.deep_path(th, nt[0].args[1], at=nt[0].bb)
        ok = ok and bool(a) and 'as:Ptr' in a
    R5.check(ok, cfg, th.path, 'answers-after-update_if_local', 'the reloader must answer the token of the Ptr message after update_if_local returned', ul[0].loc() if ul else th.loc())


def r7(R7, cfg, F):
    """AssetReadGuard { value: &'a T, guard } -- `value` outlives the guard as far as the type system knows.  Reading the field
    is the guard's own business (Deref, map / try_map, Debug ..); any other function that projects it can keep the
    reference after the lock is released (`let v: &T = handle.read().value; v.clone()` reads without the lock)."""
    n = 0
    for b in F.fn_bodies():
        own = bool(re.search(r"(^|<)entry::AssetReadGuard<", b.path) or b.path.startswith("entry::AssetReadGuard::"))
        for bb, j, st in b.assigns():
            rv = st['rv']
            places = []
            if rv['k'] in ('use',) and rv['op'].get('k') in ('copy', 'move'):
                places.append(rv['op']['place'])
            elif rv['k'] in ('ref', 'rawptr', 'discr'):
                places.append(rv['place'])
            for pl in places:
                for e in pl['p']:
                    if isinstance(e, dict) and e.get('n') == 'value' and e.get('of') == 'entry::AssetReadGuard':
                        n += 1
                        R7.check(own, cfg, b.path, 'guard.value-read-only-by-the-guard', '`%s` reads the `value` field of an AssetReadGuard: the reference can be used after the guard (and its read lock) is gone' % b.path,
                                 '%s:%s' % (b.file, st.get('line')))
        for c in b.calls():
            for a in c.args:
                if a.get('k') in ('copy', 'move') and any(isinstance(e, dict) and e.get('n') == 'value' and e.get('of') == 'entry::AssetReadGuard' for e in a['place']['p']):
                    n += 1
                    R7.check(own, cfg, b.path, 'guard.value-read-only-by-the-guard', '`%s` passes the `value` field of an AssetReadGuard on: the reference can be used after the guard is gone' % b.path, c.loc())
    if n == 0:
        R7.missing(cfg, 'reads of AssetReadGuard.value (Deref, map)')


def r6(R6, cfg, F):
    """`F: FnOnce(&T) -> &U` must be `for<'x> FnOnce(&'x T) -> &'x U`: with the guard's own lifetime 'a instead, safe code
    could store the closure argument, drop the guard and keep a lock-free reference to a value that reloads rewrite."""
    for fn, out_rx in (('map', r"^for<'(\w+)> <F as std::ops::FnOnce<\(&'\1 T,\)>>::Output == &'\1 U$"),
                       ('try_map', r"^for<'(\w+)> <F as std::ops::FnOnce<\(&'\1 T,\)>>::Output == std::option::Option<&'\1 U>$")):
        p = "entry::AssetReadGuard::<'a, T>::" + fn
        f = F.fns.get(p)
        if not f:
            R6.missing(cfg, p)
            continue
        preds = f.get('predicates', [])
        hr_in = [x for x in preds if re.match(r"^for<'(\w+)> F: FnOnce\(&'\1 T\)$", x)]
        hr_out = [x for x in preds if re.match(out_rx, x)]
        plain = [x for x in preds if re.search(r'F: .*FnOnce|F as std::ops::FnOnce', x) and not x.startswith('for<')]
        R6.check(len(hr_in) == 1 and len(hr_out) == 1 and not plain, cfg, p, 'closure-bound-is-higher-ranked',
                 'the closure of AssetReadGuard::%s must be `for<\'x> FnOnce(&\'x T) -> ...&\'x U`; its bounds are %s: the mapped reference can outlive the guard' % (fn, [x for x in preds if 'F' in x]),
                 '%s:%s' % (f['file'], f['line']))
