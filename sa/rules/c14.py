"""C14 -- dependencies are attributed to the asset being loaded, and only to it.
Structural clauses (DESIGN.md section 4, C14)."""
import re

from c09 import r1 as nesting_discipline
import common
from common import user_call_kind

LEVEL = 'other'
EXPLANATION = (
    'Who-may-access, dominance and guarded-insert rules over the MIR of every hot-reloading configuration: (R1) '
    'RECORDING is a #[thread_local] static holding Cell<Option<NonNull<Record>>> and is named only inside '
    'hot_reloading::records; (R2 = C09.R1) record/no_record install Some(fresh Record)/None through a CellGuard that '
    'is restored on normal and unwind exits, and record returns the dependencies of its own Record; (R3) every '
    'Record::insert_* inserts only on the true edge of the reloader pointer comparison; (R4) the asset dependency '
    'is recorded (get_cached_entry_inner / add_record) before the nested load starts, and load_and_record starts a '
    'nested recording exactly when the type is hot-reloaded and a reloader exists; (R5) Record::insert_* is called '
    'only from the three add_*record functions, which are called only from the Cache impl. Necessary conditions '
    'only: "exactly these assets reload" is behaviour.')
TRUSTED = ['rustc MIR construction', 'std::thread_local: one instance per thread', 'amfacts driver + rule engine in /verif/sa']

REC = 'hot_reloading::records::'


def run(ctx):
    rep = ctx.report
    R1 = rep.rule('C14.R1', 'RECORDING is thread-local and is named only inside hot_reloading::records', floor=2)
    R2 = rep.rule('C09.R1', 'nesting discipline of record / no_record (shared with C09)', floor=5)
    R3 = rep.rule('C14.R3', 'Record::insert_* inserts only for the recording cache (reloader pointer equality)', floor=3)
    R4 = rep.rule('C14.R4', 'the outer asset depends on the nested asset: the asset record dominates the nested load; nested recording iff hot-reloaded and reloader present', floor=4)
    R5 = rep.rule('C14.R5', 'who-may-record: insert_* <- add_*record <- Cache impl only', floor=6)
    R6 = rep.rule('C14.R6', 'a file dependency is (id, ext) in that order on the recording side and on the event side', floor=4)
    for cfg, F in ctx.hr_cfgs():
        r6(R6, cfg, F)
        R6.finish_cfg(cfg)
        r1(R1, cfg, F)
        nesting_discipline(R2, cfg, F)
        r3(R3, cfg, F)
        r4(R4, cfg, F)
        r5(R5, cfg, F)
        for r in (R1, R2, R3, R4, R5):
            r.finish_cfg(cfg)


def r1(R1, cfg, F):
    st = F.statics.get(REC + 'RECORDING')
    if not st:
        # thread_local! with a const initialiser expands to a nested static; look for any static under records
        cands = [s for p, s in F.statics.items() if p.startswith(REC) and 'Record' in s['ty']]
        st = cands[0] if len(cands) == 1 else None
    consts = [c for p, c in F.consts.items() if p == REC + 'RECORDING']
    ok = False
    ty = ''
    if consts:
        ty = consts[0]['ty']
        ok = bool(re.match(r'^std::thread::LocalKey<std::cell::Cell<std::option::Option<std::ptr::NonNull<hot_reloading::records::Record>>>>$', ty))
        inner = [s for p, s in F.statics.items() if p.startswith(REC + 'RECORDING')]
        ok = ok and all(s['thread_local'] for s in inner)
    elif st:
        ty = st['ty']
        ok = st['thread_local']
    R1.check(ok, cfg, REC + 'RECORDING', 'thread_local-Cell<Option<NonNull<Record>>>', 'RECORDING must be a thread_local! of type Cell<Option<NonNull<Record>>>; found `%s`' % ty)
    users = set()
    for b in list(F.bodies.values()):
        if b.kind not in ('Fn', 'AssocFn', 'Closure'):
            continue
        for i, blk in enumerate(b.blocks):
            for s in blk['stmts']:
                if s['k'] == 'assign' and 'records::RECORDING' in str(s['rv']):
                    users.add(b.owner)
            t = blk['term']
            if t['k'] == 'call' and 'records::RECORDING' in str(t['args']) + str(t['func'].get('text', '')):
                users.add(b.owner)
    outside = sorted(u for u in users if not u.startswith(REC))
    R1.check(bool(users) and not outside, cfg, REC + 'RECORDING', 'named-only-in-records', 'RECORDING is used outside hot_reloading::records: %s' % outside)


def r3(R3, cfg, F):
    for kind in ('asset', 'file', 'dir'):
        b = F.body(REC + 'Record::insert_' + kind)
        if not b:
            R3.missing(cfg, 'Record::insert_' + kind)
            continue
        eq = [c for c in b.calls() if c.callee and c.callee.name == 'eq' and 'const_ptr' in c.callee.best]
        ins = [c for c in b.calls() if c.callee and c.callee.name == 'insert' and 'HashSet' in c.callee.best]
        ok = len(eq) == 1 and len(ins) == 1
        if ok:
            a0, a1 = b.access_path(eq[0].args[0]), b.access_path(eq[0].args[1])
            ok = a0 == ['arg1', '*', 'reloader', '&'] and b.origins(eq[0].args[1]) == {('arg', 2)}
            sw = [bb for bb, t in b.terms() if t['k'] == 'switch' and b.access_path(t['discr']) == ['call@bb%d' % eq[0].bb]]
            ok = ok and len(sw) == 1
            if ok:
                true = [d for d, lab in b.edges(sw[0]) if lab != 'sw:0']
                ok = len(true) == 1 and ins[0].bb not in b.reachable([0], removed_edges=[(sw[0], true[0])])
                dm = b.call_roots(ins[0].args[0])
                ok = ok and len(dm) == 1 and 'records' in (b.access_path(dm[0].args[0]) or []) and (b.access_path(dm[0].args[0]) or [''])[0] == 'arg1'
        R3.check(ok, cfg, b.path, 'insert-guarded-by-reloader-identity', 'a dependency must be recorded only when the recording cache is the cache being read (self.reloader == reloader)', b.loc())
    nb = F.body(REC + 'Record::new')
    if nb:
        ag = [s for _, _, s in nb.assigns() if s['rv']['k'] == 'aggregate' and s['rv'].get('adt') == REC + 'Record']
        ok = len(ag) == 1 and nb.origins(dict(zip(ag[0]['rv']['fields'], ag[0]['rv']['ops']))['reloader']) == {('arg', 1)}
        R3.check(ok, cfg, nb.path, 'record-remembers-its-reloader', 'Record::new must remember the reloader it was created for', nb.loc())
    else:
        R3.missing(cfg, 'Record::new')


def r4(R4, cfg, F):
    b = F.body('<T as anycache::Cache>::load_entry')
    if b:
        g = [c for c in b.calls() if c.callee and c.callee.name == 'get_cached_entry_inner']
        a = [c for c in b.calls() if c.callee and c.callee.name == 'add_asset']
        ok = len(g) == 1 and len(a) == 1 and b.dominates(g[0].bb, a[0].bb)
        R4.check(ok, cfg, b.path, 'lookup(records asset dep)-dominates-load', 'load_entry must go through get_cached_entry_inner (which records the asset dependency for the outer load) before loading', b.loc())
    else:
        R4.missing(cfg, 'Cache::load_entry')
    b = F.body('<T as anycache::Cache>::get_cached_entry_inner')
    if b:
        ar = [c for c in b.calls() if c.callee and c.callee.best == REC + 'add_record']
        ok = len(ar) == 1
        if ok:
            # add_record exactly on (hot-reloaded AND reloader present), whether the entry is present or absent
            ok, _why = common.runs_iff_hot_reloaded_and_reloader(b, ar[0])
            ok = ok and common.deep_path(b, ar[0].args[2]) == ['arg3', 'type_id']
        R4.check(ok, cfg, b.path, 'records-asset-dep-present-or-absent', 'get_cached must record the (id,type) dependency whether or not the entry exists, exactly when the type is hot-reloaded and a reloader exists', b.loc())
    else:
        R4.missing(cfg, 'Cache::get_cached_entry_inner')
    b = F.body('<T as anycache::Cache>::load_owned_entry')
    if b:
        ar = [c for c in b.calls() if c.callee and c.callee.best == REC + 'add_record']
        ld = [c for c in b.calls() if c.callee and c.callee.best == 'asset::load_and_record']
        ok = len(ar) == 1 and len(ld) == 1 and ld[0].bb in b.reachable([ar[0].bb]) and not b.dominates(ld[0].bb, ar[0].bb)
        R4.check(ok, cfg, b.path, 'records-asset-dep-before-owned-load', 'load_owned must record the asset dependency for the outer load before running the nested load', b.loc())
    else:
        R4.missing(cfg, 'Cache::load_owned_entry')
    b = F.body('asset::load_and_record')
    if b:
        ok, why_rec, rc_ = common.records_iff_hot_reloaded_and_reloader(b, REC + 'record')
        if ok:
            # the un-recorded direct load is not reachable once both conditions hold: it lives on the other arms only
            direct = [c for c in b.calls() if user_call_kind(c) == 'indirect']
            g = common.guards_of(b, rc_.bb)
            removed = [(sw, o) for sw, d, _, _ in g for o, _ in b.edges(sw) if o != d]
            ok = len(direct) == 1 and direct[0].bb not in b.reachable([0], removed_edges=removed)
        R4.check(ok, cfg, b.path, 'nested-recording-iff-hot-reloaded-and-reloader', 'load_and_record must run the load inside records::record exactly when the type is hot-reloaded and the cache has a reloader (otherwise the reads belong to the outer record)', b.loc())
    else:
        R4.missing(cfg, 'asset::load_and_record')


def r5(R5, cfg, F):
    pairs = (('insert_asset', 'add_record'), ('insert_file', 'add_file_record'), ('insert_dir', 'add_dir_record'))
    for ins, add in pairs:
        cs = sorted({c.body.root if c.body.kind == 'Closure' else c.body.path for c in F.calls_to('^' + re.escape(REC + 'Record::' + ins) + '$')})
        R5.check(cs == [REC + add], cfg, REC + 'Record::' + ins, 'callers={%s}' % add, 'Record::%s may be called only from %s; callers %s' % (ins, add, cs))
        ca = sorted({c.body.path for c in F.calls_to('^' + re.escape(REC + add) + '$')})
        allowed = {'<T as anycache::Cache>::read', '<T as anycache::Cache>::read_dir', '<T as anycache::Cache>::get_cached_entry_inner', '<T as anycache::Cache>::load_owned_entry'}
        R5.check(bool(ca) and set(ca) <= allowed, cfg, REC + add, 'called-only-from-Cache-impl', '%s may be called only from the Cache impl; callers %s' % (add, ca))
        # the closure records into the *current* thread's recorder only
        cb = F.body(REC + add + '::{closure#0}')
        if cb:
            gt = [c for c in cb.calls() if c.callee and c.callee.best == 'std::cell::Cell::<T>::get']
            call = [c for c in cb.calls() if c.callee and c.callee.best == REC + 'Record::' + ins]
            ok = len(gt) == 1 and len(call) == 1 and cb.access_path(gt[0].args[0]) == ['arg2']
            if ok:
                src = cb.downcast_source({'k': 'copy', 'place': {'l': cb.call_roots(call[0].args[0])[0].args[0]['place']['l'], 'p': []}}) if cb.call_roots(call[0].args[0]) else None
                r = cb.call_roots(call[0].args[0])
                ok = len(r) == 1 and r[0].callee.name == 'as_mut'
            R5.check(ok, cfg, cb.path, 'records-into-current-thread-recorder', '%s must add to the recorder found in this thread\'s RECORDING cell' % add, cb.loc())
        else:
            R5.missing(cfg, REC + add + '::{closure#0}')


def r6(R6, cfg, F):
    """Dependency::File(id, ext): both components are SharedStrings, so swapping them type-checks and makes every
    look-up of a notified file miss."""
    b = F.body(REC + 'Record::insert_file')
    if not b:
        R6.missing(cfg, 'Record::insert_file')
    else:
        ag = [s for _, _, s in b.assigns() if s['rv']['k'] == 'aggregate' and s['rv'].get('adt') == REC + 'Dependency' and s['rv'].get('variant_name') == 'File']
        ok = len(ag) == 1 and [b.origins(o) for o in ag[0]['rv']['ops']] == [{('arg', 3)}, {('arg', 4)}]
        sig = F.fns.get(b.path, {})
        R6.check(ok, cfg, b.path, 'File(id,ext)=(arg id, arg ext)', 'insert_file(reloader, id, ext) must record Dependency::File(id, ext) in that order', b.loc())
    cb = F.body(REC + 'add_file_record::{closure#0}')
    ob = F.body(REC + 'add_file_record')
    if not cb or not ob:
        R6.missing(cfg, 'add_file_record')
    else:
        call = [c for c in cb.calls() if c.callee and c.callee.best == REC + 'Record::insert_file']
        lit = [s for _, _, s in ob.assigns() if s['rv']['k'] == 'aggregate' and s['rv'].get('closure') == cb.path]
        ok = len(call) == 1 and len(lit) == 1
        if ok:
            from common import make_pt
            pt = make_pt(r'Into<U>>::into$')
            ups = [cb.origins(call[0].args[i], passthrough=pt) for i in (1, 2, 3)]
            caps = [ob.origins(o) for o in lit[0]['rv']['ops']]
            def cap_of(u):
                u = list(u)
                return caps[u[0][1]] if len(u) == 1 and u[0][0] == 'upvar' and u[0][1] < len(caps) else None
            ok = [cap_of(u) for u in ups] == [{('arg', 1)}, {('arg', 2)}, {('arg', 3)}]
        R6.check(ok, cfg, ob.path, 'passes-(reloader,id,ext)-in-order', 'add_file_record(reloader, id, ext) must hand (reloader, id, ext) to insert_file in that order', ob.loc())
    rb = F.body('<T as anycache::Cache>::read')
    if rb:
        ar = [c for c in rb.calls() if c.callee and c.callee.best == REC + 'add_file_record']
        sr = [c for c in rb.calls() if c.callee and c.callee.defp == 'source::Source::read']
        ok = len(ar) == 1 and len(sr) == 1 and [rb.access_path(a) for a in ar[0].args[1:3]] == [['arg2'], ['arg3']] and [rb.access_path(a) for a in sr[0].args[1:3]] == [['arg2'], ['arg3']]
        R6.check(ok, cfg, rb.path, 'records-(id,ext)-as-read', 'Cache::read(id, ext) must record and read (id, ext) in the same order', rb.loc())
    ab = F.body('source::OwnedDirEntry::as_dependency')
    if not ab:
        R6.missing(cfg, 'OwnedDirEntry::as_dependency')
    else:
        sw = ab.primary_switch(1)
        oadt, badt = F.adt('source::OwnedDirEntry'), F.adt(REC + 'BorrowedDependency')
        ok = sw is not None and oadt is not None
        pairs = []
        if ok:
            for v in oadt['variants']:
                t_ = ab.variant_edge(sw, v['idx'])
                ags = [s for s in ab.blocks[t_]['stmts'] if s['k'] == 'assign' and s['place']['l'] == 0 and s['rv']['k'] == 'aggregate']
                if len(ags) != 1:
                    ok = False
                    continue
                fields = []
                for o in ags[0]['rv']['ops']:
                    l = o['place']['l']
                    fld = None
                    for d in ab.defs_of(l):
                        if d[0] == 'stmt' and d[3]['rv']['k'] == 'ref':
                            src = d[3]['rv']['place']
                            if src['l'] != 1:
                                for d2 in ab.defs_of(src['l']):
                                    if d2[0] == 'stmt' and d2[3]['rv']['k'] == 'ref':
                                        src = d2[3]['rv']['place']
                            fs = [e for e in src['p'] if isinstance(e, dict) and 'f' in e]
                            fld = fs[-1]['f'] if fs else None
                    fields.append(fld)
                pairs.append((v['name'], ags[0]['rv'].get('variant_name'), fields))
            ok = ok and all(a == b_ and f == list(range(len(f))) for a, b_, f in pairs) and len(pairs) == len(oadt['variants'])
        R6.check(ok, cfg, ab.path, 'event-entry->same-variant-same-field-order', 'a notified entry must be looked up as the dependency of the same kind with (id, ext) in the same positions; mapping %s' % pairs, ab.loc())
