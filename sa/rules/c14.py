"""C14 -- dependencies are attributed to the asset being loaded, and only to it.
Structural clauses (DESIGN.md section 4, C14)."""
import re

from c09 import r1 as nesting_discipline
import common
from common import user_call_kind

LEVEL = 'other'
EXPLANATION = (
    'Who-may-access, dominance and guarded-insert rules over the MIR of every hot-reloading configuration: (R1) '
    'RECORDING is a #[thread_local] static holding Cell<Option<NonNull<Record>>> and is named only inside '
    'hot_reloading::records; (R2 = C09.R1) record/no_record install Some(fresh Record)/None through a CellGuard that '
    'is restored on normal and unwind exits, and record returns the dependencies of its own Record; (R3) every '
    'Record::insert_* inserts only on the true edge of the reloader pointer comparison; (R4) the asset dependency '
    'is recorded (get_cached_entry_inner / add_record) before the nested load starts, and load_and_record starts a '
    'nested recording exactly when the type is hot-reloaded and a reloader exists; (R5) Record::insert_* is called '
    'only from the three add_*record functions, which are called only from the Cache impl. Necessary conditions '
    'only: "exactly these assets reload" is behaviour.')
TRUSTED = ['rustc MIR construction', 'std::thread_local: one instance per thread', 'amfacts driver + rule engine in /verif/sa']

REC = 'hot_reloading::records::'


def run(ctx):
    rep = ctx.report
    R1 = rep.rule('C14.R1', 'RECORDING is thread-local and is named only inside hot_reloading::records', floor=2)
    R2 = rep.rule('C09.R1', 'nesting discipline of record / no_record (shared with C09)', floor=5)
    R3 = rep.rule('C14.R3', 'a dependency is inserted into a Record only for the recording cache (reloader pointer equality)', floor=2)
    R4 = rep.rule('C14.R4', 'the outer asset depends on the nested asset: the asset record dominates the nested load; nested recording iff hot-reloaded and reloader present', floor=4)
    R5 = rep.rule('C14.R5', 'who-may-record: Record insertions <- add_*record <- Cache impl only; the record comes from this thread\'s RECORDING cell', floor=5)
    R6 = rep.rule('C14.R6', 'a file dependency is (id, ext) in that order on the recording side and on the event side', floor=2)
    R7 = rep.rule('C14.R7', 'no_record suspends recording whichever cache it is called on (the recorder belongs to the thread, not to a cache)', floor=2)
    S1 = rep.rule('C05.R1', 'an entry a load touches is recorded for it whether or not the read succeeds: the record precedes the source access (an entry that was looked for and not found is a dependency too; shared with C05)', floor=5)
    for cfg, F in ctx.hr_cfgs():
        from c05 import r1 as record_before_read
        record_before_read(S1, cfg, F)
        S1.finish_cfg(cfg)
        r6(R6, cfg, F)
        R6.finish_cfg(cfg)
        r7(R7, cfg, F)
        R7.finish_cfg(cfg)
        r1(R1, cfg, F)
        nesting_discipline(R2, cfg, F)
        r3(R3, cfg, F)
        r4(R4, cfg, F)
        r5(R5, cfg, F)
        for r in (R1, R2, R3, R4, R5):
            r.finish_cfg(cfg)


def r1(R1, cfg, F):
    st = F.statics.get(REC + 'RECORDING')
    if not st:
        # thread_local! with a const initialiser expands to a nested static; look for any static under records
        cands = [s for p, s in F.statics.items() if p.startswith(REC) and 'Record' in s['ty']]
        st = cands[0] if len(cands) == 1 else None
    consts = [c for p, c in F.consts.items() if p == REC + 'RECORDING']
    ok = False
    ty = ''
    if consts:
        ty = consts[0]['ty']
        ok = bool(re.match(r'^std::thread::LocalKey<std::cell::Cell<std::option::Option<std::ptr::NonNull<hot_reloading::records::Record>>>>$', ty))
        inner = [s for p, s in F.statics.items() if p.startswith(REC + 'RECORDING')]
        ok = ok and all(s['thread_local'] for s in inner)
    elif st:
        ty = st['ty']
        ok = st['thread_local']
    R1.check(ok, cfg, REC + 'RECORDING', 'thread_local-Cell<Option<NonNull<Record>>>', 'RECORDING must be a thread_local! of type Cell<Option<NonNull<Record>>>; found `%s`' % ty)
    users = set()
    for b in list(F.bodies.values()):
        if b.kind not in ('Fn', 'AssocFn', 'Closure'):
            continue
        for i, blk in enumerate(b.blocks):
            for s in blk['stmts']:
                if s['k'] == 'assign' and 'records::RECORDING' in str(s['rv']):
                    users.add(b.owner)
            t = blk['term']
            if t['k'] == 'call' and 'records::RECORDING' in str(t['args']) + str(t['func'].get('text', '')):
                users.add(b.owner)
    outside = sorted(u for u in users if not u.startswith(REC))
    R1.check(bool(users) and not outside, cfg, REC + 'RECORDING', 'named-only-in-records', 'RECORDING is used outside hot_reloading::records: %s' % outside)


def record_inserts(F):
    """the HashSet<Dependency>::insert calls of the recording module that act on a Record's `records` (wherever the
    module puts them: Record::insert_asset/_file/_dir today, one merged method tomorrow)"""
    out = []
    for b in F.fn_bodies():
        if not b.path.startswith(REC):
            continue
        for c in b.calls():
            if c.callee and c.callee.name == 'insert' and 'HashSet' in c.callee.best and c.args:
                recv = common.strip_refs(common.deep_path(b, c.args[0]))
                r = b.call_roots(c.args[0])
                if 'records' not in recv and len(r) == 1 and r[0].args:
                    recv = common.strip_refs(common.deep_path(b, r[0].args[0]))      # through DerefMut of Dependencies
                if 'records' in recv:
                    out.append((b, c, recv))
    return out


def _tested_equality(b, sw):
    """the two operands whose equality the switch at `sw` tests (a pointer `==`, ptr::eq, or the derived eq of a private
    newtype written in place), with the truth value that the non-zero edge stands for; None if it tests something else"""
    t = b.blocks[sw]['term']
    if t['discr']['k'] not in ('copy', 'move') or t['discr']['place']['p']:
        return None
    l, at, truth = t['discr']['place']['l'], sw, True
    for _ in range(8):
        ds = [d for d in b.defs_of(l) if d[0] in ('stmt', 'call')]
        if len(ds) > 1:
            ds = [d for d in ds if d[1] == at] or ds
        if len(ds) != 1:
            return None
        d = ds[0]
        if d[0] == 'call':
            c = d[2]
            nm = c.callee.best if c.callee else ''
            if c.callee and c.callee.name in ('eq', 'ne') and ('const_ptr' in nm or nm.endswith('ptr::eq') or c.callee.trait == 'std::cmp::PartialEq') and len(c.args) >= 2:
                return c.args[0], c.args[1], c.bb, truth if c.callee.name == 'eq' else not truth
            return None
        rv = d[3]['rv']
        if rv['k'] == 'binop' and rv.get('op') in ('Eq', 'Ne'):
            return rv['a'], rv['b'], d[1], truth if rv['op'] == 'Eq' else not truth
        if rv['k'] == 'use' and rv['op']['k'] in ('copy', 'move') and not rv['op']['place']['p']:
            l, at = rv['op']['place']['l'], d[1]
        elif rv['k'] == 'unop' and rv['a']['k'] in ('copy', 'move') and not rv['a']['place']['p']:
            l, at, truth = rv['a']['place']['l'], d[1], not truth
        else:
            return None
    return None


def r3(R3, cfg, F):
    # the field in which a Record remembers the reloader it was created for: the one Record::new fills from its parameter
    nb = F.body(REC + 'Record::new')
    idf = None
    if nb:
        ag = [s for _, _, s in nb.assigns() if s['rv']['k'] == 'aggregate' and s['rv'].get('adt') == REC + 'Record']
        if len(ag) == 1:
            for nm, op in zip(ag[0]['rv']['fields'], ag[0]['rv']['ops']):
                vb = common.value_built_from(nb, op)
                if vb == ['arg1'] or nb.origins(op) == {('arg', 1)}:
                    idf = nm
        R3.check(idf is not None, cfg, nb.path, 'record-remembers-its-reloader', 'Record::new must remember the reloader it was created for', nb.loc())
    else:
        R3.missing(cfg, 'Record::new')
    ins = record_inserts(F)
    if not ins:
        R3.missing(cfg, 'an insertion into Record.records')
    for b, c, recv in ins:
        ok = False
        for sw, tgt, lab, tst in common.guards_of(b, c.bb):
            te = _tested_equality(b, sw) if tst[0] == 'val' else None
            if te is None or (lab == 'sw:0') == te[3]:
                continue        # not an equality, or the edge on which the two differ
            sides = []
            for a in te[:2]:
                dp = common.value_built_from(b, a, at=te[2])
                sides.append((dp, a['place']['ty'] if a.get('k') in ('copy', 'move') else ''))
            mine = [x for x in sides if x[0][:1] == recv[:1] and idf is not None and idf in x[0]]
            # the other side: made from a `&HotReloader` that does not come from the record itself (a parameter, possibly captured)
            other = [x for x in sides if x not in mine and x[0] and x[0][0].startswith('arg') and (idf is None or idf not in x[0]) and x[0][:1] != recv[:1]]
            if len(mine) == 1 and len(other) == 1:
                ok = True
        R3.check(ok, cfg, b.path, 'insert-guarded-by-reloader-identity', 'a dependency must be recorded only when the recording cache is the cache being read (self.reloader == reloader)', c.loc())


def r4(R4, cfg, F):
    b = F.body('<T as anycache::Cache>::load_entry')
    if b:
        g = [c for c in b.calls() if c.callee and c.callee.name == 'get_cached_entry_inner']
        a = [c for c in b.calls() if c.callee and c.callee.name == 'add_asset']
        ok = len(g) == 1 and len(a) == 1 and b.dominates(g[0].bb, a[0].bb)
        R4.check(ok, cfg, b.path, 'lookup(records asset dep)-dominates-load', 'load_entry must go through get_cached_entry_inner (which records the asset dependency for the outer load) before loading', b.loc())
    else:
        R4.missing(cfg, 'Cache::load_entry')
    b = F.body('<T as anycache::Cache>::get_cached_entry_inner')
    if b:
        ar = [c for c in b.calls() if c.callee and c.callee.best == REC + 'add_record']
        ok = len(ar) == 1
        if ok:
            # add_record exactly on (hot-reloaded AND reloader present), whether the entry is present or absent
            ok, _why = common.runs_iff_hot_reloaded_and_reloader(b, ar[0])
            ok = ok and common.deep_path(b, ar[0].args[2]) == ['arg3', 'type_id']
        R4.check(ok, cfg, b.path, 'records-asset-dep-present-or-absent', 'get_cached must record the (id,type) dependency whether or not the entry exists, exactly when the type is hot-reloaded and a reloader exists', b.loc())
    else:
        R4.missing(cfg, 'Cache::get_cached_entry_inner')
    b = F.body('<T as anycache::Cache>::load_owned_entry')
    if b:
        ar = [c for c in b.calls() if c.callee and c.callee.best == REC + 'add_record']
        ld = [c for c in b.calls() if c.callee and c.callee.best == 'asset::load_and_record']
        ok = len(ar) == 1 and len(ld) == 1 and ld[0].bb in b.reachable([ar[0].bb]) and not b.dominates(ld[0].bb, ar[0].bb)
        if ok:
            # ... exactly when the type is hot-reloaded and the cache has a reloader (the same test as for a cached look-up)
            ok = common.runs_iff_hot_reloaded_and_reloader(b, ar[0])[0]
        R4.check(ok, cfg, b.path, 'records-asset-dep-before-owned-load', 'load_owned must record the asset dependency for the outer load before running the nested load', b.loc())
    else:
        R4.missing(cfg, 'Cache::load_owned_entry')
    b = F.body('asset::load_and_record')
    if b:
        ok, why_rec, rc_ = common.records_iff_hot_reloaded_and_reloader(b, REC + 'record')
        if ok:
            # the un-recorded direct load is not reachable once both conditions hold: it lives on the other arms only
            direct = [c for c in b.calls() if user_call_kind(c) == 'indirect']
            g = common.guards_of(b, rc_.bb)
            removed = [(sw, o) for sw, d, _, _ in g for o, _ in b.edges(sw) if o != d]
            ok = len(direct) == 1 and direct[0].bb not in b.reachable([0], removed_edges=removed)
        R4.check(ok, cfg, b.path, 'nested-recording-iff-hot-reloaded-and-reloader', 'load_and_record must run the load inside records::record exactly when the type is hot-reloaded and the cache has a reloader (otherwise the reads belong to the outer record)', b.loc())
    else:
        R4.missing(cfg, 'asset::load_and_record')


def r5(R5, cfg, F):
    adds = [REC + 'add_record', REC + 'add_file_record', REC + 'add_dir_record']
    for add in adds:
        ca = sorted({c.body.path for c in F.calls_to('^' + re.escape(add) + '$')})
        allowed = {'<T as anycache::Cache>::read', '<T as anycache::Cache>::read_dir', '<T as anycache::Cache>::get_cached_entry_inner', '<T as anycache::Cache>::load_owned_entry'}
        R5.check(bool(ca) and set(ca) <= allowed, cfg, add, 'called-only-from-Cache-impl', '%s may be called only from the Cache impl; callers %s' % (add, ca))
    # the functions that insert into a Record are reached only from the three add_*record entry points
    holders = {b.root if b.kind == 'Closure' else b.path for b, c, _ in record_inserts(F)}
    seen, work = set(holders), list(holders)
    while work:
        f = work.pop()
        if f in adds:
            continue
        for c in F.all_calls():
            if c.callee and (c.callee.best == f or c.callee.resolved == f):
                r = c.body.root if c.body.kind == 'Closure' else c.body.path
                if r not in seen:
                    seen.add(r)
                    work.append(r)
    outside = sorted(x for x in seen if not x.startswith(REC))
    tops = sorted(x for x in seen if x in adds)
    R5.check(not outside and tops == sorted(adds), cfg, REC + 'Record', 'insertions-reached-only-from-add_*record',
             'insertions into a Record must be reachable from add_record / add_file_record / add_dir_record only; also reached from %s, entry points %s' % (outside, tops))
    # the Record written is the one found in this thread's RECORDING cell: every &mut Record of the module is made by
    # NonNull::as_mut on the Some payload of Cell::get
    ams = [c for c in F.all_calls() if c.callee and c.callee.name == 'as_mut' and 'NonNull' in c.callee.best and c.body.path.startswith(REC)
           and 'records::Record' in (c.args[0]['place']['ty'] if c.args and c.args[0]['k'] in ('copy', 'move') else '')]
    if not ams:
        R5.missing(cfg, 'NonNull::<Record>::as_mut in the recording module')
    for c in ams:
        b = c.body
        ap = common.strip_refs(common.deep_path(b, c.args[0]))
        src = [x for x in b.calls() if ap and 'call@bb%d' % x.bb == ap[0]]
        ok = bool(src) and src[0].callee and src[0].callee.best == 'std::cell::Cell::<T>::get' and ap[1:3] == ['as:Some', '0']
        R5.check(ok, cfg, b.path, 'records-into-current-thread-recorder', 'the Record that is written must be the one found in this thread\'s RECORDING cell (Cell::get -> Some -> as_mut); it comes from %s' % ap, c.loc())
    # nothing else in the crate makes a `&mut Record` out of a pointer
    for b in F.fn_bodies():
        if b.path.startswith(REC):
            continue
        for c in b.calls():
            if c.callee and 'NonNull' in c.callee.best and c.callee.name in ('as_mut', 'as_ptr') and c.args and c.args[0]['k'] in ('copy', 'move') \
                    and 'records::Record' in c.args[0]['place']['ty']:
                R5.bad(cfg, b.path, 'record-pointer-used-outside-records', 'the pointer to the current Record is dereferenced outside hot_reloading::records', c.loc())


def r7(R7, cfg, F):
    """`cache.no_record(f)`: reads made by f are not recorded -- for any cache, with or without a reloader: the record
    in progress may belong to another cache used by the same load.  So the public front-ends run f through
    records::no_record unconditionally."""
    for p in ('cache::AssetCache::<S>::no_record', "anycache::AnyCache::<'a>::no_record"):
        b = F.body(p)
        if not b:
            R7.missing(cfg, p)
            continue
        nr = [c for c in b.calls() if c.callee and c.callee.best == REC + 'no_record']
        direct = [c for c in b.calls() if user_call_kind(c) == 'indirect']
        ok = len(nr) == 1 and not direct and not common.guards_of(b, nr[0].bb) and common.inevitable(b, [], nr[0].bb) \
            and b.origins(nr[0].args[0]) == {('arg', 2)} and (nr[0].dest['l'] == 0 or ('call', nr[0].bb) in b.origins(0))
        R7.check(ok, cfg, p, 'always-through-records::no_record', '%s must run its closure inside records::no_record on every path (not only when this cache has a reloader)' % p.split('::')[-2], b.loc())


def r6(R6, cfg, F):
    """Dependency::File(id, ext): both components are SharedStrings, so swapping them type-checks and makes every
    look-up of a notified file miss."""
    # wherever the recording module builds Dependency::File(a, b): a is the `id` and b the `ext` parameter of
    # add_file_record(reloader, id, ext), followed through conversions, closure captures and private helpers
    entry = REC + 'add_file_record'
    ags = []
    for b in F.fn_bodies():
        if b.path.startswith(REC) and 'into_owned' not in b.path and 'as_borrowed' not in b.path:
            for _, _, st in b.assigns():
                if st['rv']['k'] == 'aggregate' and st['rv'].get('adt') == REC + 'Dependency' and st['rv'].get('variant_name') == 'File':
                    ags.append((b, st))
    if not ags:
        R6.missing(cfg, 'a Dependency::File built in hot_reloading::records')
    for b, st in ags:
        got = [common.trace_to_entry(F, b, o, {entry}) for o in st['rv']['ops']]
        R6.check(got == [(entry, 2), (entry, 3)], cfg, b.path, 'File(id,ext)=(id, ext) of add_file_record',
                 'add_file_record(reloader, id, ext) must record Dependency::File(id, ext) in that order; the fields come from %s' % got, '%s:%s' % (b.file, st.get('line')))
    rb = F.body('<T as anycache::Cache>::read')
    if rb:
        ar = [c for c in rb.calls() if c.callee and c.callee.best == REC + 'add_file_record']
        sr = [c for c in rb.calls() if c.callee and c.callee.defp == 'source::Source::read']
        ok = len(ar) == 1 and len(sr) == 1 and [rb.access_path(a) for a in ar[0].args[1:3]] == [['arg2'], ['arg3']] and [rb.access_path(a) for a in sr[0].args[1:3]] == [['arg2'], ['arg3']]
        R6.check(ok, cfg, rb.path, 'records-(id,ext)-as-read', 'Cache::read(id, ext) must record and read (id, ext) in the same order', rb.loc())
    ab = F.body('source::OwnedDirEntry::as_dependency')
    if not ab:
        R6.missing(cfg, 'OwnedDirEntry::as_dependency')
    else:
        sw = ab.primary_switch(1)
        oadt, badt = F.adt('source::OwnedDirEntry'), F.adt(REC + 'BorrowedDependency')
        ok = sw is not None and oadt is not None
        pairs = []
        if ok:
            for v in oadt['variants']:
                t_ = ab.variant_edge(sw, v['idx'])
                ags = [s for s in ab.blocks[t_]['stmts'] if s['k'] == 'assign' and s['place']['l'] == 0 and s['rv']['k'] == 'aggregate']
                if len(ags) != 1:
                    ok = False
                    continue
                fields = []
                for o in ags[0]['rv']['ops']:
                    l = o['place']['l']
                    fld = None
                    for d in ab.defs_of(l):
                        if d[0] == 'stmt' and d[3]['rv']['k'] == 'ref':
                            src = d[3]['rv']['place']
                            if src['l'] != 1:
                                for d2 in ab.defs_of(src['l']):
                                    if d2[0] == 'stmt' and d2[3]['rv']['k'] == 'ref':
                                        src = d2[3]['rv']['place']
                            fs = [e for e in src['p'] if isinstance(e, dict) and 'f' in e]
                            fld = fs[-1]['f'] if fs else None
                    fields.append(fld)
                pairs.append((v['name'], ags[0]['rv'].get('variant_name'), fields))
            ok = ok and all(a == b_ and f == list(range(len(f))) for a, b_, f in pairs) and len(pairs) == len(oadt['variants'])
        R6.check(ok, cfg, ab.path, 'event-entry->same-variant-same-field-order', 'a notified entry must be looked up as the dependency of the same kind with (id, ext) in the same positions; mapping %s' % pairs, ab.loc())
