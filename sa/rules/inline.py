"""Inlining of helper functions on the JSON form of MIR (before mir.Body is built).

Why: the rules are anchored on the functions that exist on the reference tree.
Moving a block of such a function into a new private helper ("extract
function") is the most common behaviour-preserving edit; without inlining every
shape / dominance / who-may-call rule would see an unknown call and raise a
false alarm.  A callee is inlined when it is a function of this crate whose
def-path is NOT in the reference name set (sa/reference_fns.json, the functions
of the tree the rules were confirmed on): such a function is new, nothing is
anchored on it, and its code is analysed where it is used.  Inlining is a
semantics-preserving transformation of MIR, so it can neither hide a violation
nor create one; it only changes where the rules see the code.

Limits: direct calls only (a new function that is only used as a value -- a fn
pointer -- stays a body of its own), no recursion, depth <= 4.
"""
import copy

MAX_DEPTH = 4


def _is_place(d):
    return isinstance(d, dict) and 'l' in d and 'p' in d and isinstance(d['p'], list)


def _shift(node, loff, boff):
    """renumber locals (+loff) in a deep copy of a statement / operand / rvalue"""
    if isinstance(node, list):
        return [_shift(x, loff, boff) for x in node]
    if not isinstance(node, dict):
        return node
    out = {}
    for k, v in node.items():
        out[k] = _shift(v, loff, boff)
    if _is_place(node):
        out['l'] = node['l'] + loff
        out['p'] = [({**e, 'index': e['index'] + loff} if isinstance(e, dict) and 'index' in e else _shift(e, loff, boff)) for e in node['p']]
    elif node.get('k') in ('live', 'dead') and 'l' in node and 'p' not in node:
        out['l'] = node['l'] + loff
    return out


def _shift_term(t, loff, boff, ret_to, ret_dest, ret0, unwind_to, file):
    """terminator of an inlined block; returns (extra_stmts, term)"""
    t = _shift(t, loff, boff)
    t.setdefault('file', file)
    k = t['k']

    def bb(x):
        return x + boff if isinstance(x, int) else x

    def uw(u):
        # 'continue' = propagate to the caller of the inlined function = the call site's own unwind action
        if isinstance(u, int):
            return u + boff
        if u == 'continue':
            return unwind_to
        return u
    if k == 'goto':
        t['target'] = bb(t['target'])
    elif k == 'switch':
        t['targets'] = [[v, bb(x)] for v, x in t['targets']]
        t['otherwise'] = bb(t['otherwise'])
        if 'folded' in t:
            t['folded'] = bb(t['folded'])
    elif k in ('drop', 'assert'):
        t['target'] = bb(t['target'])
        t['unwind'] = uw(t.get('unwind'))
    elif k == 'call':
        t['target'] = bb(t['target']) if t.get('target') is not None else None
        t['unwind'] = uw(t.get('unwind'))
    elif k == 'return':
        stmts = [{'k': 'assign', 'place': ret_dest, 'rv': {'k': 'use', 'op': {'k': 'move', 'place': ret0}}, 'line': t.get('line'), 'exp': False, 'inl': True}]
        if ret_to is None:
            return stmts, {'k': 'unreachable', 'line': t.get('line'), 'file': file}
        return stmts, {'k': 'goto', 'target': ret_to, 'line': t.get('line'), 'file': file}
    elif k == 'resume':
        if isinstance(unwind_to, int):
            return [], {'k': 'goto', 'target': unwind_to, 'line': t.get('line'), 'file': file}
    return [], t


def callee_path(t, through_traits=True):
    if t['k'] != 'call' or t['func'].get('k') != 'const':
        return None
    fn = t['func'].get('fn')
    if not fn:
        return None
    r = fn.get('resolved')
    if not fn.get('local') and not through_traits:
        return None
    if r and r.get('kind') == 'item' and r.get('local'):
        return r['def']         # (also a method of a foreign trait -- PartialEq::eq -- resolved to an impl of this crate)
    if not fn.get('local'):
        return None
    return fn['def']


def inline_into(raw, raws, should_inline, stack=(), depth=0, log=None, through_traits=True):
    """returns a copy of `raw` in which every direct call of a function selected by should_inline(path) is expanded"""
    out = copy.deepcopy(raw)
    i = 0
    n0 = len(out['blocks'])
    while i < n0:      # only the blocks of `raw` itself: what gets spliced in was expanded already (and may be recursive)
        b = out['blocks'][i]
        t = b['term']
        p = callee_path(t, through_traits)
        if p is None or p not in raws or not should_inline(p) or p in stack or p == raw['path'] or depth >= MAX_DEPTH:
            i += 1
            continue
        g = raws[p]
        if g.get('promoted') is not None or g['arg_count'] != len(t['args']):
            i += 1
            continue
        g = inline_into(g, raws, should_inline, stack + (raw['path'],), depth + 1, log, through_traits)
        if log is not None:
            log.append((raw['path'], p, [_closure_arg(out, a) for a in t['args']]))
        splice(out, i, g, t['args'], t['dest'], t.get('target'), t.get('unwind'), t, p)
        i += 1
    return out


def _closure_arg(raw, op):
    """def-path of the closure literal passed as this argument, if it is one"""
    if op.get('k') not in ('copy', 'move') or op['place']['p']:
        return None
    l = op['place']['l']
    found = None
    for b in raw['blocks']:
        for s in b['stmts']:
            if s['k'] == 'assign' and s['place']['l'] == l and not s['place']['p']:
                if found is not None:
                    return None
                found = s['rv'].get('closure') or False
        t = b['term']
        if t['k'] == 'call' and t['dest']['l'] == l:
            return None
    return found or None


def splice(out, i, g, args, dest, target, unwind_to, t, p):
    """replace the terminator of block i of `out` by the body `g` called with `args` (one operand per parameter of g),
    writing its result to `dest` and continuing at `target`"""
    b = out['blocks'][i]
    loff = len(out['locals'])
    boff = len(out['blocks'])
    out['locals'] = out['locals'] + copy.deepcopy(g['locals'])
    for d in g.get('debug', []):
        out['debug'].append({'name': d['name'], 'place': _shift(d['place'], loff, 0), 'arg': None})
    for k, a in enumerate(args):
        lt = g['locals'][k + 1]['ty']
        b['stmts'].append({'k': 'assign', 'place': {'l': loff + k + 1, 'p': [], 'ty': lt}, 'rv': {'k': 'use', 'op': a}, 'line': t.get('line'),
                           'exp': bool(t.get('exp')), 'inl': True})
    ret0 = {'l': loff, 'p': [], 'ty': g['locals'][0]['ty']}
    for gb in g['blocks']:
        stmts = []
        for s in gb['stmts']:
            s2 = _shift(s, loff, boff)
            s2.setdefault('file', g['file'])
            stmts.append(s2)
        extra, term = _shift_term(gb['term'], loff, boff, target, dest, ret0, unwind_to, g['file'])
        out['blocks'].append({'cleanup': gb['cleanup'] or b['cleanup'], 'stmts': stmts + extra, 'term': term, 'inlined_from': p})
    b['term'] = {'k': 'goto', 'target': boff, 'line': t.get('line'), 'file': t.get('file'), 'inlined_call': p}
    out.setdefault('inlined', []).append(p)


def inline_consts(raw, consts):
    """`const P` read anywhere (an assignment, an argument of a call, an operand of a comparison), P being a new named
    constant of the crate whose initialiser is one constant, one field-less aggregate (`Ordering::Acquire`) or one call
    without operands (`needs_drop::<U>()`, `size_of::<T>()`): the read is replaced by the initialiser.  Only for reads
    with the identity substitution (P's own generic parameters), where the initialiser's text means the same thing."""
    def init_of(op):
        if not isinstance(op, dict) or op.get('k') != 'const':
            return None
        g = consts.get(op.get('uneval'))
        if g is None or g.get('arg_count') or op.get('promoted') is not None:
            return None
        ua = op.get('uneval_args') or []
        if ua and ('<%s>' % ', '.join(ua)) not in g['path']:
            return None
        gb = g['blocks']
        if len(gb) == 1 and len(gb[0]['stmts']) == 1 and gb[0]['stmts'][0].get('k') == 'assign' and gb[0]['stmts'][0]['place']['l'] == 0 and gb[0]['term']['k'] == 'return':
            rv = gb[0]['stmts'][0]['rv']
            if rv.get('k') == 'use' and rv['op'].get('k') == 'const' and not rv['op'].get('uneval'):
                return ('const', rv['op'])
            if rv.get('k') == 'aggregate' and not rv.get('ops'):
                return ('agg', rv, gb[0]['stmts'][0]['place'].get('ty'))
        if len(gb) == 2 and not gb[0]['stmts'] and gb[0]['term']['k'] == 'call' and not gb[0]['term']['args'] \
                and gb[0]['term']['dest'].get('l') == 0 and not gb[0]['term']['dest'].get('p') and gb[0]['term'].get('target') == 1 \
                and gb[1]['term']['k'] == 'return' and not gb[1]['stmts']:
            return ('call', gb[0]['term'])
        return None

    def mentions(node):
        if isinstance(node, dict):
            if node.get('k') == 'const' and node.get('uneval') in consts:
                return True
            return any(mentions(v) for v in node.values())
        if isinstance(node, list):
            return any(mentions(v) for v in node)
        return False
    if not any(mentions(b['stmts']) or mentions(b['term']) for b in raw['blocks']):
        return raw
    raw = copy.deepcopy(raw)

    def new_local(ty):
        raw['locals'].append({'ty': ty, 'adt': None})
        return len(raw['locals']) - 1

    def subst(node, pre, line):
        """replace constant operands inside `node` (in place); statements to run before go to `pre`"""
        if isinstance(node, list):
            for i, v in enumerate(node):
                r = subst(v, pre, line)
                if r is not None:
                    node[i] = r
            return None
        if not isinstance(node, dict):
            return None
        ini = init_of(node)
        if ini is not None and ini[0] == 'const':
            return copy.deepcopy(ini[1])
        if ini is not None and ini[0] == 'agg':
            l = new_local(ini[2] or node.get('ty') or '?')
            pre.append({'k': 'assign', 'place': {'l': l, 'p': [], 'ty': ini[2] or node.get('ty') or '?'}, 'rv': copy.deepcopy(ini[1]), 'line': line, 'syn': True})
            return {'k': 'move', 'place': {'l': l, 'p': [], 'ty': ini[2] or node.get('ty') or '?'}}
        for k, v in list(node.items()):
            if k in ('func',):
                continue
            r = subst(v, pre, line)
            if r is not None:
                node[k] = r
        return None
    # 1. constants and field-less aggregates: anywhere
    for b in raw['blocks']:
        out = []
        for st in b['stmts']:
            pre = []
            if st.get('k') == 'assign':
                r = subst(st['rv'], pre, st.get('line'))
                if r is not None:      # the rvalue itself was `use const P` handled below through its operand
                    st['rv'] = r
            out += pre + [st]
        pre = []
        t = b['term']
        for key in ('args', 'discr', 'cond'):
            if key in t:
                r = subst(t[key], pre, t.get('line'))
                if r is not None:
                    t[key] = r
        b['stmts'] = out + pre
    # 2. initialisers that are one operand-less call: reads that are whole assignments `x = const P`
    todo = []
    for i, b in enumerate(raw['blocks']):
        for j, st in enumerate(b['stmts']):
            if st.get('k') == 'assign' and st['rv'].get('k') == 'use':
                ini = init_of(st['rv']['op'])
                if ini is not None and ini[0] == 'call':
                    todo.append((i, j, ini[1]))
    # later statements first, so that indices of the earlier ones stay valid
    for i, j, gt in sorted(todo, key=lambda x: (-x[0], -x[1])):
        b = raw['blocks'][i]
        st = b['stmts'][j]
        rest = {'cleanup': b['cleanup'], 'stmts': b['stmts'][j + 1:], 'term': b['term']}
        raw['blocks'].append(rest)
        t = copy.deepcopy(gt)
        t['dest'] = copy.deepcopy(st['place'])
        t['target'] = len(raw['blocks']) - 1
        t['unwind'] = 'continue' if not b['cleanup'] else 'terminate'
        t['line'] = st.get('line', t.get('line'))
        t['file'] = raw.get('file')
        t['syn'] = True
        b['stmts'] = b['stmts'][:j]
        b['term'] = t
    return raw
