"""C18 -- ReloadId bookkeeping is a monotone maximum, atomically.

Decided completely: ReloadId is a one-field usize newtype with derived
ordering, so `update` touches values only through one comparison; the table
over the three outcomes {new<old, new=old, new>old} is exhaustive."""
from mir import enum_variant_of, enumerate_paths, _norm

LEVEL = 'proof'
EXPLANATION = (
    'Exhaustive decision tables extracted from the MIR of ReloadId::update and AtomicReloadId::update '
    '(the only value operation is one comparison of a usize newtype with derived Ord, so the three '
    'outcomes <,=,> cover every pair of ids), plus a table of the atomic primitives (callee, operand '
    'origins, memory ordering constants), evaluated in every feature configuration. Obligations = table '
    'rows + primitive rows; all must be discharged.')
TRUSTED = ['rustc MIR construction', 'derived PartialOrd/Ord on a usize newtype is the usize order',
           'std atomics: fetch_max/fetch_add/swap are atomic read-modify-write operations',
           'amfacts driver + rule engine in /verif/sa']

RELS = ('<', '=', '>')   # relation of the offered id (new) to the stored id (old / prev)


def cmp_eval(name, swapped, rel):
    """truth of `a <name> b` where (a,b) = (new,old) or swapped, given rel(new,old)"""
    if swapped:
        rel = {'<': '>', '=': '=', '>': '<'}[rel]
    return {'gt': rel == '>', 'ge': rel in ('>', '='), 'lt': rel == '<', 'le': rel in ('<', '='),
            'eq': rel == '=', 'ne': rel != '='}[name]


def run(ctx):
    R1 = ctx.report.rule('C18.R1', 'ReloadId::update: stored = max(old,new), returns new>old (3-row table)', floor=3)
    R2 = ctx.report.rule('C18.R2', 'AtomicReloadId::update = new > fetch_max(new) (3-row table + operand origins)', floor=3)
    R3 = ctx.report.rule('C18.R3', 'primitive table: callee, operand origin and memory ordering of each atomic primitive; NEVER = 0', floor=8)
    R4 = ctx.report.rule('C18.R0', 'ReloadId is a single-usize newtype with derived PartialEq/Eq/PartialOrd/Ord', floor=5)
    ctx.report.assumptions += [
        'derived Ord of a one-field tuple struct over usize is the usize order (rustc derive, trusted)',
        'atomicity of AtomicUsize RMW operations (std, trusted): with it, R2 gives "exactly one caller is told true per growth"',
    ]
    for cfg, F in ctx.cfgs():
        # ---- R0 type facts
        adt = F.adt('entry::ReloadId')
        if not adt:
            R4.missing(cfg, 'entry::ReloadId')
            continue
        fields = adt['variants'][0]['fields'] if adt['variants'] else []
        R4.check(adt['kind'] == 'struct' and len(fields) == 1 and fields[0]['ty'] == 'usize',
                 cfg, 'entry::ReloadId', 'newtype-over-usize', 'ReloadId must be a struct with exactly one usize field; found %s'
                 % [f['ty'] for f in fields], '%s:%s' % (adt['file'], adt['line']))
        for tr in ('std::cmp::PartialEq', 'std::cmp::Eq', 'std::cmp::PartialOrd', 'std::cmp::Ord'):
            ims = [im for im in F.impls if im['trait'] == tr and im['self_ty'] == 'entry::ReloadId']
            R4.check(len(ims) == 1 and ims[0]['derived'], cfg, 'entry::ReloadId', 'derived:' + tr,
                     '%s for ReloadId must be the derived impl (a hand-written order breaks the <,=,> abstraction)' % tr,
                     ('%s:%s' % (ims[0]['file'], ims[0]['line'])) if ims else None)

        # ---- R1 ReloadId::update
        b = F.body('entry::ReloadId::update')
        if not b:
            R1.missing(cfg, 'entry::ReloadId::update')
        else:
            table_update(R1, cfg, b, old_tok=['arg1', '*'], new_tok=['arg2'])

        # ---- R2 AtomicReloadId::update
        b = F.body('entry::AtomicReloadId::update')
        if not b:
            R2.missing(cfg, 'entry::AtomicReloadId::update')
        else:
            table_atomic_update(R2, cfg, b)

        # ---- R3 primitives
        prim(R3, cfg, F, 'entry::AtomicReloadId::load', 'load', [['arg1', '*', '0', '&']], {'Acquire', 'SeqCst'}, wraps=True)
        prim(R3, cfg, F, 'entry::AtomicReloadId::store', 'store', [['arg1', '*', '0', '&'], ['arg2', '0']], {'Release', 'SeqCst'})
        prim(R3, cfg, F, 'entry::AtomicReloadId::swap', 'swap', [['arg1', '*', '0', '&'], ['arg2', '0']], {'AcqRel', 'SeqCst'}, wraps=True)
        prim(R3, cfg, F, 'entry::AtomicReloadId::fetch_max', 'fetch_max', [['arg1', '*', '0', '&'], ['arg2', '0']], {'AcqRel', 'SeqCst'}, wraps=True)
        if 'hot-reloading' in ctx.cfg_features[cfg]:
            if F.body('entry::AtomicReloadId::increment') or not prim_folded(R3, cfg, F, {'Release', 'AcqRel', 'SeqCst'}):
                prim(R3, cfg, F, 'entry::AtomicReloadId::increment', 'fetch_add', [['arg1', '*', '0', '&'], ['const:1_usize']],
                     {'Release', 'AcqRel', 'SeqCst'})
        never = F.consts.get('entry::ReloadId::NEVER')
        if not never:
            R3.missing(cfg, 'entry::ReloadId::NEVER')
        else:
            v = never['value']
            R3.check(isinstance(v, dict) and v.get('bits') == '0', cfg, 'entry::ReloadId::NEVER', 'NEVER==0 (least usize)',
                     'ReloadId::NEVER must evaluate to 0, the least id; evaluated to %s' % v, '%s:%s' % (never['file'], never['line']))
        nb = F.body('entry::AtomicReloadId::new')
        if not nb:
            R3.missing(cfg, 'entry::AtomicReloadId::new')
        else:
            cs = [c for c in nb.calls() if not c.exp]
            okc = (len(cs) == 1 and cs[0].callee.best == 'entry::AtomicReloadId::with_value'
                   and nb.access_path(cs[0].args[0]) == ['const:entry::ReloadId::NEVER'])
            R3.check(okc, cfg, nb.path, 'new()=with_value(NEVER)', 'AtomicReloadId::new must be with_value(ReloadId::NEVER)', nb.loc())
        wb = F.body('entry::AtomicReloadId::with_value')
        if not wb:
            R3.missing(cfg, 'entry::AtomicReloadId::with_value')
        else:
            cs = [c for c in wb.calls() if c.callee and c.callee.name == 'new' and 'Atomic' in c.callee.best]
            okc = len(cs) == 1 and wb.access_path(cs[0].args[0]) == ['arg1', '0']
            R3.check(okc, cfg, wb.path, 'with_value(v)=Atomic::new(v.0)', 'with_value must initialise the atomic with the given id', wb.loc())
        for p, want in (('<entry::ReloadId as std::default::Default>::default', 'NEVER'),
                        ('<entry::AtomicReloadId as std::default::Default>::default', 'new')):
            db = F.body(p)
            if not db:
                R3.missing(cfg, p)
                continue
            if want == 'NEVER':
                rets = [s for _, _, s in db.assigns() if s['place']['l'] == 0]
                okc = len(rets) == 1 and rets[0]['rv']['k'] == 'use' and rets[0]['rv']['op'].get('text') == 'entry::ReloadId::NEVER'
            else:
                cs = [c for c in db.calls()]
                okc = len(cs) == 1 and cs[0].callee.best == 'entry::AtomicReloadId::new' and cs[0].dest['l'] == 0
            if not okc:
                # #[derive(Default)]: the single field gets its own default, 0 -- which is NEVER (checked below) and what new() stores
                cs = [c for c in db.calls()]
                ag = [s_ for _, _, s_ in db.assigns() if s_['rv']['k'] == 'aggregate' and s_['rv'].get('adt') in ('entry::ReloadId', 'entry::AtomicReloadId')]
                okc = len(cs) == 1 and cs[0].callee.name == 'default' and cs[0].callee.trait == 'std::default::Default' \
                    and (cs[0].callee.self_ty or '') in ('usize', 'std::sync::atomic::AtomicUsize', 'std::sync::atomic::Atomic<usize>') and len(ag) == 1 \
                    and db.access_path(ag[0]['rv']['ops'][0]) == ['call@bb%d' % cs[0].bb]
            R3.check(okc, cfg, p, 'default=' + want, 'Default must be %s' % want, db.loc())
        # ReloadWatcher::reloaded = last.update(reload_id.load())
        if 'hot-reloading' in ctx.cfg_features[cfg]:
            wb = F.one(r"^entry::ReloadWatcher::<'a>::reloaded$")
            if not wb:
                R3.missing(cfg, 'entry::ReloadWatcher::reloaded')
            else:
                watcher(R3, cfg, wb)
        for r in (R1, R2, R3, R4):
            r.finish_cfg(cfg)


def find_cmp(b):
    cs = [c for c in b.calls() if c.callee and c.callee.trait in ('std::cmp::PartialOrd', 'std::cmp::PartialEq', 'std::cmp::Ord')]
    return cs


def table_update(R, cfg, b, old_tok, new_tok, atomic=False):
    """ReloadId::update(&mut self, new) decided by abstract execution over the three orderings of (new, old): the ids are
    the symbols `old` / `new`, comparisons and Ord::max / Ord::min on them are evaluated from the ordering, every
    branch must then be decided, and the function must end with  *self = max(old, new)  and  return new > old.
    Any other operation on the ids is not understood (fail-closed)."""
    def sym_cmp(name, x, y, rel):
        # truth of `x <name> y`; x, y in {'old', 'new'}
        if x == y:
            r = '='
        elif (x, y) == ('new', 'old'):
            r = rel
        else:
            r = {'<': '>', '=': '=', '>': '<'}[rel]
        return {'gt': r == '>', 'ge': r in ('>', '='), 'lt': r == '<', 'le': r in ('<', '='), 'eq': r == '=', 'ne': r != '='}[name]

    def bigger(x, y, rel, want_max):
        if x == y:
            return x
        r = rel if (x, y) == ('new', 'old') else {'<': '>', '=': '=', '>': '<'}[rel]
        if r == '=':
            return 'same'          # equal ids: either is the same number
        first_bigger = (r == '>')
        return x if first_bigger == want_max else y

    cmps_seen = []
    for rel in RELS:
        env = {}        # local -> 'old' | 'new' | 'same' | True | False | ('ref', sym)
        mem = 'old'     # what *self holds
        bb, steps, verdict = 0, 0, None
        fetches = []

        def val(op):
            if op['k'] == 'const':
                return {'true': True, 'false': False}.get(op.get('text'))
            if op['k'] not in ('copy', 'move'):
                return None
            pl = op['place']
            l, pr = pl['l'], pl['p']
            # ReloadId is a newtype over one usize whose derived order is the order of that field (R0): the field is the id
            pr = [e for e in pr if not (isinstance(e, dict) and e.get('f') == 0 and e.get('of') == 'entry::ReloadId')]
            if l == 1 and pr == ['deref']:
                return mem
            if l == 1 and not pr:
                return ('ref', 'self')
            if l == 2 and not pr:
                return 'new'
            v = env.get(l)
            if isinstance(v, tuple) and v[0] == 'ref' and pr == ['deref']:
                return mem if v[1] == 'self' else v[1]
            if not pr:
                return v
            return None
        while steps < 200:
            steps += 1
            blk = b.blocks[bb]
            for st in blk['stmts']:
                if st['k'] != 'assign':
                    continue
                pl, rv = st['place'], st['rv']
                v = None
                if rv['k'] == 'use':
                    v = val(rv['op'])
                elif rv['k'] == 'ref':
                    rp = dict(rv['place'], p=[e for e in rv['place']['p'] if not (isinstance(e, dict) and e.get('f') == 0 and e.get('of') == 'entry::ReloadId')])
                    if rp['l'] == 1 and rp['p'] == ['deref']:
                        v = ('ref', 'self')
                    elif rp['l'] == 2 and not rp['p']:
                        v = ('ref', 'new')
                    elif not rp['p'] and env.get(rp['l']) in ('old', 'new', 'same'):
                        v = ('ref', env[rp['l']])
                    elif rp['p'] == ['deref'] and isinstance(env.get(rp['l']), tuple):
                        v = env[rp['l']]
                elif rv['k'] == 'discr':
                    src = env.get(rv['place']['l']) if not rv['place']['p'] else None
                    if isinstance(src, tuple) and src[0] == 'ordering' and not src[2]:
                        v = ('int', src[1])
                elif rv['k'] == 'unop' and str(rv.get('op', '')).lower().startswith('not'):
                    x = val(rv['a'])
                    v = (not x) if isinstance(x, bool) else None
                elif rv['k'] == 'binop' and rv.get('op') in ('Gt', 'Ge', 'Lt', 'Le', 'Eq', 'Ne'):
                    x, y = val(rv['a']), val(rv['b'])
                    if x in ('old', 'new', 'same') and y in ('old', 'new', 'same'):
                        x0, y0 = ('old' if x == 'same' else x), ('old' if y == 'same' else y)
                        v = sym_cmp(rv['op'].lower(), x0, y0, rel if 'same' not in (x, y) else '=')
                        cmps_seen.append(rv['op'].lower())
                plp = [e for e in pl['p'] if not (isinstance(e, dict) and e.get('f') == 0 and e.get('of') == 'entry::ReloadId')]
                tgt_ref = env.get(pl['l']) if plp == ['deref'] else None
                if (pl['l'] == 1 and plp == ['deref']) or tgt_ref == ('ref', 'self'):
                    if v not in ('old', 'new', 'same'):
                        verdict = 'a value that is neither the stored nor the offered id is stored'
                        break
                    mem = v
                elif not pl['p']:
                    env[pl['l']] = v
            if verdict:
                break
            t = blk['term']
            if t['k'] == 'goto':
                bb = t['target']
            elif t['k'] == 'switch':
                x = val(t['discr'])
                if isinstance(x, tuple) and x[0] == 'int':
                    tg = t['otherwise']
                    for v_, d_ in t['targets']:
                        iv = int(v_)
                        # the discriminant of Ordering is an i8: -1 is dumped as 255 (or as -1)
                        if iv == x[1] or (x[1] == -1 and iv in (255, 18446744073709551615, 4294967295)):
                            tg = d_
                    bb = tg
                    continue
                if not isinstance(x, bool):
                    verdict = 'a branch does not depend on the order of the two ids only'
                    break
                bb = t.get('folded', None) if 'folded' in t else None
                if bb is None:
                    tg = t['otherwise']
                    for v_, d_ in t['targets']:
                        if str(v_) == ('1' if x else '0'):
                            tg = d_
                    bb = tg
            elif t['k'] == 'call':
                fn = (t['func'].get('fn') or {}) if t['func'].get('k') == 'const' else {}
                name, tr = fn.get('name'), fn.get('trait')
                a = [val(x) for x in t['args']]
                raw_args = list(a)
                a = [x[1] if isinstance(x, tuple) else x for x in a]
                a = [mem if x == 'self' else x for x in a]
                r = None
                if atomic and fn.get('def') == 'entry::AtomicReloadId::fetch_max' and raw_args == [('ref', 'self'), 'new']:
                    # one atomic maximum: the previous id is returned (what is stored is std's business, R3)
                    r = 'old'
                    fetches.append(bb)
                elif atomic and fn.get('def') == 'entry::ReloadId::update' and len(raw_args) == 2 and isinstance(raw_args[0], tuple) and raw_args[0][0] == 'ref' \
                        and raw_args[0][1] in ('old', 'new', 'same') and raw_args[1] in ('old', 'new', 'same'):
                    # ReloadId::update on a local copy of an id (decided by R1): returns offered > copy
                    x0, x1 = [('old' if x == 'same' else x) for x in (raw_args[1], raw_args[0][1])]
                    r = sym_cmp('gt', x0, x1, rel if 'same' not in (raw_args[1], raw_args[0][1]) else '=')
                elif fn.get('def') == 'std::mem::replace' and len(raw_args) == 2 and raw_args[0] == ('ref', 'self') and raw_args[1] in ('old', 'new', 'same'):
                    # mem::replace(self, v): the stored id becomes v, the previous one is returned
                    r, mem = mem, raw_args[1]
                elif tr in ('std::cmp::PartialOrd', 'std::cmp::PartialEq') and name in ('gt', 'ge', 'lt', 'le', 'eq', 'ne') and len(a) == 2 \
                        and all(x in ('old', 'new', 'same') for x in a):
                    x0, x1 = [('old' if x == 'same' else x) for x in a]
                    r = sym_cmp(name, x0, x1, rel if 'same' not in a else '=')
                    cmps_seen.append(name)
                elif tr in ('std::cmp::Ord', 'std::cmp::PartialOrd') and name in ('cmp', 'partial_cmp') and len(a) == 2 and all(x in ('old', 'new', 'same') for x in a):
                    # Ordering::{Less = -1, Equal = 0, Greater = 1}; the discriminant is what a `match` switches on
                    x0, x1 = [('old' if x == 'same' else x) for x in a]
                    rr = '=' if ('same' in a or x0 == x1) else (rel if (x0, x1) == ('new', 'old') else {'<': '>', '=': '=', '>': '<'}[rel])
                    r = ('ordering', {'<': -1, '=': 0, '>': 1}[rr], name == 'partial_cmp')
                elif fn.get('def', '').startswith('std::cmp::Ordering::is_') and len(raw_args) == 1 and isinstance(raw_args[0], tuple) and raw_args[0][0] == 'ordering':
                    o_ = raw_args[0][1]
                    r = {'is_lt': o_ < 0, 'is_le': o_ <= 0, 'is_gt': o_ > 0, 'is_ge': o_ >= 0, 'is_eq': o_ == 0, 'is_ne': o_ != 0}.get(fn.get('def').rsplit('::', 1)[-1])
                    if r is None:
                        verdict = 'operation `%s` on the ids is not understood' % (t['func'].get('text') or '?')
                        break
                elif tr == 'std::cmp::Ord' and name in ('max', 'min') and len(a) == 2 and all(x in ('old', 'new', 'same') for x in a):
                    r = bigger(a[0] if a[0] != 'same' else 'old', a[1] if a[1] != 'same' else 'old', rel, name == 'max')
                elif fn.get('def', '').startswith('core::panicking') or t.get('target') is None:
                    verdict = 'a panic is reachable'
                    break
                else:
                    verdict = 'operation `%s` on the ids is not understood' % (t['func'].get('text') or '?')
                    break
                if not t['dest']['p']:
                    env[t['dest']['l']] = r
                elif t['dest']['l'] == 1 and t['dest']['p'] == ['deref']:
                    mem = r
                bb = t['target']
            elif t['k'] == 'assert':
                bb = t['target']
            elif t['k'] == 'return':
                break
            else:
                verdict = 'unexpected terminator %s' % t['k']
                break
        ret = env.get(0)
        want_stored = {'<': ('old', 'same'), '=': ('old', 'new', 'same'), '>': ('new',)}[rel]
        if rel == '<':
            want_stored = ('old',)
        want_ret = (rel == '>')
        if atomic:
            if verdict is None and len(fetches) != 1:
                verdict = '%d fetch_max on the path (exactly one atomic maximum is needed)' % len(fetches)
            if verdict is not None and 'not understood' in verdict:
                R.unrecognised(cfg, b.path, 'abstract execution for new%sprev: %s' % (rel, verdict), b.loc())
                continue
            R.check(verdict is None and ret is want_ret, cfg, b.path, 'row new%sprev' % rel,
                    'for new%sprev: returned %s, want %s%s' % (rel, ret, want_ret, '; ' + verdict if verdict else ''), b.loc(), row={'rel': rel, 'returned': ret})
            continue
        ok = verdict is None and mem in want_stored and ret is want_ret
        if verdict is not None and 'not understood' in verdict:
            R.unrecognised(cfg, b.path, 'abstract execution for new%sold: %s' % (rel, verdict), b.loc())
            continue
        R.check(ok, cfg, b.path, 'row new%sold' % rel,
                'for new%sold: stored=%s (want %s), returned=%s (want %s)%s' % (rel, mem, '/'.join(want_stored), ret, want_ret, '; ' + verdict if verdict else ''),
                b.loc(), row={'rel': rel, 'stored': mem, 'returned': ret})


def ret_value(b, p, c, truth):
    """abstract value of _0 on path p: the comparison result, its negation is
    not recognised; a constant bool; else None"""
    last = None
    for bb, j, s in p.stmts():
        if s['place']['l'] == 0 and not s['place']['p']:
            last = s
    if last is None:
        # _0 defined directly by the call
        if c.dest['l'] == 0:
            return truth
        return None
    if last['rv']['k'] != 'use':
        return None
    ap = b.access_path(last['rv']['op'])
    if ap == ['call@bb%d' % c.bb]:
        return truth
    if ap == ['const:true']:
        return True
    if ap == ['const:false']:
        return False
    return None


def table_atomic_update(R, cfg, b):
    fm = [c for c in b.calls() if c.callee and c.callee.best == 'entry::AtomicReloadId::fetch_max']
    cmps = find_cmp(b)
    others = [c for c in b.calls() if c not in fm and c not in cmps and not c.exp and not (c.callee and c.callee.best == 'entry::ReloadId::update')
              and not (c.callee and c.callee.best.startswith('std::cmp::Ordering::is_'))]
    if not cmps and [c for c in b.calls() if c.callee and c.callee.best == 'entry::ReloadId::update']:
        cmps = [c for c in b.calls() if c.callee and c.callee.best == 'entry::ReloadId::update']
    raw = [c for c in b.calls() if c.callee and c.callee.name == 'fetch_max' and 'atomic::Atomic' in c.callee.best and 'usize' in c.callee.best]
    if not fm and not cmps and len(raw) == 1 and len(b.calls()) == 1:
        # the same thing on the raw integers: `new.0 > self.0.fetch_max(new.0, AcqRel)` (ReloadId derives its order from its field)
        import common
        f = raw[0]
        ordv = enum_variant_of(b, f.args[2]) if len(f.args) > 2 else set()
        ok = common.strip_refs(common.arg_path(f, 0)) == ['arg1', '0'] and common.strip_refs(common.arg_path(f, 1)) == ['arg2', '0'] and len(ordv) == 1 and ordv <= {'AcqRel', 'SeqCst'}
        R.check(ok, cfg, b.path, 'fetch_max(self,new)', 'fetch_max must be applied to self with the offered id (AcqRel); got %s, %s, %s'
                % (common.arg_path(f, 0), common.arg_path(f, 1), sorted(ordv)), f.loc())
        rets = [(bb, st) for bb, _, st in b.assigns() if st['place']['l'] == 0 and not st['place']['p']]
        bins = [(bb, st) for bb, _, st in b.assigns() if st['rv']['k'] == 'binop' and st['rv']['op'] in ('Gt', 'Lt', 'Ge', 'Le')]
        if len(bins) != 1 or len(rets) != 1 or not (rets[0][1] is bins[0][1] or (rets[0][1]['rv']['k'] == 'use' and b.access_path(rets[0][1]['rv']['op']) == ['binop@bb%d.%d' % (bins[0][0], b.blocks[bins[0][0]]['stmts'].index(bins[0][1]))])):
            R.bad(cfg, b.path, 'shape', 'AtomicReloadId::update must return one comparison of the offered id with the previous value', b.loc())
            return
        rv = bins[0][1]['rv']
        pa, pb = common.strip_refs(common.deep_path(b, rv['a'], at=bins[0][0])), common.strip_refs(common.deep_path(b, rv['b'], at=bins[0][0]))
        prev = ['call@bb%d' % f.bb]
        if (pa, pb) == (['arg2', '0'], prev):
            swapped = False
        elif (pa, pb) == (prev, ['arg2', '0']):
            swapped = True
        else:
            R.bad(cfg, b.path, 'comparison-operands', 'must compare the offered id with the PREVIOUS value returned by fetch_max; operands %s, %s' % (pa, pb), b.loc())
            return
        name = {'Gt': 'gt', 'Lt': 'lt', 'Ge': 'ge', 'Le': 'le'}[rv['op']]
        for rel in RELS:
            ret = cmp_eval(name, swapped, rel)
            R.check(ret == (rel == '>'), cfg, b.path, 'row new%sprev' % rel, 'for new%sprev: returned %s, want %s' % (rel, ret, rel == '>'), b.loc(),
                    row={'rel': rel, 'cmp': name, 'swapped': swapped, 'returned': ret})
        return
    if len(fm) != 1 or not (len(cmps) == 1 or [st for _, _, st in b.assigns() if st['rv']['k'] == 'binop' and st['rv'].get('op') in ('Gt', 'Ge', 'Lt', 'Le')]) or others:
        R.bad(cfg, b.path, 'shape', 'AtomicReloadId::update must be one fetch_max and one comparison; found calls %s'
              % [x.callee.best if x.callee else '?' for x in b.calls()], b.loc())
        return
    f = fm[0]
    ok = b.access_path(f.args[0]) == ['arg1'] and b.access_path(f.args[1]) == ['arg2']
    R.check(ok, cfg, b.path, 'fetch_max(self,new)', 'fetch_max must be applied to self with the offered id; got %s, %s'
            % (b.access_path(f.args[0]), b.access_path(f.args[1])), f.loc())
    # the three-row table by abstract execution (the comparison may sit in a helper written in place, its result may pass
    # through temporaries): `new` against the id fetch_max returned
    table_update(R, cfg, b, 'prev', 'new', atomic=True)
    return
    prev = ['call@bb%d' % f.bb, '&']
    a0, a1 = b.access_path(c.args[0]), b.access_path(c.args[1])
    if c.callee.name not in ('gt', 'ge', 'lt', 'le') or c.callee.self_ty != 'entry::ReloadId':
        R.bad(cfg, b.path, 'comparison', 'the result must be a PartialOrd comparison of ReloadIds, found %s' % c.callee.best, c.loc())
        return
    if (a0, a1) == (['arg2', '&'], prev):
        swapped = False
    elif (a0, a1) == (prev, ['arg2', '&']):
        swapped = True
    else:
        R.bad(cfg, b.path, 'comparison-operands', 'must compare the offered id with the PREVIOUS value returned by fetch_max; operands %s, %s' % (a0, a1), c.loc())
        return
    for rel in RELS:
        truth = cmp_eval(c.callee.name, swapped, rel)
        ret = truth if (c.dest['l'] == 0 and not c.dest['p']) else None
        R.check(ret == (rel == '>'), cfg, b.path, 'row new%sprev' % rel,
                'for new%sprev: returned %s, want %s' % (rel, ret, rel == '>'), c.loc(),
                row={'rel': rel, 'cmp': c.callee.name, 'swapped': swapped, 'returned': ret})


def prim_folded(R, cfg, F, orderings):
    """`increment` written into its only caller, the writer: the bump is `….reload.0.fetch_add(1, ordering)` there.
    False when there is no such call (the caller then reports the missing anchor)."""
    ws = F.callers_of(r'^entry::swap_any$')
    b = F.body(ws[0]) if len(ws) == 1 else None
    if not b:
        return False
    cs = [c for c in b.calls() if c.callee and c.callee.name == 'fetch_add' and 'atomic::Atomic' in c.callee.best and 'usize' in c.callee.best
          and (b.access_path(c.args[0]) or [])[-3:] == ['reload', '0', '&']]
    if len(cs) != 1:
        return False
    c = cs[0]
    got = b.access_path(c.args[1])
    ordv = enum_variant_of(b, c.args[2]) if len(c.args) > 2 else set()
    ok = got == ['const:1_usize'] and len(ordv) == 1 and ordv <= orderings
    R.check(ok, cfg, 'entry::AtomicReloadId::increment', "fetch_add([['arg1', '*', '0', '&'], ['const:1_usize']];%s)" % '/'.join(sorted(orderings)),
            'the bump of the reload id in %s: operand %s ordering %s (want 1, ordering in %s)' % (b.path, got, sorted(ordv), sorted(orderings)),
            c.loc(), callee=c.callee.best, ordering=sorted(ordv))
    return True


def prim(R, cfg, F, path, atomic_name, want_args, orderings, wraps=False):
    b = F.body(path)
    if not b:
        R.missing(cfg, path)
        return
    cs = [c for c in b.calls() if not c.exp]
    if len(cs) != 1 or not cs[0].callee or cs[0].callee.name != atomic_name or 'atomic::Atomic' not in cs[0].callee.best \
            or 'usize' not in cs[0].callee.best:
        R.bad(cfg, path, 'callee', '%s must be exactly one call to AtomicUsize::%s; found %s'
              % (path, atomic_name, [c.callee.best if c.callee else '?' for c in cs]), b.loc())
        return
    c = cs[0]
    got = [b.access_path(a) for a in c.args[:len(want_args)]]
    ordv = enum_variant_of(b, c.args[len(want_args)]) if len(c.args) > len(want_args) else set()
    ok = got == want_args and len(ordv) == 1 and ordv <= orderings
    if wraps:
        # what is returned is ReloadId(result of the atomic operation), built here or by a constructor written in place
        import common
        ags = [(bb_, j_, s) for bb_, j_, s in b.assigns() if s['rv']['k'] == 'aggregate' and s['rv'].get('adt') == 'entry::ReloadId' and not b.blocks[bb_]['cleanup']]
        roots = b.origins(0)
        ok = ok and len(ags) == 1 and (ags[0][2]['place']['l'] == 0 or ('agg', ags[0][0], ags[0][1]) in roots) \
            and common.strip_refs(common.deep_path(b, ags[0][2]['rv']['ops'][0], at=ags[0][0])) == ['call@bb%d' % c.bb]
    R.check(ok, cfg, path, '%s(%s;%s)' % (atomic_name, want_args, '/'.join(sorted(orderings))),
            '%s: operands %s ordering %s (want operands %s, ordering in %s%s)' % (path, got, sorted(ordv), want_args, sorted(orderings),
                                                                              ', result wrapped in ReloadId' if wraps else ''),
            c.loc(), callee=c.callee.best, ordering=sorted(ordv))


def value_on_path(p, op, depth=0):
    """constant text of an operand as seen along one path (the most recent assignment on that path wins)"""
    if op['k'] == 'const':
        return op.get('text')
    if op['k'] not in ('copy', 'move') or op['place']['p'] or depth > 6:
        return None
    l = op['place']['l']
    last = None
    for bb, j, s in p.stmts():
        if s['place']['l'] == l and not s['place']['p']:
            last = s
    if last is None or last['rv']['k'] != 'use':
        return None
    return value_on_path(p, last['rv']['op'], depth + 1)


def watcher(R, cfg, b):
    loads = [c for c in b.calls() if c.callee and c.callee.best == 'entry::AtomicReloadId::load']
    upd = [c for c in b.calls() if c.callee and c.callee.best == 'entry::ReloadId::update']
    if len(loads) != 1 or len(upd) != 1:
        R.bad(cfg, b.path, 'shape', 'reloaded() must be last_reload_id.update(reload_id.load())', b.loc())
        return
    u, ld = upd[0], loads[0]
    import common
    a0 = common.strip_refs(common.arg_path(u, 0))
    a1 = common.arg_path(u, 1)
    la = common.strip_refs(common.arg_path(ld, 0))
    # (the result may pass through the return slot of a helper written in place before reaching _0)
    ret_ok = u.dest['l'] == 0 or ('call', u.bb) in b.origins(0) or any(s_['place']['l'] == 0 and s_['rv']['k'] == 'use' and b.access_path(s_['rv']['op'], at=bb_) == ['call@bb%d' % u.bb] for bb_, _, s_ in b.assigns())
    ok = ((a1 == ['call@bb%d' % ld.bb] or b.origins(u.args[1]) == {('call', ld.bb)}) and bool(a0) and a0[-1:] == ['last_reload_id'] and a0[0] == 'arg1'
          and bool(la) and la[0] == 'arg1' and 'reload_id' in la and ret_ok)
    R.check(ok, cfg, b.path, 'reloaded=last.update(id.load())',
            'ReloadWatcher::reloaded must return last_reload_id.update(reload_id.load()); got update(%s, %s), load(%s)' % (a0, a1, la), u.loc())
    # the None arm returns false
    paths = enumerate_paths(b) or []
    for p in paths:
        if u.bb not in p.blocks:
            rets = [(bb, s) for bb, _, s in p.stmts() if s['place']['l'] == 0]
            okn = len(rets) == 1 and rets[0][1]['rv']['k'] == 'use' and \
                (rets[0][1]['rv']['op'].get('text') == 'false' or b.access_path(rets[0][1]['rv']['op'], at=rets[0][0]) == ['const:false']
                 or value_on_path(p, rets[0][1]['rv']['op']) == 'false')
            R.check(okn, cfg, b.path, 'no-watcher-arm=false', 'a watcher without reload id must report false', b.loc())
