"""C05 -- hot-reloading converges (structural clauses only).
DESIGN.md section 4, C05."""
import re

import common
from c06 import r2 as only_successful_reloads_write
from c09 import r3 as failed_reload_untouched
from c14 import r4 as record_before_nested_load
from common import eq_structure, hash_sequence, make_pt, pt_deref
from mir import agg_direct, agg_stmts

LEVEL = 'other'
EXPLANATION = (
    'Necessary structural clauses of convergence, checked on the MIR of every hot-reloading configuration: (R1) '
    'Cache::read / read_dir record the file / directory before touching the source on the reloader-present edge, and '
    'only the Cache impl (and AnySource through it) ever obtains the source; (R2) a successful hot-reloaded load '
    'registers (id, the dependencies recorded by that very load, type) with the reloader; (R3) the dependency DFS '
    'pushes in post-order and its only consumer reverses the list, so dependencies are reloaded before dependents; (R4) '
    'a reload runs inside records::record, returns the new dependencies only when it wrote, and DepsGraph::insert adds '
    'the reverse edge of every new dependency and removes that of every dropped one (old minus new); (R5) the '
    'reloader drains cache messages before looking at events; the owned / borrowed / dyn views of a Dependency agree '
    'variant by variant in Hash and Eq, so graph look-ups by borrowed key hit. Not decided: that the value after '
    'hot_reload equals a fresh load (a fixpoint over values), event delivery by the OS.')
TRUSTED = ['rustc MIR construction', 'hashbrown semantics', 'crossbeam-channel FIFO delivery', 'amfacts driver + rule engine in /verif/sa']

REC = 'hot_reloading::records::'
D = 'hot_reloading::dependencies::'


def run(ctx):
    rep = ctx.report
    R1 = rep.rule('C05.R1', 'every source access records first; only the Cache impl reads the source', floor=5)
    R2 = rep.rule('C05.R2', 'successful hot-reloaded loads register with the dependencies they recorded', floor=1)
    R3 = rep.rule('C05.R3', 'dependencies first: post-order push + reversed consumption', floor=2)
    R4 = rep.rule('C05.R4', 'reload re-learns dependencies: forward and reverse edges are both updated', floor=4)
    R5 = rep.rule('C05.R5', 'cache messages are drained before events', floor=1)
    R6 = rep.rule('C05.R6', 'Dependency / BorrowedDependency / dyn Key agree in Hash and Eq', floor=6)
    R7 = rep.rule('C05.R7', 'every notified entry that the graph knows reaches the change set, then the update runs', floor=3)
    S1 = rep.rule('C14.R4', 'asset dependencies recorded before the nested load (shared with C14)', floor=4)
    S2 = rep.rule('C06.R2', 'only successful reloads write (shared with C06)', floor=6)
    S3 = rep.rule('C09.R3', 'failed reload leaves the graph untouched (shared with C09)', floor=2)
    S4 = rep.rule('C10.R8', 'AssetMap::insert runs on_insert (the registration) whenever the entry was stored, and only then (shared with C10)', floor=2)
    S5 = rep.rule('C09.R1', 'a nested load gives the recorder back to the load around it: what that load reads afterwards is still recorded (CellGuard restores the previous recorder; shared with C09)', floor=5)
    R8 = rep.rule('C05.R8', 'the plumbing between cache, reloader and graph: hot_reload asks the reloader, AddAsset / AddOwnedAsset reach the graph, an owned load does not downgrade a cached node, reloadable by default', floor=7)
    for cfg, F in ctx.hr_cfgs():
        r8(R8, cfg, F)
        R8.finish_cfg(cfg)
        from c09 import r1 as recorder_restored
        recorder_restored(S5, cfg, F)
        S5.finish_cfg(cfg)
        r1(R1, cfg, F)
        r2(R2, cfg, F)
        r3(R3, cfg, F)
        r4(R4, cfg, F)
        r5(R5, cfg, F)
        r6(R6, cfg, F)
        r7(R7, cfg, F)
        R7.finish_cfg(cfg)
        record_before_nested_load(S1, cfg, F)
        only_successful_reloads_write(S2, cfg, F)
        failed_reload_untouched(S3, cfg, F)
        from c10 import r8 as on_insert_iff_stored
        on_insert_iff_stored(S4, cfg, F)
        for r in (R1, R2, R3, R4, R5, R6, S1, S2, S3, S4):
            r.finish_cfg(cfg)


def r8(R8, cfg, F):
    """Each of these is a one-line link whose removal makes hot-reloading silently do nothing (every test that does not reload
    keeps passing)."""
    # (a) AssetCache::hot_reload hands the map to the reloader whenever there is one
    b = F.body('cache::AssetCache::<S>::hot_reload')
    if not b:
        R8.missing(cfg, 'AssetCache::hot_reload')
    else:
        rl = [c for c in b.calls() if c.callee and c.callee.best == 'hot_reloading::HotReloader::reload']
        ok = len(rl) == 1 and 'assets' in (common.deep_path(b, rl[0].args[1]) or [])
        if ok:
            gs = [x for x in common.guards_of(b, rl[0].bb)]
            ok = len(gs) == 1 and gs[0][3][0] == 'discr' and 'reloader' in (common.deep_path(b, gs[0][3][1]) or []) and common.guard_variant(b, gs[0]) == 1 \
                and common.inevitable(b, gs, rl[0].bb)
        R8.check(ok, cfg, b.path, 'hot_reload->HotReloader::reload(assets)', 'hot_reload must call HotReloader::reload(&self.assets) whenever the cache has a reloader', b.loc())
    # (b) the handlers of AddAsset / AddOwnedAsset store what they were sent
    for h, callee, nargs in (('add_asset', 'insert_asset', 3), ('add_owned_asset', 'insert_owned_asset', 2)):
        b = F.body('hot_reloading::paths::HotReloadingData::' + h)
        if not b:
            R8.missing(cfg, 'HotReloadingData::' + h)
            continue
        cs = [c for c in b.calls() if c.callee and c.callee.best == D + 'DepsGraph::' + callee]
        ok = len(cs) == 1 and common.inevitable(b, [], cs[0].bb) and 'deps' in (common.deep_path(b, cs[0].args[0]) or [])
        if ok:
            ps = [common.strip_refs(common.deep_path(b, a, at=cs[0].bb)) for a in cs[0].args[1:1 + nargs]]
            ok = all(p_ and p_[0] == 'arg2' for p_ in ps) and len({tuple(p_) for p_ in ps}) == nargs
        R8.check(ok, cfg, b.path, h + '->DepsGraph::' + callee, 'the handler of the message must register the key, dependencies (and type) it was sent in the dependency graph, unconditionally', b.loc())
    # (c) an owned load never takes the reloadable type away from a node whose asset is cached
    b = F.body(D + 'DepsGraph::insert_owned_asset')
    if not b:
        R8.missing(cfg, 'DepsGraph::insert_owned_asset')
    else:
        ins = [c for c in b.calls() if c.callee and c.callee.best == D + 'DepsGraph::insert_node']
        look = [c for c in b.calls() if c.callee and c.callee.name in ('get', 'get_mut') and 'HashMap' in c.callee.best]
        isome = None
        ok = len(ins) == 1 and len(look) == 1
        if ok:
            # the insertion runs unless the node exists and its typ is Some: removing the (node found, typ is Some) edges must cut it off
            # from nothing else, and it must be unreachable through them
            g_node = common.guarded_by_variant(b, ins[0].bb, [['call@bb%d' % look[0].bb]], 1)
            typ_sw = [bb for bb, t in b.terms() if t['k'] == 'switch' and (common.switch_test(b, bb) or ('', []))[0] == 'discr' and 'typ' in ((common.switch_test(b, bb) or ('', []))[1] or [])]
            ok = len(typ_sw) >= 1
            if ok:
                some_edges = [(sw, b.variant_edge(sw, 1)) for sw in typ_sw]
                none_edges = [(sw, d) for sw in typ_sw for d, _ in b.edges(sw) if d != b.variant_edge(sw, 1)]
                # (booleans followed path-sensitively: `let cached = matches!(..); if !cached {..}`)
                via_some = any(ins[0].bb in common.reach_bool(b, d) for _, d in some_edges if d is not None)
                via_none = any(ins[0].bb in common.reach_bool(b, d) for _, d in none_edges)
                # after "the node exists and its typ is Some" the insertion must be unreachable; after "typ is None" it must be reachable
                ok = not via_some and via_none
        R8.check(ok, cfg, b.path, 'owned-load-keeps-cached-node', 'insert_owned_asset must leave a node whose asset is cached (typ is Some) as it is: overwriting it with typ = None stops the cached asset from reloading', b.loc())
    # (d) reloadable unless a type says otherwise
    for cp in ('asset::Asset::HOT_RELOADED', 'asset::Compound::HOT_RELOADED', '<dirs::Directory<T> as asset::Compound>::HOT_RELOADED', '<dirs::RecursiveDirectory<T> as asset::Compound>::HOT_RELOADED'):
        cb = F.body(cp)
        if not cb:
            R8.missing(cfg, cp)
            continue
        rets = [st for _, _, st in cb.assigns() if st['place']['l'] == 0]
        ok = len(rets) == 1 and rets[0]['rv']['k'] == 'use' and rets[0]['rv']['op'].get('text') == 'true'
        R8.check(ok, cfg, cp, 'default-is-reloadable', '%s must be `true`: assets (and directories) follow their source unless their type opts out' % cp, cb.loc())


def r1(R1, cfg, F):
    for meth, rec, nargs in (('read', 'add_file_record', 3), ('read_dir', 'add_dir_record', 2)):
        b = F.body('<T as anycache::Cache>::' + meth)
        if not b:
            R1.missing(cfg, 'Cache::' + meth)
            continue
        rl = [c for c in b.calls() if c.callee and c.callee.name == 'reloader']
        ar = [c for c in b.calls() if c.callee and c.callee.best == REC + rec]
        src = [c for c in b.calls() if c.callee and c.callee.defp == 'source::Source::' + meth]
        ok = len(rl) == 1 and len(ar) == 1 and len(src) == 1
        why = 'shape'
        if ok:
            sw = b.primary_switch(rl[0].dest['l'])
            some = b.variant_edge(sw, 1) if sw is not None else None
            none_edges = [(sw, d) for d, _ in b.edges(sw) if d != some] if sw is not None else []
            # with a reloader present, every path from the entry to the source access passes the record first
            # (recording only after a successful access would lose the dependency on an entry whose read failed:
            #  the asset then never notices that the entry was repaired)
            ok = some is not None and b.dominates(sw, src[0].bb) and src[0].bb not in b.reachable([0], removed_edges=none_edges, removed_blocks=[ar[0].bb])
            why = 'with a reloader present the source can be accessed before / without recording the entry'
            if ok:
                want = [['arg2'], ['arg3']][:nargs - 1]
                got = [b.access_path(a) for a in ar[0].args[1:nargs]]
                srcargs = [b.access_path(a) for a in src[0].args[1:nargs]]
                ds = b.downcast_source(ar[0].args[0])
                ok = got == want and srcargs == want and bool(ds) and ds[0] == rl[0].dest['l'] and ds[1] == 'Some'
                why = 'recorded %s, read %s (expected both %s)' % (got, srcargs, want)
        R1.check(ok, cfg, b.path, rec + '-before-Source::' + meth, 'Cache::%s must record exactly the entry it reads, with the cache\'s reloader, before reading: %s' % (meth, why), b.loc())
    # who may obtain the source
    gs = sorted({c.body.path for c in F.calls_to(r'^anycache::RawCache::get_source$|as anycache::RawCache>::get_source$')})
    want = ['<T as anycache::Cache>::exists', '<T as anycache::Cache>::read', '<T as anycache::Cache>::read_dir']
    R1.check(gs == want, cfg, 'anycache::RawCache::get_source', 'callers={Cache::read,read_dir,exists}', 'the source may be obtained only by Cache::read/read_dir/exists; callers %s' % gs)
    for meth in ('read', 'read_dir', 'exists'):
        b = F.body("<anycache::AnySource<'_> as source::Source>::" + meth)
        if not b:
            R1.missing(cfg, 'AnySource::' + meth)
            continue
        cs = [c.callee.defp for c in b.calls() if c.callee]
        R1.check(cs == ['anycache::Cache::' + meth], cfg, b.path, 'delegates-to-Cache::' + meth, 'AnySource::%s must delegate to the recording Cache::%s only; calls %s' % (meth, meth, cs), b.loc())
    rs = F.body("anycache::AnyCache::<'a>::raw_source")
    if rs:
        ag = [s for _, _, s in rs.assigns() if s['place']['l'] == 0 and s['rv']['k'] == 'aggregate']
        R1.check(len(ag) == 1 and ag[0]['rv'].get('adt') == 'anycache::AnySource' and not rs.calls(), cfg, rs.path, 'raw_source-is-AnySource', 'AnyCache::raw_source must hand out the recording AnySource', rs.loc())
    else:
        R1.missing(cfg, 'AnyCache::raw_source')


def r2(R2, cfg, F):
    """registration = (a) load_and_record hands back the dependencies recorded by this very load whenever the type
    is hot-reloaded and the cache has a reloader, (b) RawCache::add_asset registers them from the on_insert callback
    of AssetMap::insert, for this (id, typ), whenever there are dependencies and a reloader, (c) an owned load
    registers its node only when the load succeeded."""
    deep, thru = common.deep_path, common.through_closure
    b = F.body('asset::load_and_record')
    if not b:
        R2.missing(cfg, 'asset::load_and_record')
        return
    ok, why, rc = common.records_iff_hot_reloaded_and_reloader(b, REC + 'record')
    if True:
        me = 'call@bb%d' % rc.bb if rc is not None else '?'
        if ok:
            # every returned pair is (entry of this record, Some(deps of this record)) or (plain load, None)
            rets = [s for _, _, s in b.assigns() if s['place']['l'] == 0 and not s['place']['p']]
            n_rec = n_plain = 0
            for s in rets:
                if s['rv']['k'] != 'aggregate' or len(s['rv'].get('ops') or []) != 2:
                    ok = False
                    why = 'unrecognised return value'
                    break
                e, d = s['rv']['ops']
                pe = deep(b, e)
                if pe == [me, '0']:
                    da = [a for a in agg_stmts(b, d) if a['rv'].get('variant_name') == 'Some']
                    if len(da) == 1 and deep(b, da[0]['rv']['ops'][0]) == [me, '1']:
                        n_rec += 1
                    else:
                        ok = False
                        why = 'the entry of a recorded load is not returned with Some(the dependencies recorded by that load)'
                else:
                    cr = b.call_roots(d)
                    none = [a for a in agg_stmts(b, d) if a['rv'].get('variant_name') == 'None']
                    if (len(cr) == 1 and cr[0].callee and cr[0].callee.best.endswith('as std::default::Default>::default')) or none:
                        n_plain += 1
                    else:
                        ok = False
                        why = 'an unrecorded load must return no dependencies (None): a type that is not hot-reloaded would be registered'
            ok = ok and n_rec == 1
    R2.check(ok, cfg, b.path, 'recorded-load-returns-its-own-deps', 'load_and_record: %s' % why, b.loc())
    # the recorded closure is the load of (cache, id)
    cb = F.body('asset::load_and_record::{closure#0}')
    if cb:
        ind = [c for c in cb.calls() if common.user_call_kind(c)]
        # (the call may sit in a small accessor written in place: its result then reaches _0 through that accessor's return slot)
        R2.check(len(ind) == 1 and (ind[0].dest['l'] == 0 or cb.origins(0) == {('call', ind[0].bb)}), cfg, cb.path, 'recorded-closure-is-the-load', 'the closure given to record must be exactly the load call', cb.loc())
    else:
        R2.missing(cfg, 'load_and_record::{closure#0}')
    # (b) the cached load registers from the on_insert callback
    pb = F.body('anycache::RawCache::add_asset')
    regs = F.calls_to(r'^hot_reloading::HotReloader::add_asset$')
    if not pb or len(regs) != 1:
        R2.unrecognised(cfg, 'anycache::RawCache::add_asset', 'one call of HotReloader::add_asset in the crate', pb.loc() if pb else None)
    else:
        reg = regs[0]
        cb = reg.body
        ld = [c for c in pb.calls() if c.callee and c.callee.best == 'asset::load_and_record']
        ins = [c for c in pb.calls() if c.callee and c.callee.defp == 'anycache::AssetMap::insert']
        ok = cb.kind == 'Closure' and cb.root == pb.path and len(ld) == 1 and len(ins) == 1
        why = 'the registration is not in a closure of RawCache::add_asset'
        if ok:
            ld, ins = ld[0], ins[0]
            me = 'call@bb%d' % ld.bb
            cs = common.closure_sites(pb, cb.path)
            ok = len(cs) == 1 and len(ins.args) == 3 and pb.access_path(ins.args[2]) == ['agg@bb%d.%d' % (cs[0][0], cs[0][1])]
            why = 'the registering closure is not the on_insert argument of AssetMap::insert'
        if ok:
            g = common.guards_of(cb, reg.bb)
            tests = sorted((lab, t[0], tuple(thru(pb, cb, t[1]) or ())) for _, _, lab, t in g)
            rl = [c for c in cb.calls() if c.callee and c.callee.name == 'reloader']
            want = sorted([('sw:1', 'discr', (me, '1')), ('sw:1', 'discr', ('call@bb%d' % rl[0].bb,) if rl else ())])
            ok = tests == want and common.inevitable(cb, g, reg.bb)
            why = 'registration must happen exactly when this load returned dependencies and the cache has a reloader; conditions found: %s' % tests
        if ok:
            a = [thru(pb, cb, x) for x in reg.args]
            ok = a[0] == ['call@bb%d' % rl[0].bb, 'as:Some', '0'] and a[2] == [me, '1', 'as:Some', '0'] and a[3] == ['arg3'] \
                and bool(a[1]) and a[1][0].startswith('call@') and path_is_id(pb, a[1]) \
                and deep(pb, ld.args[2]) == ['arg3'] and path_is_id(pb, deep(pb, ld.args[1]), clone=True)
            why = 'add_asset must receive (the id being loaded, the dependencies returned by this load_and_record, the type being loaded); got %s' % a[1:]
        R2.check(ok, cfg, pb.path, 'stored-load-registers-its-own-deps', 'RawCache::add_asset: %s' % why, reg.loc())
    # (c) owned loads
    ob = F.body('<T as anycache::Cache>::load_owned_entry')
    if not ob:
        R2.missing(cfg, 'Cache::load_owned_entry')
        return
    reg = [c for c in ob.calls() if c.callee and c.callee.best == 'hot_reloading::HotReloader::add_owned_asset']
    ld = [c for c in ob.calls() if c.callee and c.callee.best == 'asset::load_and_record']
    ok = len(reg) == 1 and len(ld) == 1
    why = 'shape: one load_and_record and one add_owned_asset expected'
    if ok:
        reg, ld = reg[0], ld[0]
        me = 'call@bb%d' % ld.bb
        g = common.guards_of(ob, reg.bb)
        after = ob.reachable([ld.bb])
        tests = sorted((lab, t[0], tuple(deep(ob, t[1]) or ())) for sw, _, lab, t in g if sw in after)
        r0 = deep(ob, reg.args[0]) or ['?']
        rl = [c for c in ob.calls() if c.callee and c.callee.name == 'reloader' and 'call@bb%d' % c.bb == r0[0]]
        want = sorted([('sw:0', 'discr', (me, '0')), ('sw:1', 'discr', (me, '1')), ('sw:1', 'discr', ('call@bb%d' % rl[0].bb,) if rl else ())])
        # registering the node of a failed owned load as well is harmless (it is never reloaded, typ = None)
        ok = tests in (want, want[1:]) and want[0][0] == 'sw:0' and common.inevitable(ob, [x for x in g if x[0] in after], reg.bb)
        why = 'an owned load must register its node whenever it succeeded with dependencies in a cache with a reloader (and under no other condition); conditions found: %s' % tests
        if ok:
            a = [deep(ob, x) for x in reg.args]
            ok = a[2] == [me, '1', 'as:Some', '0'] and a[3] == ['arg3'] and path_is_id(ob, a[1]) and deep(ob, ld.args[2]) == ['arg3'] \
                and path_is_id(ob, deep(ob, ld.args[1]), clone=True)
            why = 'add_owned_asset must receive (id, dependencies of this load, type); got %s' % a[1:]
        if ok:
            # the entry handed out is the one of this load (possibly re-wrapped: `Ok(entry?)`)
            roots = ob.origins(0, passthrough=common.make_pt(common.TRY_BRANCH, r'FromResidual<.*>>::from_residual$'))
            others = [r for r in roots if r[0] == 'call' and r[1] != ld.bb]
            ok = ('call', ld.bb) in roots and not others
            why = 'load_owned_entry must return the entry produced by load_and_record; it returns a value made from %s' % sorted(roots)
    R2.check(ok, cfg, ob.path, 'owned-load-registers-its-own-deps', 'load_owned_entry: %s' % why, ob.loc())


def path_is_id(b, ap, clone=False):
    """`ap` names the SharedString built from the `id: &str` parameter (arg2), possibly cloned"""
    if not ap or not ap[0].startswith('call@bb') or len(ap) != 1:
        return False
    site = [c for c in b.calls() if 'call@bb%d' % c.bb == ap[0]]
    if len(site) != 1 or not site[0].callee:
        return False
    c = site[0]
    if c.callee.best.endswith('as std::clone::Clone>::clone'):
        inner = common.deep_path(b, c.args[0])
        inner = [e for e in (inner or []) if e != '&']
        return path_is_id(b, inner)
    return c.callee.best == '<utils::string::SharedString as std::convert::From<&str>>::from' and common.deep_path(b, c.args[0]) == ['arg2']


def r3(R3, cfg, F):
    b = common.find_visit(F)
    if not b:
        R3.missing(cfg, 'DepsGraph::visit')
        return
    rec = [c for c in b.calls() if c.callee and c.callee.best == b.path]
    push = [c for c in b.calls() if c.callee and c.callee.name == 'push' and 'Vec' in c.callee.best]
    if not rec or len(push) != 1:
        R3.unrecognised(cfg, b.path, 'a self-recursive DFS with one push onto the order list', b.loc())
        return
    after = b.reachable([push[0].target]) if push[0].target is not None else set()
    ok = not any(r.bb in after for r in rec) and all(push[0].bb in b.reachable([r.target]) for r in rec if r.target is not None)
    # recursion goes to the *reverse* dependencies of the node of the current key: the iterator whose elements are visited
    # is made from `node.rdeps` (by .iter(), `&*rdeps`, into_iter ..)
    pt_it = common.make_pt(r'IntoIterator.*::into_iter$', r'::iter$', r'Deref>::deref$')
    nx = [c for c in b.calls() if c.callee and c.callee.name == 'next' and c.callee.trait == 'std::iter::Iterator']
    okr = False
    for n in nx:
        cur = n.args[0]
        for _ in range(5):
            if 'rdeps' in (common.deep_path(b, cur) or []):
                okr = True
                break
            r = b.call_roots(cur)
            if len(r) != 1 or not r[0].callee or r[0].callee.name not in ('iter', 'into_iter', 'deref', 'deref_mut') or not r[0].args:
                break
            cur = r[0].args[0]
    R3.check(ok and okr, cfg, b.path, 'post-order-push-over-rdeps', 'visit must recurse into the reverse dependencies first and push the key afterwards (post-order)', push[0].loc())
    ib = F.body(D + 'TopologicalSort::into_iter')
    ts = F.body(D + 'DepsGraph::topological_sort_from')
    if not ib or not ts:
        R3.missing(cfg, 'TopologicalSort::into_iter / DepsGraph::topological_sort_from')
        return
    # with a post-order DFS over reverse dependencies the list must be reversed exactly once between the DFS and its
    # consumer: `.rev()` where it is consumed, or `.reverse()` where it is produced
    rev = [c for c in ib.calls() if c.callee and c.callee.defp == 'std::iter::Iterator::rev']
    ii = [c for c in ib.calls() if c.callee and c.callee.name == 'into_iter']
    adapt = [c.callee.name for c in ib.calls() if c.callee and c.callee.trait == 'std::iter::Iterator' and c.callee.name != 'rev']
    okc = len(ii) == 1 and not adapt and len(rev) <= 1 and ib.access_path(ii[0].args[0]) == ['arg1', '0']
    if okc and rev:
        okc = rev[0].dest['l'] == 0 and ib.access_path(rev[0].args[0]) == ['call@bb%d' % ii[0].bb]
    elif okc:
        okc = ii[0].dest['l'] == 0
    # (the value may be built by a helper written in place and reach _0 through its return slot)
    ags = [(bb_, j_, s) for bb_, j_, s in ts.assigns() if s['rv']['k'] == 'aggregate' and s['rv'].get('adt') == D + 'TopologicalSort' and not ts.blocks[bb_]['cleanup']]
    ret_roots = ts.origins(0)
    ag = [s for bb_, j_, s in ags if s['place']['l'] == 0 or ('agg', bb_, j_) in ret_roots]
    okp = len(ag) == 1 and len(ags) == 1
    revp = [c for c in ts.calls() if c.callee and re.search(r'(slice::<impl \[T\]>|Vec::<T.*>)::reverse$', c.callee.best)]
    if okp:
        lp = common.deep_path(ts, ag[0]['rv']['ops'][0]) or []
        okp = lp[-1:] == ['list'] or 'list' in lp
        if not okp:
            # the sort state may be built by a constructor written in place: then the list returned must come out of the
            # very state that is handed to visit
            vis0 = [c for c in ts.calls() if c.callee and c.callee.best == b.path]
            ro = ts.origins(ag[0]['rv']['ops'][0], passthrough=common.pt_deref)
            okp = bool(vis0) and all(any(ro & ts.origins(a, passthrough=common.pt_deref) for a in v.args) for v in vis0)
        # a reversal in the producer must act on that list, once, after the visits
        vis = [c for c in ts.calls() if c.callee and c.callee.best == b.path]
        for r in revp:
            roots = ts.call_roots(r.args[0], passthrough=common.make_pt(r'DerefMut>::deref_mut$'))
            rp = [common.deep_path(ts, x.args[0]) or [] for x in roots if x.args] + [common.deep_path(ts, r.args[0]) or []]
            lists = [a for a in [ag[0]['rv']['ops'][0]] if True]
            same = any('list' in x for x in rp) or bool(ts.origins(r.args[0], passthrough=common.make_pt(r'DerefMut>::deref_mut$')) & ts.origins(lists[0]))
            okp = okp and same and all(v.bb not in ts.reachable([r.target]) for v in vis)
    n_rev = len(rev) + len(revp)
    R3.check(okc and okp and n_rev == 1, cfg, ib.path, 'consumer-reverses-post-order',
             'with a post-order DFS over reverse dependencies the list must be reversed exactly once (by the consumer\'s .rev() or by a .reverse() '
             'after the visits) so that dependencies come first; found %d reversal(s)' % n_rev, ib.loc())
    R3.check(okp, cfg, ts.path, 'returns-the-visit-order', 'topological_sort_from must return the list filled by visit', ts.loc())


def r4(R4, cfg, F):
    b = F.body("anycache::AnyCache::<'a>::reload_untyped")
    if not b:
        R4.missing(cfg, 'reload_untyped')
    else:
        rc = [c for c in b.calls() if c.callee and c.callee.best == REC + 'record']
        somes = [s for _, _, s in b.assigns() if s['place']['l'] == 0 and s['rv']['k'] == 'aggregate' and s['rv'].get('variant_name') == 'Some']
        ok = len(rc) == 1 and len(somes) == 1
        if ok:
            roots = b.origins(somes[0]['rv']['ops'][0])
            ok = ('call', rc[0].bb) in roots
        R4.check(ok, cfg, b.path, 'returns-deps-recorded-by-the-reload', 'reload_untyped must return the dependencies recorded while reloading', b.loc())
    # the graph-update routine is found by what it does: the DepsGraph method computing old.difference(new)
    cands = [c.body for c in F.calls_to('^' + re.escape(REC + 'Dependencies::difference') + '$') if c.body.path.startswith(D + 'DepsGraph::')]
    ib = cands[0] if len(cands) == 1 else None
    if not ib:
        R4.missing(cfg, 'the DepsGraph method that diffs old and new dependencies')
        return
    # DepsGraph::insert (what reload and add_asset call) reaches it with its own arguments and Some(typ)
    pub = F.body(D + 'DepsGraph::insert')
    if not pub:
        R4.missing(cfg, 'DepsGraph::insert')
        return
    if pub.path != ib.path:
        cs = [c for c in pub.calls() if c.callee and c.callee.best == ib.path]
        ok = len(cs) == 1 and [pub.access_path(a) for a in cs[0].args[:3]] == [['arg1'], ['arg2'], ['arg3']]
        if ok:
            ag = agg_stmts(pub, cs[0].args[3])
            ok = len(ag) == 1 and ag[0]['rv'].get('variant_name') == 'Some' and pub.access_path(ag[0]['rv']['ops'][0]) == ['arg4']
        R4.check(ok, cfg, pub.path, 'insert-forwards-to-graph-update', 'DepsGraph::insert must forward (key, deps, Some(typ)) to the graph-update routine', pub.loc())
    pt = make_pt(r'Dependencies::iter$', r'IntoIterator.*::into_iter$', r'Iterator>::next$', r'Iterator::cloned$', r'Iterator::collect$', r'Dependencies::difference$')
    ins = [c for c in ib.calls() if c.callee and c.callee.name == 'insert' and 'HashSet' in c.callee.best]
    rem = [c for c in ib.calls() if c.callee and c.callee.name == 'remove' and 'HashSet' in c.callee.best]

    def through_rdeps(c):
        r = ib.call_roots(c.args[0])
        return len(r) == 1 and 'rdeps' in (ib.access_path(r[0].args[0]) or [])
    # (a) reverse edge added for every new dep: inside the loop over deps.iter()
    ok = False
    if len(ins) == 1 and through_rdeps(ins[0]):
        nx = [c for c in ib.calls() if c.callee and c.callee.name == 'next' and ib.origins(c.args[0], passthrough=pt) == {('arg', 3)}]
        if len(nx) == 1:
            sw = ib.primary_switch(nx[0].dest['l'])
            some = ib.variant_edge(sw, 1) if sw is not None else None
            # each iteration (Some edge back to next) inserts asset_key into the rdeps of that dep's node
            ok = some is not None and nx[0].bb not in ib.reachable([some], removed_blocks=[ins[0].bb])
            ent = [c for c in ib.calls() if c.callee and c.callee.name == 'entry' and c.bb in ib.reachable([some]) and ib.dominates(c.bb, ins[0].bb)]
            ok = ok and len(ent) >= 1
            if ok:
                key = ib.call_roots(ent[0].args[1], passthrough=make_pt(r'Clone>::clone$'))
                src = ib.downcast_source(ent[0].args[1]) or (ib.downcast_source(key[0].args[0]) if key else None)
                kk = ib.call_roots(ent[0].args[1])
                src = ib.downcast_source(kk[0].args[0]) if kk else None
                ok = bool(src) and src[0] == nx[0].dest['l']
                val = ib.call_roots(ins[0].args[1])
                ok = ok and len(val) == 1 and ib.origins(val[0].args[0]) == {('arg', 2)}
    R4.check(ok, cfg, ib.path, 'reverse-edge-added-for-every-dependency', 'DepsGraph::insert must add asset_key to the rdeps of the node of every dependency in the new set', ib.loc())
    # (b) reverse edge removed for every dropped dep: removed = old.difference(new)
    df = [c for c in ib.calls() if c.callee and c.callee.best == REC + 'Dependencies::difference']
    ok = len(df) == 1 and len(rem) == 1 and through_rdeps(rem[0])
    if ok:
        a0, a1 = ib.access_path(df[0].args[0]), ib.access_path(df[0].args[1])
        ok = bool(a0) and a0[-2:] == ['deps', '&'] and a0[0].startswith('call@bb') and ib.origins(df[0].args[1]) == {('arg', 3)}
        # the node looked up for removal is keyed by an element of `removed`, and the element removed from its rdeps is asset_key
        gm = [c for c in ib.calls() if c.callee and c.callee.name == 'get_mut' and 'HashMap' in c.callee.best]
        pt2 = make_pt(r'IntoIterator.*::into_iter$', r'Iterator>::next$', r'Iterator::cloned$', r'Iterator::collect$')
        ok = ok and len(gm) == 1 and ('call', df[0].bb) in ib.origins(gm[0].args[1], passthrough=pt2) and ib.origins(rem[0].args[1]) == {('arg', 2)}
        ok = ok and ib.dominates(gm[0].bb, rem[0].bb)
    R4.check(ok, cfg, ib.path, 'reverse-edge-removed-for-every-dropped-dependency', 'DepsGraph::insert must remove asset_key from the rdeps of every dependency that is in the old set but not in the new one (old.difference(new))', ib.loc())
    # (d) nodes are never deleted one by one: a node whose last dependent went away may still be a cached, reloadable asset
    nrem = 0
    for fb in F.fn_bodies():
        for c in fb.calls():
            if not c.callee or not c.args or c.args[0]['k'] not in ('copy', 'move'):
                continue
            ty = c.args[0]['place']['ty']
            onmap = bool(re.search(r'HashMap<hot_reloading::records::Dependency, hot_reloading::dependencies::GraphNode', ty)) and ty.startswith('&mut') \
                and c.callee.name in ('remove', 'remove_entry', 'retain', 'drain', 'extract_if')
            onentry = bool(re.search(r'hash_map::OccupiedEntry<.*hot_reloading::records::Dependency, hot_reloading::dependencies::GraphNode', ty)) \
                and c.callee.name in ('remove', 'remove_entry')
            if onmap and fb.path == D + 'DepsGraph::remove_asset' and c.callee.name in ('remove', 'remove_entry') and len(c.args) > 1:
                # the node of the asset that is being removed from the cache (the function's own key) is not a cached asset
                # any more: deleting it instead of keeping it with typ = None loses nothing
                dp = common.value_built_from(fb, c.args[1], at=c.bb)
                if dp == ['arg2']:
                    continue
            if onmap or onentry:
                nrem += 1
                R4.bad(cfg, fb.path, 'graph-node-deleted', '`%s` deletes a node of the dependency graph: the node may be an asset that is still cached and reloadable, '
                       'which would then stop following its source (only a whole-graph reset on clear() is allowed)' % c.callee.best, c.loc())
    if nrem == 0:
        R4.ok(cfg, D + 'DepsGraph', 'no-single-node-deletion')
    # (c) forward edges and type replaced
    st = [(s['place'], s['rv']) for bbx, _, s in ib.assigns() if s['place']['p'] and isinstance(s['place']['p'][-1], dict) and s['place']['p'][-1].get('n') in ('deps', 'typ')
          and s['place']['p'][-1].get('of') == D + 'GraphNode' and not ib.blocks[bbx]['cleanup']]
    names = sorted(p['p'][-1]['n'] for p, _ in st)
    okc = names == ['deps', 'typ'] and all((ib.origins(rv['op']) if rv['k'] == 'use' else set()) <= {('arg', 3), ('arg', 4)} | {r for r in ib.origins(rv['op']) if r[0] == 'agg'} for _, rv in st)
    gn = [c for c in ib.calls() if c.callee and c.callee.best == D + 'GraphNode::new']
    okc = okc and len(gn) == 1 and ib.origins(gn[0].args[0]) == {('arg', 4)} and ib.origins(gn[0].args[1]) == {('arg', 3)}
    R4.check(okc, cfg, ib.path, 'forward-edges-replaced-by-new-set', 'the node must take the new dependency set and type (both for a new and for an existing node)', ib.loc())


def r5(R5, cfg, F):
    th = F.body('hot_reloading::hot_reloading_thread')
    if not th:
        R5.missing(cfg, 'hot_reloading_thread')
        return
    ready = [c for c in th.calls() if c.callee and re.search(r"Select::<'a>::(ready|select)$", c.callee.best)]
    recvs = [c for c in th.calls() if c.callee and re.search(r'Receiver::<T>::try_recv$', c.callee.best)]
    cm = [c for c in recvs if 'CacheMessage' in c.dest['ty']]
    ev = [c for c in recvs if 'Events' in c.dest['ty']]
    if len(ready) != 1 or len(cm) != 1 or len(ev) != 1:
        R5.unrecognised(cfg, th.path, 'Select::ready, one try_recv per channel', th.loc())
        return
    sw = th.primary_switch(cm[0].dest['l'])
    err = th.variant_edge(sw, 1) if sw is not None else None
    ok = err is not None and ev[0].bb not in th.reachable([ready[0].bb], removed_edges=[(sw, err)])
    if ok:
        # ... and again before every *further* event: from a handled event the next events.try_recv is reached only
        # through an emptied cache queue (an AddAsset sent while an event was being handled is seen before the next event)
        esw = th.primary_switch(ev[0].dest['l'])
        okev = th.variant_edge(esw, 0) if esw is not None else None
        ok = okev is not None and ev[0].bb not in th.reachable([okev], removed_edges=[(sw, err)])
    R5.check(ok, cfg, th.path, 'events-only-after-cache-queue-is-empty', 'events.try_recv must be reachable only through the Err (empty/disconnected) edge of cache_msg.try_recv, so that AddAsset messages are applied before the events that concern them', ev[0].loc())


def r6(R6, cfg, F):
    a, b = F.adt(REC + 'Dependency'), F.adt(REC + 'BorrowedDependency')
    if not a or not b:
        R6.missing(cfg, 'Dependency / BorrowedDependency')
        return
    va = [(v['name'], len(v['fields'])) for v in a['variants']]
    vb = [(v['name'], len(v['fields'])) for v in b['variants']]
    R6.check(va == vb, cfg, REC + 'BorrowedDependency', 'same-variants-order-arity', 'derived Hash hashes the discriminant: the borrowed enum must list the same variants in the same order with the same arity (%s vs %s)' % (va, vb))
    fa = [[re.sub(r"^&'\w+ ", '', f['ty']) for f in v['fields']] for v in a['variants']]
    fb = [[re.sub(r"^&('\w+ )?", '', f['ty']) for f in v['fields']] for v in b['variants']]
    R6.check(fa == fb, cfg, REC + 'BorrowedDependency', 'same-field-types-modulo-&', 'borrowed fields must be references to the owned field types (%s vs %s)' % (fa, fb))
    for adt in (REC + 'Dependency', REC + 'BorrowedDependency'):
        for tr in ('std::hash::Hash', 'std::cmp::PartialEq'):
            ims = [im for im in F.impls if im['trait'] == tr and im.get('self_adt') == adt]
            R6.check(len(ims) == 1 and ims[0]['derived'], cfg, adt, 'derived:' + tr, '%s for %s must be derived (variant-by-variant agreement relies on it)' % (tr, adt))
    hb = F.body('<dyn hot_reloading::dependencies::Key as std::hash::Hash>::hash')
    eb = F.body('<dyn hot_reloading::dependencies::Key as std::cmp::PartialEq>::eq')
    if not hb or not eb:
        R6.missing(cfg, 'dyn dependencies::Key Hash / PartialEq')
    else:
        cs = [c.callee.best for c in hb.calls() if c.callee]
        ok = len(cs) == 2 and cs[0] == D + 'Key::as_borrowed' and 'BorrowedDependency' in cs[1] and cs[1].endswith('Hash>::hash')
        R6.check(ok, cfg, hb.path, 'hash=as_borrowed().hash()', 'dyn Key must hash through its borrowed view; calls %s' % cs, hb.loc())
        cs = [c.callee.best for c in eb.calls() if c.callee]
        ok = len(cs) == 3 and cs[:2] == [D + 'Key::as_borrowed'] * 2 and 'BorrowedDependency' in cs[2] and cs[2].endswith('PartialEq>::eq')
        if ok:
            calls = [c for c in eb.calls()]
            ok = eb.origins(calls[0].args[0]) | eb.origins(calls[1].args[0]) == {('arg', 1), ('arg', 2)}
        R6.check(ok, cfg, eb.path, 'eq=as_borrowed()==as_borrowed()', 'dyn Key must compare the borrowed views of self and other; calls %s' % cs, eb.loc())
    ab = F.body('<hot_reloading::records::Dependency as hot_reloading::dependencies::Key>::as_borrowed')
    if not ab:
        R6.missing(cfg, 'Dependency::as_borrowed')
    else:
        sw = [bb for bb, t in ab.terms() if t['k'] == 'switch']
        ok = len(sw) == 1
        pairs = []
        if ok:
            for d, lab in ab.edges(sw[0]):
                if not lab.startswith('sw:'):
                    continue
                idx = int(lab[3:])
                ags = [s for s in ab.blocks[d]['stmts'] if s['k'] == 'assign' and s['place']['l'] == 0 and s['rv']['k'] == 'aggregate']
                pairs.append((a['variants'][idx]['name'], ags[0]['rv'].get('variant_name') if ags else None))
            ok = len(pairs) == len(a['variants']) and all(x == y for x, y in pairs)
        R6.check(ok, cfg, ab.path, 'variant-to-same-variant', 'as_borrowed must map every variant to the variant of the same name; mapping %s' % pairs, ab.loc())
    io = F.body("hot_reloading::records::BorrowedDependency::<'a>::into_owned")
    if io:
        sw = [bb for bb, t in io.terms() if t['k'] == 'switch' and not io.blocks[bb]['cleanup']]
        pairs = []
        for d, lab in (io.edges(sw[0]) if sw else []):
            if lab.startswith('sw:'):
                reach = io.reachable([d])
                ags = [s for bbx in sorted(reach) for s in io.blocks[bbx]['stmts'] if s['k'] == 'assign' and s['place']['l'] == 0 and s['rv']['k'] == 'aggregate']
                pairs.append((b['variants'][int(lab[3:])]['name'], sorted({s['rv'].get('variant_name') for s in ags})))
        ok = len(pairs) == len(b['variants']) and all(y == [x] for x, y in pairs)
        R6.check(ok, cfg, io.path, 'into_owned-variant-to-same-variant', 'into_owned must map every variant to the owned variant of the same name; mapping %s' % pairs, io.loc())
    bb_ = F.one(r"^hot_reloading::dependencies::<impl std::borrow::Borrow<\(dyn hot_reloading::dependencies::Key \+ 'a\)> for hot_reloading::records::Dependency>::borrow$")
    if bb_:
        R6.check(not bb_.calls() and bb_.origins(0) == {('arg', 1)}, cfg, bb_.path, 'borrow-returns-self', 'Borrow<dyn Key> for Dependency must return self', bb_.loc())
    else:
        R6.missing(cfg, 'Borrow<dyn Key> for Dependency')


def r7_loop_form(R7, cfg, F, he, th):
    """the same obligations when the batch is not walked by Events::for_each(closure) but turned into a collection that
    handle_events loops over (helpers written in place)"""
    rc = [c for c in th.calls() if c.callee and re.search(r'Receiver::<T>::try_recv$', c.callee.best) and 'Events' in c.dest['ty']]
    hc = [c for c in th.calls() if c.callee and c.callee.best == he.path]
    ok = len(rc) == 1 and len(hc) == 1
    if ok:
        src = th.downcast_source(hc[0].args[1])
        sw = th.primary_switch(rc[0].dest['l'])
        okt = th.variant_edge(sw, 0) if sw is not None else None
        ok = bool(src) and src[0] == rc[0].dest['l'] and src[1] == 'Ok' and okt is not None \
            and not (th.reachable([okt], removed_blocks=[hc[0].bb]) & (set(th.return_blocks()) | {rc[0].bb}))
    R7.check(ok, cfg, th.path, 'received-events-are-handled', 'every Events value received by the reloader must be passed to handle_events', hc[0].loc() if hc else th.loc())
    ct = [c for c in he.calls() if c.callee and c.callee.best == 'hot_reloading::dependencies::DepsGraph::contains']
    ins = [c for c in he.calls() if c.callee and c.callee.name == 'insert' and 'HashSet' in c.callee.best]
    nx = [c for c in he.calls() if c.callee and c.callee.name == 'next' and c.callee.trait == 'std::iter::Iterator']
    us = [c for c in he.calls() if c.callee and c.callee.name == 'update_if_static']
    adapt = [c.callee.name for c in he.calls() if c.callee and c.callee.trait == 'std::iter::Iterator' and c.callee.name not in ('next', 'into_iter')]
    ok = len(ct) == 1 and len(ins) == 1 and len(nx) == 1 and len(us) == 1 and not adapt
    why = 'shape: one loop over the entries (no adaptor), one DepsGraph::contains, one insertion into the change set, one update_if_static'
    if ok:
        ent = ['call@bb%d' % nx[0].bb, 'as:Some', '0']
        e1, e2 = common.strip_refs(common.deep_path(he, ct[0].args[1], at=ct[0].bb)), common.strip_refs(common.deep_path(he, ins[0].args[1], at=ins[0].bb))
        pg = common.strip_refs(common.deep_path(he, ct[0].args[0], at=ct[0].bb))
        r = he.call_roots(ins[0].args[0])
        ps = common.strip_refs(common.deep_path(he, (r[0].args[0] if len(r) == 1 and r[0].args else ins[0].args[0])))
        ok = e1 == ent and e2 == ent and pg[:1] == ['arg1'] and 'deps' in pg and ps[:1] == ['arg1'] and 'to_reload' in ps
        why = 'the entry tested against the graph and queued must be the element the loop is at, the graph self.deps and the set self.to_reload'
    if ok:
        # what is iterated is made from the Events value, whole
        it_src = he.origins(nx[0].args[0], passthrough=common.make_pt(r'IntoIterator.*::into_iter$', r'^std::iter::IntoIterator::into_iter$'))
        ok = ('arg', 2) in it_src and not [x for x in it_src if x[0] == 'arg' and x[1] != 2]
        why = 'the loop must walk the entries of the Events value it was given'
    if ok:
        sw = he.primary_switch(nx[0].dest['l'])
        some = he.variant_edge(sw, 1) if sw is not None else None
        none = he.variant_edge(sw, 0) if sw is not None else None
        tg = [(x, t) for x, t in common.call_truth_guards(he, ins[0].bb) if x is ct[0]]
        ok = some is not None and none is not None and tg == [(ct[0], True)]
        if ok:
            # a known entry is queued before the loop goes on; no element ends the walk; the update follows the walk
            t_edge = [d for d, lab in he.edges([bb for bb, t in he.terms() if t['k'] == 'switch' and ins[0].bb in he.reachable([bb]) and any(x is ct[0] for x, _ in common.call_truth_guards(he, ins[0].bb))][0])] if False else None
            after_true = he.reachable([some], removed_blocks=[ins[0].bb, nx[0].bb])
            ok = not (he.reachable([some], removed_blocks=[nx[0].bb]) & set(he.return_blocks())) and us[0].bb in he.reachable([none]) and us[0].bb not in he.reachable([some], removed_blocks=[nx[0].bb]) \
                and common.inevitable(he, [], us[0].bb)
        why = 'every entry the graph knows must be queued, no entry may end the walk, and update_if_static must run once after it'
    R7.check(ok, cfg, he.path, 'queue-all-then-update', 'handle_events: %s' % why, he.loc())
    # (the walk over the whole batch is part of the obligation above in this form; recorded under the name it has in the other)
    R7.check(ok, cfg, he.path, 'for_each-visits-every-event', 'handle_events must visit the single event and every event of a batch (no adaptor, no early exit): %s' % why, he.loc())


def r7(R7, cfg, F):
    P = 'hot_reloading::paths::'
    he = F.body(P + 'HotReloadingData::handle_events')
    cl = F.body(P + 'HotReloadingData::handle_events::{closure#0}')
    fe = F.body('hot_reloading::Events::for_each')
    th = F.body('hot_reloading::hot_reloading_thread')
    if he and th and (not cl or not fe):
        return r7_loop_form(R7, cfg, F, he, th)
    if not he or not cl or not fe or not th:
        R7.missing(cfg, 'handle_events / its closure / Events::for_each / hot_reloading_thread')
        return
    # the thread hands every received Events value to handle_events
    rc = [c for c in th.calls() if c.callee and re.search(r'Receiver::<T>::try_recv$', c.callee.best) and 'Events' in c.dest['ty']]
    hc = [c for c in th.calls() if c.callee and c.callee.best == he.path]
    ok = len(rc) == 1 and len(hc) == 1
    if ok:
        src = th.downcast_source(hc[0].args[1])
        sw = th.primary_switch(rc[0].dest['l'])
        okt = th.variant_edge(sw, 0) if sw is not None else None
        ok = bool(src) and src[0] == rc[0].dest['l'] and src[1] == 'Ok' and okt is not None \
            and not (th.reachable([okt], removed_blocks=[hc[0].bb]) & (set(th.return_blocks()) | {rc[0].bb}))
    R7.check(ok, cfg, th.path, 'received-events-are-handled', 'every Events value received by the reloader must be passed to handle_events', hc[0].loc() if hc else th.loc())
    # for_each applies f to the single event / to every event of the batch
    psw = fe.primary_switch(1)
    adt = F.adt('hot_reloading::Events')
    ok = psw is not None and adt is not None
    if ok:
        for v in adt['variants']:
            t_ = fe.variant_edge(psw, v['idx'])
            reach = fe.reachable([t_])
            if v['name'] == 'Single':
                fs = [c for c in fe.calls() if c.bb in reach and common.user_call_kind(c) == 'indirect' and fe.origins(c.args[0]) == {('arg', 2)}]
                okv = len(fs) == 1
                if okv:
                    tup = agg_direct(fe, fs[0].args[1])
                    s_ = fe.downcast_source(tup['rv']['ops'][0]) if tup is not None else None
                    okv = bool(s_) and s_[0] == 1 and s_[1] == 'Single'
            else:
                ii = [c for c in fe.calls() if c.bb in reach and c.callee and c.callee.name == 'into_iter']
                fo = [c for c in fe.calls() if c.bb in reach and c.callee and c.callee.defp == 'std::iter::Iterator::for_each']
                adaptors = [c.callee.name for c in fe.calls() if c.bb in reach and c.callee and c.callee.trait == 'std::iter::Iterator' and c.callee.name != 'for_each']
                okv = len(ii) == 1 and len(fo) == 1 and not adaptors and fe.access_path(fo[0].args[0]) == ['call@bb%d' % ii[0].bb] and fe.origins(fo[0].args[1]) == {('arg', 2)}
                if okv:
                    s_ = fe.downcast_source(ii[0].args[0])
                    okv = bool(s_) and s_[0] == 1 and s_[1] == 'Multiple'
            ok = ok and okv
    R7.check(ok, cfg, fe.path, 'for_each-visits-every-event', 'Events::for_each must apply the callback to the single event and to every event of a batch (no adaptor, no early exit)', fe.loc())
    # the closure: contains(entry) -> to_reload.insert(entry) on every path; then update_if_static
    ct = [c for c in cl.calls() if c.callee and c.callee.best == 'hot_reloading::dependencies::DepsGraph::contains']
    ins = [c for c in cl.calls() if c.callee and c.callee.name == 'insert' and 'HashSet' in c.callee.best]
    ok = len(ct) == 1 and len(ins) == 1 and cl.origins(ct[0].args[1]) == {('arg', 2)} and cl.origins(ins[0].args[1]) == {('arg', 2)}
    if ok:
        # the graph consulted and the set filled are this HotReloadingData's own `deps` and `to_reload` (captured field by
        # field, or through `self`)
        pg = common.strip_refs(common.through_closure(he, cl, ct[0].args[0]))
        ps = common.strip_refs(common.through_closure(he, cl, ins[0].args[0]))
        r = cl.call_roots(ins[0].args[0])
        if ps[:1] != ['arg1'] and len(r) == 1 and r[0].args:
            ps = common.strip_refs(common.through_closure(he, cl, r[0].args[0]))
        ok = pg[:1] == ['arg1'] and 'deps' in pg and ps[:1] == ['arg1'] and 'to_reload' in ps
    if ok:
        g = [x for x in common.guards_of(cl, ins[0].bb) if x[3] == ('val', ['call@bb%d' % ct[0].bb]) and x[2] != 'sw:0']
        ok = len(g) == 1 and common.inevitable(cl, g, ins[0].bb)
    R7.check(ok, cfg, cl.path, 'known-entry-always-queued', 'an event about an entry the graph knows must be inserted into the change set on every path', cl.loc())
    fc = [c for c in he.calls() if c.callee and c.callee.best == fe.path]
    us = [c for c in he.calls() if c.callee and c.callee.name == 'update_if_static']
    ok = len(fc) == 1 and len(us) == 1 and he.dominates(fc[0].bb, us[0].bb) and he.origins(fc[0].args[0]) == {('arg', 2)}
    if ok:
        lit = agg_direct(he, fc[0].args[1])
        # (which fields of self the closure touches is decided above, through its captures)
        ok = lit is not None and lit['rv'].get('closure') == cl.path
    R7.check(ok, cfg, he.path, 'queue-all-then-update', 'handle_events must queue every event of the batch into self.to_reload (testing self.deps), then run update_if_static', he.loc())
