"""C01 -- one stable handle per (id, type) under every interleaving.

Invariant argument (DESIGN.md section 4, C01): under a shared borrow the only
mutation of either AssetMap is insert-if-absent; destroying operations need
&mut; handed-out references point into the boxed entry owned by the map;
look-ups and inserts agree on key hashing / equality and on shard choice."""
import re

import common
from common import (MAP_KV, eq_structure, hash_sequence, is_asset_map_type, make_pt, map_access_mode,
                    map_call_kind, pt_deref)

# a reference to a stored entry: looked up, kept by or_insert*, or one arm of `match map.entry(k)`
KEPT = r"hash_map::Entry::<.*>::or_insert|hash_map::VacantEntry::<.*>::(insert|insert_entry)$|hash_map::OccupiedEntry::<.*>::(into_mut|get|get_mut)$"
FROM_MAP = r'^std::collections::HashMap::<K, V, S, A>::get$|' + KEPT
LEVEL = 'other'
EXPLANATION = (
    'Ownership/effect analysis over the MIR of every feature configuration: every call that receives the asset '
    'map (HashMap<OwnedKey,CacheEntry>, std or wrapper) or one of its Entry types is classified by callee '
    'signature (READ / ENTRY / KEEP_FIRST / DESTROY) and by how the map reference was obtained (lock guard = '
    'shared, get_mut on &mut self = exclusive); returned handles are sliced back to the map entry; the three key '
    'views are compared field by field in Hash and PartialEq; shard selection is compared between &self and '
    '&mut self. With RwLock/RefCell semantics and Rust aliasing rules these per-path facts hold for every schedule, '
    'hash seed and rehash.')
TRUSTED = ['rustc MIR construction and borrow checker', 'std/parking_lot RwLock and RefCell semantics',
           'hashbrown: Entry::or_insert keeps an occupied value; boxed values do not move on rehash',
           'amfacts driver + rule engine in /verif/sa']

MAPS = ('cache::AssetMap', 'local_cache::AssetMap')


def run(ctx):
    rep = ctx.report
    R1 = rep.rule('C01.R1', 'no map-destroying operation under a shared borrow; HashMap::entry flows only into keep-first', floor=8)
    R2 = rep.rule('C01.R2', 'extend_lifetime only in AssetMap::get/insert, on an entry that came out of the map', floor=4)
    R3 = rep.rule('C01.R3', 'every function holding an exclusive destroy site takes &mut self; public paths to it are &mut', floor=4)
    R4 = rep.rule('C01.R4', 'OwnedKey / BorrowedKey / dyn Key hash the same leaf sequence and compare all key fields', floor=7)
    R5 = rep.rule('C01.R5', 'insert returns the keep-first winner; add_asset/add_any/Cache::insert return that result', floor=5)
    R6 = rep.rule('C01.R6', 'CacheEntry is a Box newtype and is the map value type; inner() derefs the box', floor=4)
    S1 = rep.rule('C07.R1', 'every access to the stored value is classified: read under a guard / get behind the panic / write in the guard region / owned (shared with C07)', floor=2)
    R8 = rep.rule('C01.R8', 'presence never flips back to absent: a look-up reports "absent" only when the map has no entry (blocking lock, no other way out)', floor=2)
    R7 = rep.rule('C01.R7', 'get_shard and get_shard_mut have the same normal form; shards are indexed only there', floor=2)
    rep.assumptions += [
        'user Drop impls of stored values, Hash/Eq of key types and Source implementations do not re-enter the same cache while a shard lock is held',
        'RwLock/RefCell give exclusive access to writers (trusted)',
    ]
    for cfg, F in ctx.cfgs():
        r1(R1, R3, cfg, F)
        r2(R2, cfg, F)
        r4(R4, cfg, F)
        r5(R5, cfg, F)
        r6(R6, cfg, F)
        r7(R7, cfg, F)
        # "the handle stays valid and READABLE": every access to the stored value is lock-disciplined
        from c07 import r1 as value_access_discipline
        value_access_discipline(S1, cfg, F, 'hot-reloading' in ctx.cfg_features[cfg])
        r8(R8, cfg, F)
        for r in (R1, R2, R3, R4, R5, R6, R7, R8, S1):
            r.finish_cfg(cfg)


# ---------------------------------------------------------------------------

def r8(R8, cfg, F):
    """`AssetMap::get` answers None, and `contains_key` false, only when the hash map itself has no such entry: a look-up
    that gives up for another reason (a lock it did not wait for, a shortcut) makes an entry that a completed load
    returned look absent to get_cached, although nothing removed it."""
    for m in MAPS:
        b = F.body('<%s as anycache::AssetMap>::get' % m)
        if not b:
            R8.missing(cfg, '%s::get' % m)
            continue
        look = [c for c in b.calls() if map_call_kind(c) == 'READ' and c.callee.name == 'get']
        ok = len(look) == 1
        why = 'exactly one HashMap::get expected'
        if ok:
            me = [['call@bb%d' % look[0].bb]]
            nones = [bb for bb, _, st in b.assigns() if st['place']['l'] == 0 and not st['place']['p'] and st['rv']['k'] == 'aggregate' and st['rv'].get('variant_name') == 'None']
            ok = all(common.guarded_by_variant(b, bb, me, 0) for bb in nones)
            why = 'a path answers None although the map look-up did not (or was not made)'
            if ok:
                # every way to the look-up is unconditional (no fallible acquisition in front of it) and blocking
                g = [x for x in common.guards_of(b, look[0].bb)]
                acq = [c for c in b.calls() if c.callee and re.search(r'::try_(read|write|lock|borrow|borrow_mut)$', c.callee.best)]
                ok = not g and not acq
                why = 'the look-up itself is conditional, or the lock is not waited for (%s)' % ([c.callee.best for c in acq] or 'guarded')
        R8.check(ok, cfg, b.path, 'absent-only-if-not-in-map', 'AssetMap::get: %s' % why, b.loc())
        cb = F.body('<%s as anycache::AssetMap>::contains_key' % m)
        if not cb:
            R8.missing(cfg, '%s::contains_key' % m)
            continue
        ck = [c for c in cb.calls() if map_call_kind(c) == 'READ' and c.callee.name == 'contains_key']
        acq = [c for c in cb.calls() if c.callee and re.search(r'::try_(read|write|lock|borrow|borrow_mut)$', c.callee.best)]
        ok = len(ck) == 1 and not acq and not common.guards_of(cb, ck[0].bb) and cb.origins(0) == {('call', ck[0].bb)}
        if not ck and not acq:
            # `self.get(id, type_id).is_some()`: the answer of the very look-up judged above, for the same (id, type)
            gt = [c for c in cb.calls() if c.callee and c.callee.best == '<%s as anycache::AssetMap>::get' % m]
            ok = len(gt) == 1 and not common.guards_of(cb, gt[0].bb) and common.returns_is_variant(cb, 1) == ['call@bb%d' % gt[0].bb] \
                and [common.strip_refs(common.deep_path(cb, a, at=gt[0].bb)) for a in gt[0].args] == [['arg1'], ['arg2'], ['arg3']]
        R8.check(ok, cfg, cb.path, 'contains=map.contains_key', 'AssetMap::contains_key must be the map\'s own answer, unconditionally', cb.loc())


def map_sites(F):
    out = []
    for b in F.fn_bodies():
        for c in b.calls():
            k = map_call_kind(c)
            if k:
                out.append((b, c, k))
    return out


def r1(R1, R3, cfg, F):
    sites = map_sites(F)
    counts = {'READ': 0, 'ENTRY': 0, 'KEEP_FIRST': 0, 'DESTROY': 0, 'PASS': 0, 'CONSUME': 0}
    excl_fns = set()
    for b, c, k in sites:
        counts[k] += 1
        if k == 'DESTROY':
            mode = map_access_mode(b, c)
            ok = (mode == 'exclusive')
            R1.check(ok, cfg, b.path, 'destroy:%s:%s' % (c.callee.name, 'exclusive' if ok else mode),
                     'map operation `%s` (receiver %s) is reachable with only a shared borrow of the cache (map obtained via %s): '
                     'it can replace or remove an entry while &Handle references to it are alive'
                     % (c.callee.best, c.callee.recv_kind(), mode), c.loc(), callee=c.callee.best, mode=mode)
            if ok:
                excl_fns.add(b.path)
        elif k == 'CONSUME':
            mode = map_access_mode(b, c)
            R1.check(mode in ('fresh', 'exclusive'), cfg, b.path, 'consume:%s:%s' % (c.callee.name, mode),
                     'a whole asset map is moved into `%s` but it is neither freshly constructed nor exclusively owned (%s)' % (c.callee.best, mode), c.loc())
        elif k == 'ENTRY':
            # every use of the Entry value must be a KEEP_FIRST call
            dest = c.dest['l']
            carried = b.flows_to(dest)
            bad = []
            nkeep = 0
            for l in carried:
                for u in b.uses_of(l):
                    if u[0] == 'call':
                        kk = map_call_kind(u[2])
                        if kk == 'KEEP_FIRST':
                            nkeep += 1
                        elif kk == 'READ':
                            pass    # Occupied arm of a match on the entry: look at the value that is kept
                        else:
                            bad.append(u[2].callee.best if u[2].callee else '?')
                    elif u[0] == 'drop':
                        pass
            R1.check(not bad and nkeep >= 1, cfg, b.path, 'entry-flows-to-keep-first',
                     'the result of HashMap::entry must be consumed by or_insert* only (keep the first value); it reaches %s' % (bad or 'no keep-first call'),
                     c.loc())
        elif k == 'KEEP_FIRST':
            R1.ok(cfg, b.path, 'keep-first:%s' % c.callee.name, c.loc())
    # whole-map overwrites through a reference:  *map = ...
    for b in F.fn_bodies():
        for bb, j, s in b.assigns():
            pl = s['place']
            if is_asset_map_type(pl['ty']) and any(e == 'deref' for e in pl['p']):
                R1.bad(cfg, b.path, 'overwrite-map', 'assignment replaces a whole asset map through a reference', '%s:%s' % (b.file, s['line']))
    # a stored entry replaced in place through the `&mut CacheEntry` that or_insert / into_mut hand out
    for b in F.fn_bodies():
        if b.path.startswith('entry::'):
            continue   # the entry module owns the representation (C07 / C13 rules cover it)
        for bb, j, s in b.assigns():
            pl = s['place']
            if pl['ty'] == 'entry::CacheEntry' and any(e == 'deref' for e in pl['p']):
                R1.bad(cfg, b.path, 'overwrite-entry', 'assignment replaces a stored CacheEntry through a reference while handles to it may be alive', '%s:%s' % (b.file, s['line']))
        for c in b.calls():
            if c.callee and re.match(r'std::mem::(replace|swap|take)$', c.callee.best) and c.args:
                a0 = c.args[0]
                ty = a0['place']['ty'] if a0['k'] in ('copy', 'move') else a0.get('ty', '')
                if re.match(r"&('\w+ )?mut entry::CacheEntry$", ty):
                    R1.bad(cfg, b.path, 'overwrite-entry', '%s replaces a stored CacheEntry through a reference while handles to it may be alive' % c.callee.best, c.loc())
    R1.note(cfg, **counts)
    if counts['KEEP_FIRST'] < 2:
        R1.missing(cfg, 'two keep-first insertions (one per map type)')
    # R3
    for fn in sorted(excl_fns):
        b = F.body(fn)
        ty = b.local_ty(1) if b.arg_count >= 1 else ''
        R3.check(ty.startswith('&mut'), cfg, fn, 'exclusive-site-fn-takes-&mut-self', 'function with a destroying map operation must take &mut self, takes `%s`' % ty, b.loc())
    # public functions that can reach a destroy site must take &mut self
    g = F.call_graph()
    rev = {}
    for s, ts in g.items():
        for t in ts:
            rev.setdefault(t, set()).add(s)
    seen = set(excl_fns)
    work = list(excl_fns)
    while work:
        f = work.pop()
        for p in rev.get(f, ()):
            if p not in seen:
                seen.add(p)
                work.append(p)
    for fn in sorted(seen):
        sig = F.fns.get(fn)
        if not sig or sig['vis'] != 'pub':
            continue
        if sig.get('impl_trait') == 'std::ops::Drop':
            continue
        first = sig['inputs'][0] if sig['inputs'] else ''
        R3.check(first.startswith('&mut'), cfg, fn, 'pub-path-to-destroy-takes-&mut-self',
                 'public function from which a destroying map operation is reachable must take &mut self, takes `%s`' % first,
                 '%s:%s' % (sig['file'], sig['line']))


PT_ENTRY_REF = make_pt(r'^entry::CacheEntry::inner$', common.TRY_BRANCH)


def r2(R2, cfg, F):
    sites = F.calls_to(r'^entry::UntypedHandle::extend_lifetime$')
    allowed = {'<%s as anycache::AssetMap>::%s' % (m, f) for m in MAPS for f in ('get', 'insert')}
    for c in sites:
        b = c.body
        if F.written_in_place(b):
            continue    # e.g. the closure of `.map(|e| ..)`: decided where it is expanded, with its real argument
        where = b.path in allowed
        roots = b.call_roots(c.args[0], passthrough=PT_ENTRY_REF)
        names = sorted({r.callee.best for r in roots if r.callee})
        from_map = bool(roots) and all(
            re.search(FROM_MAP, n) for n in names)
        # no local CacheEntry (an argument of type CacheEntry) among the non-call roots
        other = [r for r in b.origins(c.args[0], passthrough=PT_ENTRY_REF) if r[0] not in ('call', 'agg')]
        R2.check(where and from_map and not other, cfg, b.path, 'extend_lifetime-on-map-entry',
                 'extend_lifetime must be applied, inside AssetMap::get/insert, to an entry that came out of the map '
                 '(HashMap::get / Entry::or_insert); here: allowed-fn=%s roots=%s other=%s' % (where, names, other), c.loc())


def r4(R4, cfg, F):
    trip = [('owned', '<utils::private::OwnedKey as std::hash::Hash>::hash', '<utils::private::OwnedKey as std::cmp::PartialEq>::eq'),
            ('borrowed', "<utils::private::BorrowedKey<'a> as std::hash::Hash>::hash", "<utils::private::BorrowedKey<'a> as std::cmp::PartialEq>::eq"),
            ('dyn', '<dyn utils::private::Key as std::hash::Hash>::hash', '<dyn utils::private::Key as std::cmp::PartialEq>::eq')]
    seqs = {}
    for name, hp, ep in trip:
        hb, eb = F.body(hp), F.body(ep)
        if not hb or not eb:
            R4.missing(cfg, hp if not hb else ep)
            continue
        seq = hash_sequence(F, hb)
        seqs[name] = [(re.sub(r'\(\)$', '', a or '?'), t) for a, t in seq]
        fields, ok, why = eq_structure(F, eb)
        fset = sorted(re.sub(r'\(\)$', '', a or '?') for a, _ in fields)
        R4.check(ok and fset == ['id', 'type_id'], cfg, ep, 'eq-compares-id-and-type',
                 'key equality must be the conjunction of id and type_id comparisons; compares %s (%s)' % (fset, why or 'ok'), eb.loc())
    if len(seqs) == 3:
        ref = seqs['owned']
        for name in ('borrowed', 'dyn'):
            R4.check(seqs[name] == ref and len(ref) == 2, cfg, 'utils::private::Key', 'hash-sequence:%s==owned' % name,
                     'the %s key view hashes %s but OwnedKey hashes %s: look-ups by borrowed key would miss inserted entries'
                     % (name, seqs[name], ref), None, owned=ref, other=seqs[name])
    # SharedString hashes as str
    sb = F.body('<utils::string::SharedString as std::hash::Hash>::hash')
    if not sb:
        R4.missing(cfg, 'SharedString::hash')
    else:
        hs = [c for c in sb.calls() if c.callee and c.callee.name == 'hash']
        ok = len(hs) == 1 and 'for str>::hash' in hs[0].callee.best
        R4.check(ok, cfg, sb.path, 'SharedString-hashes-as-str', 'SharedString must hash exactly like str', sb.loc())
    # Borrow<dyn Key> for OwnedKey returns self
    bb = F.body("<utils::private::OwnedKey as std::borrow::Borrow<(dyn utils::private::Key + 'a)>>::borrow")
    if not bb:
        R4.missing(cfg, 'Borrow<dyn Key> for OwnedKey')
    else:
        roots = bb.origins(0)
        R4.check(not bb.calls() and ('arg', 1) in roots and not [r for r in roots if r[0] not in ('arg',)], cfg, bb.path,
                 'borrow-returns-self', 'Borrow<dyn Key>::borrow must return self', bb.loc())


PT_HANDLE = make_pt(r'^entry::CacheEntry::inner$', r'^entry::UntypedHandle::extend_lifetime$')


def r5(R5, cfg, F):
    for m in MAPS:
        b = F.body('<%s as anycache::AssetMap>::insert' % m)
        if not b:
            R5.missing(cfg, '%s::insert' % m)
            continue
        roots = b.call_roots(0, passthrough=PT_HANDLE)
        names = sorted({r.callee.best for r in roots if r.callee})
        ok = bool(names) and all(re.search(KEPT, n) for n in names) and any('::or_insert' in n or 'VacantEntry' in n for n in names)
        R5.check(ok, cfg, b.path, 'returns-keep-first-result', 'AssetMap::insert must return the entry kept by or_insert (the winner); returns value of %s' % names, b.loc())
    b = F.body('anycache::RawCache::add_asset')
    if not b:
        R5.missing(cfg, 'RawCache::add_asset')
    else:
        aggs = [s for _, _, s in b.assigns() if s['place']['l'] == 0 and s['rv']['k'] == 'aggregate' and s['rv'].get('variant_name') == 'Ok']
        ok = False
        if len(aggs) == 1:
            roots = b.call_roots(aggs[0]['rv']['ops'][0])
            ok = [r.callee.defp for r in roots if r.callee] == ['anycache::AssetMap::insert']
        R5.check(ok, cfg, b.path, 'Ok-payload-is-insert-result', 'add_asset must return what AssetMap::insert returned (the winner of the race)', b.loc())
    for p, callee in (('<T as anycache::Cache>::insert', 'anycache::AssetMap::insert'),):
        b = F.body(p)
        if not b:
            R5.missing(cfg, p)
            continue
        roots = b.call_roots(0)
        R5.check([r.callee.defp for r in roots if r.callee] == [callee], cfg, p, 'returns-' + callee,
                 '%s must return the result of %s' % (p, callee), b.loc())
    # get_or_insert (its add_any helper is looked through): what it returns is what the look-up found, or what Cache::insert returned
    b = F.body('anycache::CacheExt::_get_or_insert')
    if not b:
        R5.missing(cfg, 'anycache::CacheExt::_get_or_insert')
    else:
        roots = b.call_roots(0, passthrough=common.make_pt(r'UntypedHandle::downcast_ref_ok$'))
        names = sorted({r.callee.defp or r.callee.best for r in roots if r.callee})
        R5.check('anycache::Cache::insert' in names and set(names) <= {'anycache::Cache::insert', 'anycache::CacheExt::_get_cached_entry'}, cfg, b.path, 'returns-anycache::Cache::insert',
                 'get_or_insert must return the entry found by its look-up or the result of Cache::insert; it returns the result of %s' % names, b.loc())


def r6(R6, cfg, F):
    adt = F.adt('entry::CacheEntry')
    if not adt:
        R6.missing(cfg, 'entry::CacheEntry')
        return
    fs = adt['variants'][0]['fields']
    R6.check(adt['kind'] == 'struct' and len(fs) == 1 and bool(re.match(r'std::boxed::Box<entry::EntryStorage<\(?dyn std::any::Any', fs[0]['ty'])),
             cfg, 'entry::CacheEntry', 'newtype-over-Box<EntryStorage<dyn Any>>', 'CacheEntry must own its storage through a Box (address independent of the table); fields: %s' % [f['ty'] for f in fs],
             '%s:%s' % (adt['file'], adt['line']))
    sh = F.adt('cache::Shard')
    lm = F.adt('local_cache::AssetMap')
    for a, nm in ((sh, 'cache::Shard'), (lm, 'local_cache::AssetMap')):
        if not a:
            R6.missing(cfg, nm)
            continue
        tys = [f['ty'] for f in a['variants'][0]['fields']]
        R6.check(any('HashMap<utils::private::OwnedKey, entry::CacheEntry>' in t for t in tys), cfg, nm, 'map-value-is-CacheEntry',
                 'the map must store CacheEntry values keyed by OwnedKey; fields %s' % tys, '%s:%s' % (a['file'], a['line']))
    b = F.body('entry::CacheEntry::inner')
    if not b:
        R6.missing(cfg, 'CacheEntry::inner')
    else:
        # the returned reference is derived from *(self.0) : root arg1 only, through a deref of the Box pointer
        roots = b.origins(0)
        derefs_box = any(s['rv']['k'] == 'cast' and 'pointer' in str(s['rv']['op']) for _, _, s in b.assigns())
        R6.check(roots == {('arg', 1)} and derefs_box and not b.calls(), cfg, b.path, 'inner-derefs-the-box',
                 'CacheEntry::inner must return a reference to the boxed storage', b.loc())


def normal_form(b):
    nf = []
    for i in range(b.nblocks()):
        if i not in b.live_blocks(unwind=False):
            continue
        blk = b.blocks[i]
        for s in blk['stmts']:
            if s['k'] == 'assign' and s['rv']['k'] == 'binop':
                nf.append('binop:' + s['rv']['op'])
            if s['k'] == 'assign' and s['rv']['k'] == 'cast' and s['rv']['kind'] == 'IntToInt':
                nf.append('cast:' + s['rv']['ty'])
        t = blk['term']
        if t['k'] == 'call':
            fn = t['func'].get('fn')
            if fn:
                from mir import Callee
                c = Callee(fn)
                aps = []
                for a in t['args']:
                    ap = b.access_path(a)
                    aps.append('.'.join(x for x in (ap or ['?']) if not x.startswith('call@')) if ap else '?')
                nf.append('call:%s(%s)' % (c.best, ','.join(aps)))
        elif t['k'] == 'assert':
            nf.append('assert:' + t['msg'].split(' ')[0])
    return nf


def r7(R7, cfg, F):
    a, b = F.body('cache::AssetMap::get_shard'), F.body('cache::AssetMap::get_shard_mut')
    if not a or not b:
        R7.missing(cfg, 'get_shard/get_shard_mut')
        return
    na, nb = normal_form(a), normal_form(b)
    R7.check(na == nb, cfg, 'cache::AssetMap::get_shard_mut', 'same-normal-form-as-get_shard',
             'get_shard and get_shard_mut select shards differently:\n  get_shard:     %s\n  get_shard_mut: %s' % (na, nb), b.loc(), normal_form=na)
    want = ['build_hasher', 'hash', 'finish', 'len']
    got = [re.sub(r'.*::(\w+)\(.*', r'\1', x) for x in na if x.startswith('call:')]
    R7.check(got == want and 'binop:BitAnd' in na and 'binop:Sub' in na, cfg, 'cache::AssetMap::get_shard', 'hash-key-then-mask',
             'shard index must be hash(key) & (len-1) with the cache\'s own hash builder; normal form %s' % na, a.loc())
    # the hasher comes from self.hash_builder and the hashed value is the key parameter
    for fb in (a, b):
        bh = [c for c in fb.calls() if c.callee and c.callee.name == 'build_hasher']
        hh = [c for c in fb.calls() if c.callee and c.callee.name == 'hash' and c.callee.trait == 'std::hash::Hash']
        ok = (len(bh) == 1 and fb.access_path(bh[0].args[0]) == ['arg1', '*', 'hash_builder', '&']
              and len(hh) == 1 and fb.access_path(hh[0].args[0]) == ['arg2', '&'])
        R7.check(ok, cfg, fb.path, 'hasher=self.hash_builder,value=key', 'shard selection must hash the key parameter with self.hash_builder', fb.loc())
    # indexing of the shard slice only in these two
    for fb in F.fn_bodies():
        if fb.path in (a.path, b.path):
            continue
        for bb, j, s in fb.assigns():
            places = [s['place']]
            rv = s['rv']
            if rv['k'] in ('ref', 'rawptr', 'discr'):
                places.append(rv['place'])
            elif rv['k'] in ('use', 'cast') and rv['op']['k'] in ('copy', 'move'):
                places.append(rv['op']['place'])
            for pl in places:
                if any(isinstance(e, dict) and ('index' in e or 'cindex' in e or 'subslice' in e) for e in pl['p']) and 'cache::Shard' in pl['ty']:
                    R7.bad(cfg, fb.path, 'indexes-shards-outside-get_shard', 'shards are indexed outside get_shard/get_shard_mut', '%s:%s' % (fb.file, s['line']))
        for c in fb.calls():
            if c.callee and c.args and c.args[0]['k'] in ('copy', 'move') and re.search(r'\[cache::Shard\]', c.args[0]['place']['ty']):
                if c.callee.name not in ('len', 'into_iter', 'iter', 'iter_mut', 'next', 'deref', 'deref_mut', 'fmt'):
                    R7.bad(cfg, fb.path, 'slices-shards:' + c.callee.name, 'shard slice used through `%s` outside get_shard' % c.callee.best, c.loc())
