"""C08 -- hot_reload always returns: no deadlock, no crash, any number of callers.
Liveness obligations turned into CFG rules (DESIGN.md section 4, C08)."""
import re

import common
from mir import agg_direct
from collections import deque

from common import BLOCKING, GUARD_TY, LOCK_ACQUIRE, pt_deref, user_call_kind
from mir import agg_stmts

LEVEL = 'other'
EXPLANATION = (
    'Liveness obligations decided on the MIR of every hot-reloading configuration (std and parking_lot locks): '
    '(R1) every self-recursive function whose recursion is guarded by a visited set inserts the current key into '
    'that set on a path that dominates every recursive call (terminates on cyclic graphs); (R2) for each '
    '(Mutex, Condvar) pair in one struct, every function that writes the protected slot notifies the condvar after '
    'the write on every path to return, and every raw wait sits in a predicate loop; (R3) on every exit of the '
    'request arm of the reloader thread -- including the unwind edge out of update_if_local -- the answer is sent, '
    'or no user code reachable from there can unwind past a catch_unwind; (R4) a caller blocks only after a '
    'successful send, on its own fetch_add token; (R5) no lock guard is live across user code, channel operations, '
    'condvar waits or another lock acquisition (the lock-order graph has no edge). With FIFO channels every '
    'hot_reload is answered.')
TRUSTED = ['rustc MIR construction (unwind edges, drop elaboration)', 'Mutex/Condvar semantics (std, parking_lot)',
           'crossbeam-channel FIFO delivery', 'amfacts driver + rule engine in /verif/sa']


def run(ctx):
    rep = ctx.report
    R1 = rep.rule('C08.R1', 'visited-set DFS: insertion of the current key dominates every recursive call', floor=1)
    R2 = rep.rule('C08.R2', 'condvar protocol: write of the protected slot is followed by notify on every path; waits are predicate loops', floor=3)
    R3 = rep.rule('C08.R3', 'the answer is sent on every exit of the request arm, incl. unwinding out of a loader', floor=1)
    R4 = rep.rule('C08.R4', 'blocking only after a successful send, on the caller\'s own unique token', floor=2)
    R5 = rep.rule('C08.R5', 'no lock guard live across user code / blocking calls / another lock acquisition', floor=4)
    rep.assumptions += ['drop glue of stored values running under a shard write lock (or_insert dropping a race loser) is not counted as user code',
                        'crossbeam unbounded channels deliver every sent message in FIFO order']
    S1 = rep.rule('C10.R1', 'every entry the reloader may write has a lock: entries are dynamic exactly when HOT_RELOADED && the cache has a reloader, at both creation sites, so UntypedEntry::write cannot hit wrong_handle_type() and kill the reloader before it answers (shared with C10)', floor=2)
    for cfg, F in ctx.hr_cfgs():
        from c10 import r1 as dynamic_iff
        dynamic_iff(S1, cfg, F, True)
        S1.finish_cfg(cfg)
        r1(R1, cfg, F)
        r2(R2, cfg, F)
        r3(R3, cfg, F)
        r4(R4, cfg, F)
        r5(R5, cfg, F)
        for r in (R1, R2, R3, R4, R5):
            r.finish_cfg(cfg)
    for cfg, F in ctx.cfgs(lambda c, f: 'hot-reloading' not in f):
        r5(R5, cfg, F)
        R5.finish_cfg(cfg)


# ---------------------------------------------------------------------------

def r1(R1, cfg, F):
    n = 0
    for b in F.fn_bodies():
        rec = [c for c in b.calls() if c.callee and c.callee.best == b.path]
        if not rec:
            continue
        # membership test guarding the recursion: a `contains` on a set reached through a parameter
        tests = [c for c in b.calls() if c.callee and c.callee.name == 'contains' and re.search(r'Hash(Set|Map)|BTree(Set|Map)', c.callee.best)]
        guard = None
        for t in tests:
            roots = b.origins(t.args[0], passthrough=pt_deref)
            if roots and all(r[0] == 'arg' for r in roots):
                guard = (t, roots)
        if guard is None:
            continue
        n += 1
        t, roots = guard
        ins = [c for c in b.calls() if c.callee and c.callee.name == 'insert' and re.search(r'Hash(Set|Map)|BTree(Set|Map)', c.callee.best)
               and b.origins(c.args[0], passthrough=pt_deref) == roots]
        ok = bool(ins) and all(any(b.dominates(i.bb, r.bb) and i.bb != r.bb for i in ins) for r in rec)
        R1.check(ok, cfg, b.path, 'visited-insert-after-recursion',
                 'the recursion of `%s` is guarded by a visited set, but the current key is inserted into it only after the recursive calls: '
                 'on a cyclic graph (two assets that look each other up) the recursion never terminates and overflows the stack' % b.path,
                 rec[0].loc(), recursive_calls=[r.loc() for r in rec], inserts=[i.loc() for i in ins])
    if n == 0:
        R1.missing(cfg, 'a self-recursive function guarded by a visited set (DepsGraph::visit)')


def condvar_structs(F):
    out = []
    for p, a in F.adts.items():
        if a['kind'] != 'struct':
            continue
        fs = a['variants'][0]['fields']
        mx = [f['name'] for f in fs if re.match(r'^utils::private::Mutex<|^std::sync::Mutex<|^parking_lot::Mutex<', f['ty'])]
        cv = [f['name'] for f in fs if re.match(r'^utils::private::Condvar$|^std::sync::Condvar$|^parking_lot::Condvar$', f['ty'])]
        if mx and cv:
            out.append((p, mx, cv))
    return out


def r2(R2, cfg, F, only_waits=False):
    structs = [] if only_waits else condvar_structs(F)
    if not structs and not only_waits:
        R2.missing(cfg, 'a struct pairing a Mutex with a Condvar (Answers)')
        return
    for sp, mxs, cvs in structs:
        for b in F.fn_bodies():
            locks = [c for c in b.calls() if c.callee and re.search(r'Mutex::<T>::lock$', c.callee.best)
                     and any(m in (b.access_path(c.args[0]) or []) for m in mxs)
                     and (b.local_adt(1) == sp if b.arg_count >= 1 else False)]
            if not locks:
                continue
            # writes through a guard of that mutex:  *guard = ..  (assignment through DerefMut of a MutexGuard)
            writes = []
            for bb, j, s in b.assigns():
                pl = s['place']
                if pl['p'] and pl['p'][0] == 'deref':
                    roots = b.call_roots(pl['l'])
                    if any(r.callee and re.search(r'MutexGuard<.*> as std::ops::DerefMut>::deref_mut$', r.callee.best) for r in roots):
                        writes.append((bb, j, s))
            for bb, j, s in writes:
                notifs = [c for c in b.calls() if c.callee and re.search(r'Condvar::notify_(all|one)$', c.callee.best)
                          and any(cv in (b.access_path(c.args[0]) or []) for cv in cvs)]
                # every path from the write to return passes a notify
                after = b.reachable([bb], removed_blocks=[c.bb for c in notifs if not (c.bb == bb)])
                same_block_after = any(c.bb == bb for c in notifs)   # terminator follows the statement
                ok = bool(notifs) and (same_block_after or not (after & set(b.return_blocks())))
                R2.check(ok, cfg, b.path, 'write-without-notify',
                         '`%s` changes the slot protected by %s.%s without notifying %s.%s afterwards: a thread waiting for the slot to change '
                         '(Answers::notify waits for it to become empty) is never woken -> with two concurrent hot_reload callers the reloader and every later caller block forever'
                         % (b.path, sp, mxs[0], sp, cvs[0]), '%s:%s' % (b.file, s['line']))
    # raw waits only inside a predicate loop
    raw = F.calls_to(r'^(std::sync|parking_lot)::Condvar::wait(_while|_timeout|_for|_until)?$')
    for c in raw:
        b = c.body
        preds = [x for x in b.calls() if user_call_kind(x) == 'indirect']
        in_loop = any(b.dominates(p.bb, c.bb) and p.bb in b.reachable([c.target] if c.target is not None else []) for p in preds)
        R2.check(b.path == 'utils::private::Condvar::wait_while' and in_loop, cfg, b.path, 'wait-in-predicate-loop',
                 'Condvar::wait must be used only inside utils::private::Condvar::wait_while, in a loop that re-checks its predicate', c.loc())
    waits = F.calls_to(r'^utils::private::Condvar::wait_while$')
    for c in waits:
        R2.ok(cfg, c.body.path, 'uses-wait_while', c.loc())
    # the wrappers do what their names say, with either lock back end: wait_while really waits inside its loop (or it spins),
    # notify_all really notifies (or every waiter sleeps for ever)
    wb = F.body('utils::private::Condvar::wait_while')
    nb = F.body('utils::private::Condvar::notify_all')
    if not wb or not nb:
        R2.missing(cfg, 'utils::private::Condvar::wait_while / notify_all')
    else:
        rw = [c for c in wb.calls() if c.callee and re.search(r'^(std::sync|parking_lot)::Condvar::wait$', c.callee.best)]
        preds = [x for x in wb.calls() if user_call_kind(x) == 'indirect']
        ok = len(rw) == 1 and len(preds) >= 1 and all(any(g is p_ and t for g, t in common.call_truth_guards(wb, rw[0].bb)) or
                                                       wb.dominates(p_.bb, rw[0].bb) for p_ in preds[:1])
        # every turn of the loop passes the wait: with the wait removed the predicate cannot be reached again from itself
        if ok:
            ok = not (preds[0].bb in wb.reachable([preds[0].target] if preds[0].target is not None else [], removed_blocks=[rw[0].bb]))
        R2.check(ok, cfg, wb.path, 'wait_while-waits-on-every-turn', 'Condvar::wait_while must call Condvar::wait on every turn of its predicate loop (a loop that does not wait spins; a wait outside the loop returns on any wake-up)', wb.loc())
        rn = [c for c in nb.calls() if c.callee and re.search(r'^(std::sync|parking_lot)::Condvar::notify_all$', c.callee.best)]
        ok = len(rn) == 1 and common.inevitable(nb, [], rn[0].bb) and common.strip_refs(common.deep_path(nb, rn[0].args[0]))[:1] == ['arg1']
        R2.check(ok, cfg, nb.path, 'notify_all-notifies', 'Condvar::notify_all must call notify_all of the wrapped condition variable, unconditionally', nb.loc())


def contained_closures(F, b):
    """closures of `b` passed directly to std::panic::catch_unwind"""
    out = set()
    for c in b.calls():
        if c.callee and c.callee.best == 'std::panic::catch_unwind':
            for a in c.args:
                for s in agg_stmts(b, a):
                    if 'closure' in s['rv']:
                        out.add(s['rv']['closure'])
                    for o in s['rv'].get('ops', []):     # AssertUnwindSafe(closure)
                        for s2 in agg_stmts(b, o):
                            if 'closure' in s2['rv']:
                                out.add(s2['rv']['closure'])
    return out


def resolve_generic_fn_site(F, site, reach):
    """An `F: Fn*` call inside function g (or one of its closures) whose callee
    operand is a parameter of g: if every caller of g inside `reach` passes a
    closure literal for that parameter, the call enters those closures (crate
    code, analysed on its own) rather than unknown user code.
    Returns the list of closure paths, or None when it cannot be resolved."""
    b = site.body
    if not site.args:
        return None
    roots = b.origins(site.args[0])
    fn = b
    hops = 0
    while fn.kind == 'Closure' and hops < 4:
        hops += 1
        ups = [r for r in roots if r[0] == 'upvar']
        if len(ups) != 1 or len(roots) != 1:
            return None
        # (a closure of a helper that was written in place is resolved in the helper itself: what every caller passed
        # for the helper's parameters was recorded when it was inlined)
        parent = (F.dropped(fn.orig_parent) if getattr(fn, 'orig_parent', None) else None) or F.body(fn.parent) or F.dropped(fn.parent)
        if not parent:
            return None
        # the closure literal in the parent: operand number = upvar index
        lits = [s for _, _, s in parent.assigns() if s['rv']['k'] == 'aggregate' and s['rv'].get('closure') == fn.path]
        if len(lits) != 1 or ups[0][1] >= len(lits[0]['rv']['ops']):
            return None
        roots = parent.origins(lits[0]['rv']['ops'][ups[0][1]])
        fn = parent
    args = [r for r in roots if r[0] == 'arg']
    if len(args) != 1 or len(roots) != 1:
        return None
    idx = args[0][1]
    callers = [c for c in F.calls_to('^' + re.escape(fn.path) + '$') if c.body.path in reach or c.body.root in reach]
    if not callers:
        # a new helper that was inlined into its callers: what they pass for that parameter was recorded then
        return F.passed_closures(fn.path, idx - 1)
    out = []
    for c in callers:
        if idx - 1 >= len(c.args):
            return None
        lits = agg_stmts(c.body, c.args[idx - 1])
        if not lits or not all('closure' in s['rv'] for s in lits):
            return None
        out.extend(s['rv']['closure'] for s in lits)
    return out


def uncontained_user_sites(F, start):
    """user-code call sites reachable from `start` without entering a closure
    that is passed to catch_unwind"""
    g = F.call_graph()
    seen = set()
    dq = deque([start])
    sites = []
    while dq:
        f = dq.popleft()
        if f in seen:
            continue
        seen.add(f)
        b = F.body(f)
        if not b:
            continue
        contained = contained_closures(F, b)
        for c in b.calls():
            k = user_call_kind(c)
            if k and not c.exp:
                sites.append((b, c, k))
        for t in g.get(f, ()):
            if t in contained:
                continue
            dq.append(t)
    # generic `F: Fn*` parameters that every reachable caller fills with a closure literal
    out = []
    for b, c, k in sites:
        if k == 'indirect' and c.callee is not None and resolve_generic_fn_site(F, c, seen) is not None:
            continue
        out.append((b, c, k))
    return out


def r3(R3, cfg, F):
    th = F.body('hot_reloading::hot_reloading_thread')
    if not th:
        R3.missing(cfg, 'hot_reloading_thread')
        return
    adt = F.adt('hot_reloading::CacheMessage')
    ptr_idx = [v['idx'] for v in (adt['variants'] if adt else []) if v['name'] == 'Ptr']
    if not ptr_idx:
        R3.missing(cfg, 'CacheMessage::Ptr')
        return
    # the match on the received CacheMessage
    arms = []
    for bb, t in th.terms():
        if t['k'] != 'switch' or th.blocks[bb]['cleanup'] or t['discr']['k'] not in ('copy', 'move'):
            continue
        for d in th.defs_of(t['discr']['place']['l']):
            if d[0] == 'stmt' and d[3]['rv']['k'] == 'discr' and d[3]['rv']['place']['ty'] == 'hot_reloading::CacheMessage':
                e = [x for x, lab in th.edges(bb) if lab == 'sw:%d' % ptr_idx[0]]
                if e:
                    arms.append((bb, e[0], d[3]['rv']['place']['l']))
    nt = [c for c in th.calls() if c.callee and c.callee.best == 'hot_reloading::Answers::notify']
    if len(arms) != 1 or not nt:
        R3.unrecognised(cfg, th.path, 'one match arm for CacheMessage::Ptr and a call to Answers::notify', th.loc())
        return
    sw, arm, msg_local = arms[0]
    nb = [n.bb for n in nt]
    recv = [c.bb for c in th.calls() if c.callee and re.search(r'Receiver::<T>::try_recv$|Select::<.a>::ready$', c.callee.best)]
    after = th.reachable([arm], removed_blocks=nb)
    ok_normal = not (after & (set(recv) | set(th.return_blocks())))
    # the token answered is the one carried by the message
    # (a payload field of the Ptr message, directly or inside a private struct that groups the request)
    ok_tok = all('as:Ptr' in (common.deep_path(th, n.args[1], at=n.bb) or []) for n in nt)
    # unwind exits of the arm: calls executed before the answer whose unwind edge leaves the thread
    ok_unwind = True
    why = ''
    for c in th.calls():
        if c.bb not in after or c.unwind is None or c.exp:
            continue
        cleanup = th.reachable([c.unwind], removed_blocks=nb, unwind=True)
        if not (cleanup & set(th.resume_blocks())):
            continue
        targets = F.callee_targets(c)
        sites = []
        if user_call_kind(c):
            sites = [(th, c, user_call_kind(c))]
        for tg in targets:
            sites.extend(uncontained_user_sites(F, tg))
        if sites:
            ok_unwind = False
            b0, c0, k0 = sites[0]
            why = ('the unwind edge of `%s` (in the CacheMessage::Ptr arm) leaves the thread without Answers::notify, and %d user-code call site(s) reachable from it '
                   '(e.g. %s in %s, %s) are not inside a catch_unwind: a loader that panics during a reload kills the reloader before it answers, '
                   'so the caller of hot_reload waits forever' % (c.callee.best if c.callee else '?', len(sites), k0, b0.path, c0.loc()))
            break
    R3.check(ok_normal and ok_tok and ok_unwind, cfg, th.path, 'answer-on-every-exit-of-request-arm',
             why or ('a normal path through the CacheMessage::Ptr arm reaches the next receive / return without Answers::notify(token of that message)'),
             '%s:%s' % (th.file, th.blocks[arm]['term']['line']))


def r4(R4, cfg, F):
    b = F.body('hot_reloading::Answers::get_unique_token')
    if not b:
        R4.missing(cfg, 'Answers::get_unique_token')
    else:
        cs = [c for c in b.calls()]
        # (the counter value may be wrapped in a private newtype before it is returned)
        ok = len(cs) == 1 and cs[0].callee.name == 'fetch_add' and 'Atomic' in cs[0].callee.best \
            and (cs[0].dest['l'] == 0 or common.value_built_from(b, {'k': 'copy', 'place': {'l': 0, 'p': [], 'ty': '?'}}) == ['call@bb%d' % cs[0].bb]) \
            and (b.access_path(cs[0].args[0]) or [])[-2:] == ['next_token', '&'] and cs[0].args[1].get('text', '').startswith('1')
        R4.check(ok, cfg, b.path, 'token=fetch_add(1)', 'tokens must be unique: get_unique_token must be a fetch_add(1) on next_token', b.loc())
    rl = F.body('hot_reloading::HotReloader::reload')
    if not rl:
        R4.missing(cfg, 'HotReloader::reload')
        return
    ok, why_rl = common.reload_waits_for_own_token(rl)
    R4.check(ok, cfg, rl.path, 'wait-only-after-send-ok-on-own-token', 'reload must block only when its message was sent, waiting for the very token it put in the message: ' + why_rl, rl.loc())
    # what each side writes into the slot once its wait is over: the answer (Some(token)) / nothing (the answer was consumed)
    for fn, wantv in (('notify', 'Some'), ('wait_for_answer', 'None')):
        hb = F.body('hot_reloading::Answers::%s' % fn)
        if not hb:
            continue
        ww = [c for c in hb.calls() if c.callee and c.callee.best == 'utils::private::Condvar::wait_while']
        wr = []
        for bb, j, st in hb.assigns():
            pl = st['place']
            if pl['p'] and pl['p'][0] == 'deref' and not hb.blocks[bb]['cleanup']:
                roots = hb.call_roots(pl['l'])
                if any(r.callee and re.search(r'MutexGuard<.*> as std::ops::DerefMut>::deref_mut$', r.callee.best) for r in roots):
                    wr.append((bb, st))
        tk = [c for c in hb.calls() if c.callee and c.callee.best == 'std::option::Option::<T>::take' and wantv == 'None']
        rp = [c for c in hb.calls() if c.callee and c.callee.best in ('std::option::Option::<T>::replace', 'std::option::Option::<T>::insert') and wantv == 'Some'
              and len(c.args) > 1 and common.value_built_from(hb, c.args[1], at=c.bb) == ['arg2']]
        if not wr and len(rp) == 1:
            tk = rp         # slot.replace(token) / slot.insert(token): stores Some(token)
        ok = len(ww) == 1 and (len(wr) == 1 or (not wr and len(tk) == 1))
        if ok and wr:
            bb, st = wr[0]
            rv = st['rv']
            if rv['k'] == 'use' and rv['op'].get('k') in ('copy', 'move'):
                lit = agg_direct(hb, rv['op'])
                rv = lit['rv'] if lit is not None else rv
            ok = rv['k'] == 'aggregate' and rv.get('variant_name') == wantv and hb.dominates(ww[0].bb, bb) and common.inevitable(hb, [], bb)
            if ok and wantv == 'Some':
                ok = common.value_built_from(hb, rv['ops'][0], at=bb) == ['arg2']
        elif ok:
            ok = hb.dominates(ww[0].bb, tk[0].bb) and common.inevitable(hb, [], tk[0].bb)
        R4.check(ok, cfg, hb.path, 'slot:=' + wantv, 'after its wait, Answers::%s must store %s into the slot on every path (otherwise the other side waits for ever)'
                 % (fn, 'Some(its token)' if wantv == 'Some' else 'None (the answer is consumed)'), hb.loc())
    # the waiter waits for its own token; the notifier waits for an empty slot
    for fn, want in (('wait_for_answer', 'own-token'), ('notify', 'empty-slot')):
        hb = F.body('hot_reloading::Answers::%s' % fn)
        if not hb:
            R4.missing(cfg, 'Answers::%s' % fn)
            continue
        ww = [c for c in hb.calls() if c.callee and c.callee.best == 'utils::private::Condvar::wait_while']
        kind, cb = None, None
        if len(ww) == 1 and len(ww[0].args) >= 3:
            lit = agg_direct(hb, ww[0].args[2])
            cb = F.body(lit['rv'].get('closure')) if lit is not None and lit['rv'].get('closure') else None
            slot = 'arg2'
            if cb is None and ww[0].args[2].get('k') == 'const' and (ww[0].args[2].get('fn') or {}).get('def'):
                # a named fn used as the predicate: its first parameter is the slot
                cb, slot = F.body(ww[0].args[2]['fn']['def']) or F.dropped(ww[0].args[2]['fn']['def']), 'arg1'
            kind = wait_predicate(hb, cb, lit, slot) if cb else None
        if cb is None:
            R4.missing(cfg, 'Answers::%s predicate' % fn)
            continue
        R4.check(kind == want, cfg, cb.path, 'predicate=' + want, 'the predicate %s waits on must be %s; it is %s'
                 % (fn, {'own-token': '`*slot != Some(token)` with the token it was given', 'empty-slot': '`slot.is_some()` (wait until every answer was consumed)'}[want], kind), cb.loc())


def wait_predicate(hb, cb, lit, slot='arg2'):
    """what a wait_while predicate of Answers keeps waiting for: 'empty-slot' (true while the slot is Some), 'own-token' (true
    while the slot differs from Some(the host's token parameter)), or a description of anything else"""
    cs = [c for c in cb.calls() if c.callee]
    if not cs:
        return 'empty-slot' if common.returns_is_variant(cb, 1) == [slot] else 'a test of something else than the slot'
    if len(cs) != 1 or cs[0].callee.name != 'ne' or cs[0].callee.trait != 'std::cmp::PartialEq' or cs[0].dest['l'] != 0:
        return 'calls %s' % [c.callee.name for c in cs]

    def operand(op):
        # 'slot' | ('some', path-of-payload in the host) | ('none',) | None
        dp = common.deep_path(cb, op, at=cs[0].bb)
        sp = common.strip_refs(dp)
        if sp == [slot]:
            return 'slot'
        ag = None
        m = re.match(r'agg@bb(\d+)\.(\d+)$', sp[0]) if sp and len(sp) == 1 else None
        body = cb
        if m:
            ag = cb.blocks[int(m.group(1))]['stmts'][int(m.group(2))]
        elif sp[:1] == ['arg1']:
            hp = common.strip_refs(common.through_closure(hb, cb, op) or [])
            m = re.match(r'agg@bb(\d+)\.(\d+)$', hp[0]) if hp and len(hp) == 1 else None
            if m:
                ag, body = hb.blocks[int(m.group(1))]['stmts'][int(m.group(2))], hb
        if ag is None or ag['rv']['k'] != 'aggregate':
            return None
        if ag['rv'].get('variant_name') == 'None':
            return ('none',)
        if ag['rv'].get('variant_name') == 'Some' and len(ag['rv']['ops']) == 1:
            pp = common.through_closure(hb, cb, ag['rv']['ops'][0]) if body is cb else common.deep_path(hb, ag['rv']['ops'][0])
            return ('some', common.strip_refs(pp or []))
        return None
    x, y = operand(cs[0].args[0]), operand(cs[0].args[1])
    other = y if x == 'slot' else (x if y == 'slot' else None)
    if other == ('none',):
        return 'empty-slot'
    if other and other[0] == 'some':
        return 'own-token' if other[1] == ['arg2'] else 'a comparison with Some(%s), which is not the token parameter' % other[1]
    return 'a comparison of %s with %s' % (x, y)


BOUNDED_CHANNEL = re.compile(r'^crossbeam_channel::(bounded|Sender::<T>::(send_timeout|send_deadline))|^std::sync::mpsc::sync_channel')
SEND = re.compile(r'^crossbeam_channel::Sender::<T>::send$')


def is_blocking(F, name):
    """BLOCKING, except that Sender::send cannot block when every channel of the crate is unbounded"""
    if not BLOCKING.search(name):
        return False
    if SEND.search(name):
        if getattr(F, '_bounded', None) is None:
            F._bounded = any(c.callee and BOUNDED_CHANNEL.search(c.callee.best) for c in F.all_calls())
        return F._bounded
    return True


def closure_args(F, b, c):
    """bodies of the crate closures handed to call `c` as arguments (the callee may run them)"""
    out = []
    for a in c.args:
        ap = b.access_path(a)
        if ap and len(ap) == 1 and ap[0].startswith('agg@bb'):
            m = re.match(r'agg@bb(\d+)\.(\d+)$', ap[0])
            st = b.blocks[int(m.group(1))]['stmts'][int(m.group(2))]
            if st['rv'].get('closure'):
                out.append(st['rv']['closure'])
    return out


def param_callbacks(F, b, c):
    """an indirect call whose callee value is a parameter of a crate-private function (directly, or captured by a
    closure of that function): the closures passed for that parameter at every call site of the function.
    None if it cannot be resolved that way (then the call is user code)."""
    if not c.args:
        return None
    f = b
    ap = common.deep_path(b, c.args[0])
    if b.kind == 'Closure':
        f = (F.dropped(b.orig_parent) if getattr(b, 'orig_parent', None) else None) or F.body(b.root) or F.dropped(b.root)
        if f is None:
            return None
        ap = common.through_closure(f, b, c.args[0])
    ap = [e for e in (ap or []) if e not in ('&', '*')]
    if len(ap) != 1 or not re.match(r'arg\d+$', ap[0]):
        return None
    k = int(ap[0][3:])
    sig = F.fns.get(f.path)
    if not sig or sig['vis'] == 'pub':
        return None
    tr = sig.get('impl_trait')
    if tr and (F.traits.get(tr) or {}).get('vis') == 'pub':
        return None
    item = sig.get('trait_item')
    sites = [x for x in F.all_calls() if x.callee and (x.callee.best == f.path or (item and x.callee.defp == item) or x.callee.resolved == f.path)]
    if not sites:
        return F.passed_closures(f.path, k - 1)
    out = []
    for x in sites:
        if k - 1 >= len(x.args):
            return None
        xop = x.args[k - 1]
        if xop.get('k') == 'const' and (xop.get('fn') or {}).get('local'):
            # a function of this crate passed by name: analysed like any other crate function
            r = xop['fn'].get('resolved') or {}
            out.append(r.get('def') if r.get('kind') == 'item' else xop['fn']['def'])
            continue
        xa = x.body.access_path(xop)
        if not xa or len(xa) != 1 or not xa[0].startswith('agg@bb'):
            return None
        m = re.match(r'agg@bb(\d+)\.(\d+)$', xa[0])
        st = x.body.blocks[int(m.group(1))]['stmts'][int(m.group(2))]
        if not st['rv'].get('closure'):
            return None
        out.append(st['rv']['closure'])
    return sorted(set(out))


def may_block(F):
    """functions that (transitively, direct + CHA edges, closures included)
    contain user code, a blocking call or a lock acquisition"""
    own = {}
    extra = {}
    for b in F.fn_bodies():
        why = None
        for c in b.calls():
            if c.exp:
                continue
            k = user_call_kind(c)
            if k == 'indirect':
                cbs = param_callbacks(F, b, c)
                if cbs is not None:
                    extra.setdefault(b.path, set()).update(cbs)
                    continue
            if k:
                why = '%s at %s' % (k, c.loc())
                break
            if c.callee and (is_blocking(F, c.callee.best) or LOCK_ACQUIRE.search(c.callee.best)):
                why = '%s at %s' % (c.callee.best, c.loc())
                break
        own[b.path] = why
    g = {k: set(v) for k, v in F.call_graph().items()}
    for k, v in extra.items():
        g.setdefault(k, set()).update(v)
    res = dict((k, v) for k, v in own.items() if v)
    changed = True
    while changed:
        changed = False
        for f, ts in g.items():
            if f in res:
                continue
            for t in ts:
                if t in res:
                    res[f] = 'calls %s (%s)' % (t, res[t] if len(res[t]) < 120 else res[t][:120])
                    changed = True
                    break
    return res


ALLOWED_UNDER_GUARD = re.compile(r'^utils::private::Condvar::(wait_while|notify_all)$')


def r5(R5, cfg, F):
    mb = may_block(F)
    # lock wrappers themselves are not "blocking inside a region": they are the acquisition
    n = 0
    for b in F.fn_bodies():
        if b.path.startswith('utils::private::'):
            continue
        for g in b.calls():
            if not g.dest or g.dest['p'] or not GUARD_TY.search(g.dest['ty']):
                continue
            if g.callee and g.callee.defp in ('std::ops::Deref::deref', 'std::ops::DerefMut::deref_mut'):
                continue
            n += 1
            reg = b.region_of(g)
            bad = []
            for c in b.calls():
                if (c.bb, c.idx) not in reg or c is g or c.exp:
                    continue
                nm = c.callee.best if c.callee else '(indirect)'
                if c.callee and ALLOWED_UNDER_GUARD.search(nm):
                    # waiting on the condvar with the condvar's own mutex guard (moved into the wait)
                    continue
                k = user_call_kind(c)
                cbs = param_callbacks(F, b, c) if k == 'indirect' else None
                if cbs is not None:
                    # a callback parameter of a crate-private function: every closure passed for it must be harmless
                    for t in cbs:
                        if t in mb:
                            bad.append('%s runs the callback %s which %s' % (c.loc(), t, mb[t]))
                    continue
                for t in closure_args(F, b, c):
                    if t in mb:
                        bad.append('%s hands %s the closure %s which %s' % (c.loc(), nm, t, mb[t]))
                if k:
                    bad.append('%s user code (%s)' % (c.loc(), k))
                elif c.callee and is_blocking(F, nm):
                    bad.append('%s blocking call %s' % (c.loc(), nm))
                elif c.callee and LOCK_ACQUIRE.search(nm):
                    bad.append('%s acquires %s while holding %s' % (c.loc(), nm, g.callee.best if g.callee else '?'))
                else:
                    for t in F.callee_targets(c):
                        if t in mb:
                            bad.append('%s calls %s which %s' % (c.loc(), t, mb[t]))
                            break
            R5.check(not bad, cfg, b.path, 'guard-region-free-of-user/blocking:%s' % (g.callee.name if g.callee else '?'),
                     'while the guard returned by %s is live: %s' % (g.callee.best if g.callee else '?', '; '.join(bad[:4])), g.loc(),
                     guard=g.dest['ty'], region_points=len(reg))
    R5.note(cfg, guard_regions=n, lock_order_edges=0)
