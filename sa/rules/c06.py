"""C06 -- reloads are precise and every one is reported exactly once.
Who-may-call rules on the reload counter protocol (DESIGN.md section 4, C06)."""
import re

import common
from mir import agg_stmts

LEVEL = 'other'
EXPLANATION = (
    'Who-may-call and dominance rules over the MIR of every hot-reloading configuration: the reload id of an entry '
    'is touched only by increment (in the single writer, inside the write-guard region, after the swap) and load; '
    'the global flag is stored true only by the writer and swapped false only by reloaded_global; the writer is '
    'reached only through UntypedHandle::write <- AnyCache::reload_untyped (on the Ok arm of the load) <- '
    'DepsGraph::reload <- run_update <- {update_if_local, update_if_static, use_static_ref}; nothing else re-reads the '
    'source; visit() pushes each key at most once per pass; entries start at NEVER / false. This decides "grows by '
    'one for each successful rewrite and never otherwise"; "rewrites only affected assets" is necessary-only.')
TRUSTED = ['rustc MIR construction', 'std atomics', 'amfacts driver + rule engine in /verif/sa']

DYN = 'entry::Dynamic'


def field_refs(F, adt, field, inner=False):
    """(body, bb, idx, stmt) taking a reference to adt.field"""
    out = []
    for b in F.fn_bodies():
        for bb, j, s in b.assigns():
            rv = s['rv']
            pl = None
            if rv['k'] in ('ref', 'rawptr'):
                pl = rv['place']
            elif rv['k'] == 'use' and rv['op']['k'] in ('copy', 'move'):
                pl = rv['op']['place']
            if pl is None:
                continue
            fs = [e for e in pl['p'] if isinstance(e, dict) and 'f' in e]
            if fs and fs[-1].get('n') == field and fs[-1].get('of') == adt:
                out.append((b, bb, j, s))
            elif inner and len(fs) >= 2 and fs[-2].get('n') == field and fs[-2].get('of') == adt:
                out.append((b, bb, j, s))          # a reference to the only field of the newtype stored there
    return out


def consumers(b, local):
    """calls that receive the value of `local` (through copies/reborrows)"""
    out = []
    esc = []
    for l in b.flows_to(local):
        for u in b.uses_of(l):
            if u[0] == 'call':
                out.append(u[2])
            elif u[0] == 'stmt' and u[3]['rv']['k'] == 'aggregate':
                esc.append(u[3])
    return out, esc


def run(ctx):
    rep = ctx.report
    R1 = rep.rule('C06.R1', 'counter protocol: reload id only incremented by the writer / loaded elsewhere; global flag stored by the writer, swapped by reloaded_global', floor=6)
    R2 = rep.rule('C06.R2', 'only successful reloads write: write <- reload_untyped(Ok arm) <- DepsGraph::reload <- run_update <- 3 update entry points', floor=6)
    R3 = rep.rule('C06.R3', 'at most once per pass: visited check precedes the push; only visit writes the order; run_update clears the change set', floor=4)
    R4 = rep.rule('C06.R4', 'entries start at NEVER / false; static entries report NEVER / false', floor=5)
    S2 = rep.rule('C07.R3', 'the reload id is bumped inside the write-guard region, after the value swap (shared with C07)', floor=5)
    S3 = rep.rule('C07.R4', 'one writer (shared with C07)', floor=1)
    S1 = rep.rule('C09.R3', 'the dependency graph is updated exactly on a successful reload (shared with C09, C05)', floor=2)
    S4 = rep.rule('C18.R3', 'a watcher decides and remembers with ONE snapshot of the reload id: reloaded() = last_reload_id.update(reload_id.load()) -- a second load between the answer and the update loses the rewrite that lands in between (shared with C18, watcher clause)', floor=1)
    S5 = rep.rule('C09.R1', 'what a load reads inside no_record is not recorded, so its change rewrites nothing: the recording guard of record / no_record lives across the user closure (shared with C09)', floor=5)
    for cfg, F in ctx.cfgs():
        hr = 'hot-reloading' in ctx.cfg_features[cfg]
        if hr:
            from c09 import r1 as recording_scopes
            recording_scopes(S5, cfg, F)
            S5.finish_cfg(cfg)
        r4(R4, cfg, F, hr)
        R4.finish_cfg(cfg)
        if not hr:
            continue
        r1(R1, cfg, F)
        r2(R2, cfg, F)
        r3(R3, cfg, F)
        # precision also needs the dependency set to be re-learned at every successful reload: stale edges
        # make a later notification of a dropped entry rewrite the asset although nothing it reads changed
        from c09 import r3 as relearn
        relearn(S1, cfg, F)
        # "a value read after a watcher reported a reload is at least as new as that reload": the id is bumped inside the
        # write-guard region, after the swap
        from c07 import r3 as writer_region
        writer_region(S2, S3, cfg, F)
        from c18 import watcher as one_snapshot
        wb = F.one(r"^entry::ReloadWatcher::<'a>::reloaded$")
        if not wb:
            S4.missing(cfg, 'entry::ReloadWatcher::reloaded')
        else:
            one_snapshot(S4, cfg, wb)
        for r in (R1, R2, R3, S1, S2, S3, S4):
            r.finish_cfg(cfg)


def writer(F):
    cs = F.callers_of(r'^entry::swap_any$')
    return cs[0] if len(cs) == 1 else None


def r1(R1, cfg, F):
    w = writer(F)
    if not w:
        R1.missing(cfg, 'single caller of swap_any (the writer)')
        return
    inc = F.callers_of(r'^entry::AtomicReloadId::increment$')
    folded = not F.body('entry::AtomicReloadId::increment')
    if folded:
        # the one-line helper was written into its caller: the bump is the `fetch_add` on `….reload.0`, in the writer only
        # (the loop below meets every reference to that field)
        wb = F.body(w)
        direct = [c for c in wb.calls() if c.callee and c.callee.name == 'fetch_add' and 'atomic::Atomic' in c.callee.best and 'reload' in (wb.access_path(c.args[0]) or [])]
        R1.check(len(direct) == 1, cfg, 'entry::AtomicReloadId::increment', 'callers={writer}', 'the reload id must be bumped exactly once, by the writer %s; direct bumps there: %d' % (w, len(direct)))
    else:
        R1.check(inc == [w], cfg, 'entry::AtomicReloadId::increment', 'callers={writer}', 'increment may be called only from the writer %s; callers: %s' % (w, inc))
    # every use of Dynamic.reload
    n = 0
    for b, bb, j, s in field_refs(F, DYN, 'reload', inner=True):
        cs, esc = consumers(b, s['place']['l'])
        for c in cs:
            nm = c.callee.best if c.callee else '?'
            n += 1
            ok = nm in ('entry::AtomicReloadId::load',) or (nm == 'entry::AtomicReloadId::increment' and b.path == w) \
                or (folded and b.path == w and bool(re.search(r'atomic::Atomic::<usize>::fetch_add$|atomic::AtomicUsize::fetch_add$', nm)))
            R1.check(ok, cfg, b.path, 'Dynamic.reload->' + nm.split('::')[-1], 'the reload id of an entry may only be loaded, or incremented by the writer; `%s` is applied to it' % nm, c.loc())
        for a in esc:
            n += 1
            ok = bool(re.search(r'::reload_watcher::\{closure#1\}$', b.path)) and a['rv'].get('variant_name') == 'Some'
            R1.check(ok, cfg, b.path, 'Dynamic.reload-escapes-into-ReloadWatcher', 'a reference to the reload id escapes outside reload_watcher()', '%s:%s' % (b.file, a['line']))
    if n < 4:
        R1.missing(cfg, 'uses of Dynamic.reload (found %d)' % n)
    # no public function hands out &AtomicReloadId of an entry
    for p, f in F.fns.items():
        if f['vis'] == 'pub' and re.search(r'&.*AtomicReloadId', f['output']) and not p.startswith('entry::AtomicReloadId'):
            R1.bad(cfg, p, 'exposes-&AtomicReloadId', 'a public function returns a reference to an AtomicReloadId', '%s:%s' % (f['file'], f['line']))
    # watcher: only load() on its reload_id
    for b, bb, j, s in field_refs(F, 'entry::ReloadWatcherInner', 'reload_id'):
        cs, esc = consumers(b, s['place']['l'])
        for c in cs:
            nm = c.callee.best if c.callee else '?'
            if c.exp:
                continue
            R1.check(nm == 'entry::AtomicReloadId::load', cfg, b.path, 'watcher.reload_id->' + nm.split('::')[-1], 'a ReloadWatcher may only load the entry\'s reload id; applies `%s`' % nm, c.loc())
    # global flag
    for b, bb, j, s in field_refs(F, DYN, 'reload_global'):
        cs, esc = consumers(b, s['place']['l'])
        for c in cs:
            nm = c.callee.name if c.callee else '?'
            if nm == 'store':
                ok = b.path == w and c.args[1].get('text') == 'true'
                R1.check(ok, cfg, b.path, 'reload_global.store(true)-by-writer', 'the global reload flag may be stored only by the writer, with `true`', c.loc())
            elif nm == 'swap':
                ok = bool(re.search(r'::reloaded_global::\{closure#\d+\}$', b.path)) and c.args[1].get('text') == 'false'
                if not ok and c.args[1].get('text') == 'false' and b.kind != 'Closure':
                    # a private accessor that only the reloaded_global functions use (called, or handed to `either` by name)
                    us = common.users_of_fn(F, b.path)
                    ok = bool(us) and all(re.search(r'::reloaded_global$', u) for u in us)
                R1.check(ok, cfg, b.path, 'reload_global.swap(false)-by-reloaded_global', 'the global flag may be swapped only by reloaded_global, with `false`', c.loc())
            elif nm == 'load':
                R1.ok(cfg, b.path, 'reload_global.load', c.loc())
            else:
                R1.bad(cfg, b.path, 'reload_global->' + nm, 'unexpected operation `%s` on the global reload flag' % (c.callee.best if c.callee else '?'), c.loc())


def switch_on(b, ap_expect):
    return [bb for bb, t in b.terms() if t['k'] == 'switch' and b.access_path(t['discr']) == ap_expect]


def r2(R2, cfg, F):
    cw = F.callers_of(r'^entry::UntypedHandle::write$')
    R2.check(cw == ["anycache::AnyCache::<'a>::reload_untyped"], cfg, 'entry::UntypedHandle::write', 'callers={reload_untyped}', 'UntypedHandle::write may be called only from AnyCache::reload_untyped; callers: %s' % cw)
    b = F.body("anycache::AnyCache::<'a>::reload_untyped")
    if not b:
        R2.missing(cfg, 'reload_untyped')
        return
    wr = [c for c in b.calls() if c.callee and c.callee.best == 'entry::UntypedHandle::write']
    ok = False
    why = 'shape'
    if len(wr) == 1:
        src = b.downcast_source(wr[0].args[1])     # the new entry: Ok payload of the load result
        if src and src[1] == 'Ok':
            sw = b.discr_switches(src[0])
            if len(sw) == 1:
                okedge = b.variant_edge(sw[0], 0)
                ok = okedge is not None and wr[0].bb not in b.reachable([0], removed_edges=[(sw[0], okedge)])
                why = 'write reachable without passing the Ok edge'
                if ok and (b.reachable([okedge], removed_blocks=[wr[0].bb]) & set(b.return_blocks())):
                    ok = False
                    why = 'a successful reload can return without writing the new value'
                # the result tested is the one produced by the load (record(..) or the bare closure call)
                roots = b.call_roots(src[0])
                names = sorted(r.callee.best for r in roots if r.callee)
                # (the load closure may be written in place on the no-reloader arm: then its catch_unwind / panic-to-Error appear here)
                fine = ('hot_reloading::records::record', 'hot_reloading::records::Dependencies::empty', 'std::panic::catch_unwind', 'error::Error::new')
                if 'hot_reloading::records::record' not in names or not all(n in fine or re.search(r'reload_untyped::\{closure#\d+\}$', n) for n in names):
                    ok = False
                    why = 'the tested result is not the load result (%s)' % names
                # Some(deps) only where write was executed
                somes = [(bb, s) for bb, j, s in b.assigns() if s['place']['l'] == 0 and s['rv']['k'] == 'aggregate' and s['rv'].get('variant_name') == 'Some']
                for bb, s in somes:
                    if not (b.dominates(wr[0].bb, bb)):
                        ok = False
                        why = 'reload_untyped returns Some(deps) on a path that did not write'
                if not somes:
                    ok = False
                    why = 'no Some(deps) result'
        # the handle written is the cached one for (id, typ)
        h = b.call_roots(wr[0].args[0], passthrough=common.PT_TRY)
        hp = common.deep_path(b, wr[0].args[0], at=wr[0].bb) or []
        via_path = [c for c in b.calls() if hp[:1] == ['call@bb%d' % c.bb] and c.callee and c.callee.name == 'get_cached_untyped' and hp[1:] in (['as:Some', '0'], [])]
        if [r.callee.name for r in h if r.callee] != ['get_cached_untyped'] and not via_path:
            ok = False
            why = 'the handle written is not the cached entry of (id, typ)'
    R2.check(ok, cfg, b.path, 'write-only-on-Ok-of-the-load', 'reload_untyped must write exactly when the load returned Ok, to the cached handle of (id,typ): %s' % why, wr[0].loc() if wr else b.loc())
    cs = F.callers_of(r"AnyCache::<'a>::reload_untyped$")
    R2.check(cs == ['hot_reloading::dependencies::DepsGraph::reload'], cfg, "AnyCache::<'a>::reload_untyped", 'callers=reload', 'callers must be DepsGraph::reload, are %s' % cs)
    # DepsGraph::reload is called only by the update pass, which only the three update entry points run
    ups = common.update_passes(F)
    want = sorted('hot_reloading::paths::HotReloadingData::' + x for x in ('update_if_local', 'update_if_static', 'use_static_ref'))
    R2.check(sorted(ups) == want, cfg, 'dependencies::DepsGraph::reload', 'callers=run_update', 'the update pass (the only caller of DepsGraph::reload) must be run by %s only, it is run by %s' % (want, sorted(ups)))
    R2.check(sorted(ups) == want, cfg, 'hot_reloading::paths::run_update', 'callers=update_if_local,update_if_static,use_static_ref', 'callers must be %s, are %s' % (want, sorted(ups)))
    # the reloader's own data structure never reads the source on its own: Source::read* reached only via the load fn pointer
    for p in [x for x in ('hot_reloading::paths::run_update',) if F.body(x)] + ['hot_reloading::paths::HotReloadingData::handle_events', 'hot_reloading::paths::HotReloadingData::add_asset',
              'hot_reloading::dependencies::DepsGraph::insert']:
        if not F.body(p):
            R2.missing(cfg, p)
            continue
        reach = F.reach([p])
        hits = sorted(x for x in reach if re.search(r'as source::Source>::(read|read_dir)$', x) or x in ('<T as anycache::Cache>::read', '<T as anycache::Cache>::read_dir'))
        R2.check(not hits, cfg, p, 'no-direct-source-read', '`%s` reads the source without going through an asset load: %s' % (p, hits), F.body(p).loc())


def r3(R3, cfg, F):
    D = 'hot_reloading::dependencies::'
    b = common.find_visit(F)
    if not b:
        R3.missing(cfg, 'DepsGraph::visit')
        return
    # the key being visited: the parameter of type BorrowedDependency (wherever it is in the parameter list)
    karg = [i for i in range(1, b.arg_count + 1) if 'BorrowedDependency' in b.local_ty(i)]
    KEY = 'arg%d' % karg[0] if len(karg) == 1 else 'arg3'
    chk = [c for c in b.calls() if c.callee and c.callee.name == 'contains' and 'HashSet' in c.callee.best and 'visited' in (b.access_path(c.args[0]) or []) or
           (c.callee and c.callee.name == 'contains' and 'HashSet' in c.callee.best and
            any('visited' in (b.access_path(r.args[0]) or []) for r in b.call_roots(c.args[0], passthrough=lambda s: None)))]
    push = [c for c in b.calls() if c.callee and c.callee.name == 'push' and 'Vec' in c.callee.best]
    ok = len(chk) == 1 and len(push) == 1
    if ok:
        sw = switch_on(b, ['call@bb%d' % chk[0].bb])
        ok = len(sw) == 1
        if ok:
            notseen = [d for d, lab in b.edges(sw[0]) if lab == 'sw:0']
            ok = bool(notseen) and push[0].bb not in b.reachable([0], removed_edges=[(sw[0], notseen[0])])
            ap = b.access_path(chk[0].args[1])
            ok = ok and bool(ap) and ap[0] == KEY
    R3.check(ok, cfg, b.path, 'visited-check-guards-the-push', 'visit must return early for an already visited key before pushing it (each asset at most once per pass)', b.loc())
    # the visited key inserted is the key being visited
    ins = [c for c in b.calls() if c.callee and c.callee.name == 'insert' and 'HashSet' in c.callee.best]
    ok = len(ins) == 1
    if ok:
        r = b.call_roots(ins[0].args[1])
        ok = [x.callee.name for x in r if x.callee] == ['into_owned'] and b.access_path(r[0].args[0]) == [KEY]
    R3.check(ok, cfg, b.path, 'marks-own-key-visited', 'visit must mark exactly the key it is visiting', ins[0].loc() if ins else b.loc())
    # only visit pushes to TopologicalSortData.list
    pushers = sorted({bb.path for bb, _, _, s in field_refs(F, D + 'TopologicalSortData', 'list') if s['rv']['k'] == 'ref' and s['rv']['mut']})
    R3.check(pushers == [b.path], cfg, D + 'TopologicalSortData.list', 'written-only-by-visit', 'mutable access to the order list outside visit: %s' % pushers)
    ups = common.update_passes(F)
    if not ups:
        R3.missing(cfg, 'run_update')
        return
    # (the pass is the same code wherever it is written: judged once per distinct function that contains it)
    seen_src = set()
    for fn, ru in sorted(ups.items()):
        ts = [c for c in ru.calls() if c.callee and c.callee.name == 'topological_sort_from']
        cl = [c for c in ru.calls() if c.callee and c.callee.name == 'clear' and 'HashSet' in c.callee.best]
        # (the set may also be emptied by taking its content out: mem::take / mem::replace(set, HashSet::new()))
        tk = [c for c in ru.calls() if c.callee and c.callee.best in ('std::mem::take', 'std::mem::replace') and c.args and 'HashSet<source::OwnedDirEntry' in (c.args[0]['place']['ty'] if c.args[0]['k'] in ('copy', 'move') else '')]
        taken = False
        if not cl and len(tk) == 1:
            cl, taken = tk, True
        it = [c for c in ru.calls() if c.callee and c.callee.best == D + 'TopologicalSort::into_iter']
        rl = [c for c in ru.calls() if c.callee and c.callee.best == D + 'DepsGraph::reload']
        ok = len(ts) == 1 and len(cl) == 1 and len(it) == 1 and len(rl) == 1
        if ok:
            key = (ts[0].loc(), rl[0].loc())
            if key in seen_src:
                continue
            seen_src.add(key)
            _pt0 = common.make_pt(r'HashSet::<T, S, A>::iter$', r'IntoIterator.*::into_iter$', r'Iterator>::next$')

            def pt(site):
                # (the sort result's own into_iter -- inherent, or an IntoIterator impl -- is where the slice stops)
                if site.callee and site.callee.best == D + 'TopologicalSort::into_iter':
                    return None
                return _pt0(site)
            ok = (ru.dominates(cl[0].bb, ts[0].bb) if taken else ru.dominates(ts[0].bb, cl[0].bb)) and ru.dominates(cl[0].bb, it[0].bb) \
                and common.deep_path(ru, it[0].args[0]) == ['call@bb%d' % ts[0].bb]
            # the set cleared is the set sorted from (the change set), the graph sorted is the graph reloaded
            def base(op, depth=0):
                ap = common.strip_refs(common.deep_path(ru, op))
                if ap and ap[0].startswith('call@bb') and depth < 5:
                    site = [c for c in ru.calls() if 'call@bb%d' % c.bb == ap[0]]
                    if site and site[0].callee and site[0].callee.name in ('iter', 'into_iter', 'deref', 'deref_mut', 'as_ref', 'as_mut', 'borrow', 'borrow_mut') and site[0].args:
                        return base(site[0].args[0], depth + 1)
                return ap
            cs_ = base(cl[0].args[0])
            if taken:
                # what is sorted from is the content that was taken out of the change set
                ok = ok and bool(cs_) and cs_[-1:] == ['to_reload'] and base(ts[0].args[1]) == ['call@bb%d' % cl[0].bb]
                if ok and cl[0].callee.best == 'std::mem::replace':
                    nr = ru.call_roots(cl[0].args[1])
                    ok = len(nr) == 1 and nr[0].callee.name in ('new', 'default', 'with_hasher', 'with_capacity_and_hasher') and not [a for a in nr[0].args if a['k'] != 'const' and nr[0].callee.name == 'new']
            else:
                ok = ok and bool(cs_) and cs_ == base(ts[0].args[1]) and cs_[-1:] == ['to_reload']
            ok = ok and common.strip_refs(common.deep_path(ru, ts[0].args[0])) == common.strip_refs(common.deep_path(ru, rl[0].args[0]))
            src = ru.downcast_source(rl[0].args[2])
            ok = ok and bool(src) and src[1] == 'Some' and [r.callee.best for r in ru.call_roots(src[0], passthrough=pt)] == [D + 'TopologicalSort::into_iter']
        R3.check(ok, cfg, common.RUN_UPDATE if F.body(common.RUN_UPDATE) else fn, 'sort-then-clear-then-reload-that-order', 'the update pass must sort from the change set, clear it, and reload exactly the sorted keys', ru.loc())


def r4(R4, cfg, F, hr):
    never = F.consts.get('entry::ReloadId::NEVER')
    if not never:
        R4.missing(cfg, 'ReloadId::NEVER')
    else:
        R4.check(isinstance(never['value'], dict) and never['value'].get('bits') == '0', cfg, 'entry::ReloadId::NEVER', 'NEVER==0', 'NEVER must be 0', '%s:%s' % (never['file'], never['line']))
    nb = F.body('entry::AtomicReloadId::new')
    if nb:
        cs = [c for c in nb.calls()]
        R4.check(len(cs) == 1 and cs[0].callee.best == 'entry::AtomicReloadId::with_value' and nb.access_path(cs[0].args[0]) == ['const:entry::ReloadId::NEVER'],
                 cfg, nb.path, 'new()=with_value(NEVER)', 'AtomicReloadId::new must start at NEVER', nb.loc())
    else:
        R4.missing(cfg, 'AtomicReloadId::new')
    if hr:
        b = F.body('entry::EntryStorage::<T>::new_dynamic')
        if not b:
            R4.missing(cfg, 'new_dynamic')
        else:
            dyn = [s for _, _, s in b.assigns() if s['rv']['k'] == 'aggregate' and s['rv'].get('adt') == DYN]
            ok = len(dyn) == 1
            if ok:
                rv = dyn[0]['rv']
                f = dict(zip(rv['fields'], rv['ops']))
                r1_ = b.call_roots(f['reload'])
                r2_ = b.call_roots(f['reload_global'])
                ok = [x.callee.best for x in r1_] == ['entry::AtomicReloadId::new'] and len(r2_) == 1 and r2_[0].callee.name == 'new' and r2_[0].args[0].get('text') == 'false'
            R4.check(ok, cfg, b.path, 'dynamic-entry-starts-at-NEVER/false', 'a new dynamic entry must start with reload id new() and global flag false', b.loc())
    # every static arm passed to either() reports "never reloaded": a call-free constant NEVER / false / None
    for c in F.calls_to(r'^entry::(Handle::<T>|UntypedHandle)::either$'):
        b = c.body
        aggs = agg_stmts(b, c.args[1])
        cp = aggs[0]['rv'].get('closure') if len(aggs) == 1 else None
        cb = F.body(cp) if cp else None
        ok = False
        if cb is not None:
            rets = [s for _, _, s in cb.assigns() if s['place']['l'] == 0]
            if len(rets) == 1 and not cb.calls():
                rv = rets[0]['rv']
                ok = (rv['k'] == 'use' and rv['op'].get('text') in ('entry::ReloadId::NEVER', 'false')) or \
                     (rv['k'] == 'aggregate' and rv.get('variant_name') == 'None')
        R4.check(ok, cfg, b.path, 'static-arm-is-never/false/None', 'the on_static arm given to either() must report "never reloaded" (NEVER / false / None)', c.loc())
    for owner in ("entry::Handle::<T>", "entry::UntypedHandle"):
        for fn, want in (('last_reload_id', 'entry::ReloadId::NEVER'), ('reloaded_global', 'false')):
            cb = F.body('%s::%s::{closure#0}' % (owner, fn))
            if not cb:
                R4.missing(cfg, '%s::%s::{closure#0}' % (owner, fn))
                continue
            rets = [s for _, _, s in cb.assigns() if s['place']['l'] == 0]
            ok = len(rets) == 1 and rets[0]['rv']['k'] == 'use' and rets[0]['rv']['op'].get('text') == want and not cb.calls()
            R4.check(ok, cfg, cb.path, 'static-arm=' + want.split('::')[-1], 'the static arm of %s must report %s' % (fn, want), cb.loc())
        eb = F.body(owner + '::either')
        if not eb:
            R4.missing(cfg, owner + '::either')
            continue
        # on_static (arg2) is called exactly when there is no Dynamic (or always, without hot-reloading)
        calls = [c for c in eb.calls() if c.callee and c.callee.name == 'call_once']
        a = {(eb.access_path(c.args[0]) or ['?'])[0]: c for c in calls}
        if not hr:
            ok = set(a) == {'arg2'}
        else:
            ok = set(a) == {'arg2', 'arg3'}
            if ok:
                sw = [bb for bb, t in eb.terms() if t['k'] == 'switch' and (eb.access_path(t['discr']) or [])[-2:] == ['dynamic', 'discr'] or
                      (t['k'] == 'switch' and 'dynamic' in (eb.access_path(t['discr']) or []) and (eb.access_path(t['discr']) or [])[-1] == 'discr')]
                ok = len(sw) == 1
                if ok:
                    some = [d for d, lab in eb.edges(sw[0]) if lab == 'sw:1']
                    ok = bool(some) and a['arg3'].bb not in eb.reachable([0], removed_edges=[(sw[0], some[0])]) and a['arg2'].bb not in eb.reachable(some)
        R4.check(ok, cfg, eb.path, 'either-dispatches-on-dynamic', 'either() must call on_dynamic exactly for dynamic entries and on_static otherwise', eb.loc())
