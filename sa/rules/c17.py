"""C17 -- OnceInitCell initialises once, keeps its seed on failure, drops once.
Only in configurations with the `utils` feature (DESIGN.md section 4, C17)."""
import re

import common
from common import user_call_kind
from mir import agg_direct

LEVEL = 'other'
EXPLANATION = (
    'Union-access, Err/unwind-edge and forward-slice rules on the MIR of utils/cell.rs (configurations with the utils '
    'feature): (R1) a &mut to the State union is created only inside a closure passed to OnceCell::get_or_try_init, '
    'and the `init` arm is read only by get_unchecked, which is called only after once.get() returned Some or '
    'get_or_try_init returned Ok; (R2) in both initialiser closures the state is overwritten only after the user '
    'function returned Ok (neither on the Break edge of `?` nor on its unwind edge); (R3) in the dropping variant the '
    'replaced seed escapes the closure (stored in the captured slot, never dropped inside) and is dropped by the outer '
    'function only after get_or_try_init returned; (R4) the no-drop fast path is reachable only through the false '
    'edge of needs_drop::<U>(); (R5) Drop drops `init` on the Some edge of once.get_mut() and `uninit` on the None '
    'edge; (R6) get() calls only OnceCell::get and get_unchecked; (R7) unsafe impl Sync requires T: Send+Sync and U: '
    'Send. Exactly-once execution of the initialiser is once_cell\'s (trusted).')
TRUSTED = ['rustc MIR construction (unwind edges)', 'once_cell::sync::OnceCell::get_or_try_init runs at most one successful initialiser and blocks concurrent ones',
           'amfacts driver + rule engine in /verif/sa']

C = 'utils::cell::OnceInitCell::<U, T>::'
UNION = 'utils::cell::State'


def run(ctx):
    rep = ctx.report
    R1 = rep.rule('C17.R1', 'the union is written only inside the once-initialiser; `init` is read only after initialisation was observed', floor=4)
    R2 = rep.rule('C17.R2', 'failure keeps the seed: the state is overwritten only after f returned Ok', floor=2)
    R3 = rep.rule('C17.R3', 'the replaced seed escapes the closure and is dropped after get_or_try_init returned', floor=2)
    R4 = rep.rule('C17.R4', 'the no-drop fast path is taken only when !needs_drop::<U>()', floor=1)
    R5 = rep.rule('C17.R5', 'Drop drops the live arm of the union', floor=1)
    R6 = rep.rule('C17.R6', 'get() never blocks: only OnceCell::get and get_unchecked', floor=1)
    R7 = rep.rule('C17.R7', 'unsafe impl Sync carries T: Send + Sync and U: Send', floor=1)
    R8 = rep.rule('C17.R8', 'the unchecked operations of utils::cell are a closed table (each is covered by R1 / R3 / R5); a new one is outside every argument', floor=1)
    n = 0
    for cfg, F in ctx.cfgs(lambda c, f: 'utils' in f):
        n += 1
        r8(R8, cfg, F)
        R8.finish_cfg(cfg)
        r1(R1, cfg, F)
        r2(R2, cfg, F)
        r3(R3, cfg, F)
        r4(R4, cfg, F)
        r5(R5, cfg, F)
        r6(R6, cfg, F)
        r7(R7, cfg, F)
        for r in (R1, R2, R3, R4, R5, R6, R7):
            r.finish_cfg(cfg)
    if n == 0:
        R1.missing('*', 'a configuration with the utils feature')


def once_closures(F):
    """closures passed to OnceCell::get_or_try_init / get_or_init"""
    out = {}
    for c in F.calls_to(r'^once_cell::sync::OnceCell::<T>::(get_or_try_init|get_or_init)$'):
        lit = agg_direct(c.body, c.args[1])
        if lit is not None and 'closure' in lit['rv']:
            out[lit['rv']['closure']] = c
    return out


def union_mut_sites(F):
    """(body, bb, idx, stmt): creation of &mut State / writes through a State place"""
    out = []
    for b in F.fn_bodies():
        for bb, j, s in b.assigns():
            rv = s['rv']
            if rv['k'] == 'ref' and rv['mut'] and re.match(r'^utils::cell::State<', rv['place']['ty']):
                out.append((b, bb, j, s, 'ref-mut'))
            pl = s['place']
            if pl['p'] and re.match(r'^utils::cell::State<', pl['ty']) and any(e == 'deref' for e in pl['p']):
                out.append((b, bb, j, s, 'overwrite'))
    return out


def r1(R1, cfg, F):
    ocs = once_closures(F)
    if len(ocs) < 2:
        R1.missing(cfg, 'the two closures passed to OnceCell::get_or_try_init (found %d)' % len(ocs))
    sites = union_mut_sites(F)
    for b, bb, j, s, kind in sites:
        if b.path == '<utils::cell::OnceInitCell<U, T> as std::ops::Drop>::drop':
            continue     # &mut self: exclusive
        R1.check(b.path in ocs, cfg, b.path, 'union-' + kind + '-inside-once-initialiser',
                 'mutable access to the State union outside a closure passed to OnceCell::get_or_try_init: two threads could write it at once', '%s:%s' % (b.file, s['line']))
    if not sites:
        R1.missing(cfg, 'mutable accesses to the State union')
    # UnsafeCell::get on `data` only in the closures and in get_unchecked
    for c in F.calls_to(r'^std::cell::UnsafeCell::<T>::(get|raw_get)$'):
        b = c.body
        if 'data' not in (b.access_path(c.args[0]) or []) or not b.path.startswith('utils::cell::') and 'utils::cell' not in b.path:
            continue
        ok = b.path in ocs or b.path == C + 'get_unchecked'
        R1.check(ok, cfg, b.path, 'data.get()-only-in-initialiser-or-get_unchecked', 'the cell content is reached outside the initialiser closures / get_unchecked', c.loc())
    # get_unchecked reads `init`, and is reached only after initialisation was observed
    gu = F.body(C + 'get_unchecked')
    if not gu:
        R1.missing(cfg, 'get_unchecked')
        return
    reads = [s for _, _, s in gu.assigns() if s['rv']['k'] == 'ref' and any(isinstance(e, dict) and e.get('of') == UNION for e in s['rv']['place']['p'])]
    ok = len(reads) == 1 and not reads[0]['rv']['mut'] and [e.get('n') for e in reads[0]['rv']['place']['p'] if isinstance(e, dict) and e.get('of') == UNION] == ['init']
    R1.check(ok, cfg, gu.path, 'reads-init-arm-shared', 'get_unchecked must take a shared reference to the `init` arm only', gu.loc())
    for c in F.calls_to('^' + re.escape(C + 'get_unchecked') + '$'):
        b = c.body
        if F.written_in_place(b):
            continue    # the closure of `once.get().map(|_| ..)`: decided where it is expanded
        ok = False
        why = ''
        og = [x for x in b.calls() if x.callee and x.callee.best == 'once_cell::sync::OnceCell::<T>::get']
        oi = [x for x in b.calls() if x.callee and x.callee.best == 'once_cell::sync::OnceCell::<T>::get_or_try_init']
        if len(og) == 1:
            ok = common.guarded_by_variant(b, c.bb, [['call@bb%d' % og[0].bb]], 1)
            why = 'get_unchecked must be reached only through the Some edge of once.get()'
        elif len(oi) == 1:
            ok = common.guarded_by_variant(b, c.bb, [['call@bb%d' % oi[0].bb]], 0)
            why = 'get_unchecked must be reached only after once.get_or_try_init returned Ok'
        else:
            why = 'get_unchecked is called where initialisation was not observed'
        R1.check(ok, cfg, b.path, 'get_unchecked-after-initialisation-observed', why, c.loc())


def r2(R2, cfg, F):
    for cl in sorted(once_closures(F)):
        b = F.body(cl)
        if not b:
            continue
        f = [c for c in b.calls() if user_call_kind(c) == 'indirect']
        writes = [(bb, s) for bb, j, s in b.assigns() if s['place']['p'] and re.match(r'^utils::cell::State<', s['place']['ty']) and not b.blocks[bb]['cleanup']]
        writes += [(c.bb, None) for c in b.calls() if c.callee and c.callee.best in ('std::mem::replace', 'std::mem::swap', 'std::ptr::write') and 'utils::cell::State' in (c.args[0]['place']['ty'] if c.args[0]['k'] in ('copy', 'move') else '')]
        if len(f) != 1 or not writes:
            R2.unrecognised(cfg, b.path, 'one call of the user initialiser and at least one overwrite of the state (found %d, %d)' % (len(f), len(writes)), b.loc())
            continue
        f = f[0]
        ok = True
        why = ''
        if ok:
            for wbb, s in writes:
                if not common.guarded_by_variant(b, wbb, [['call@bb%d' % f.bb]], 0):
                    ok = False
                    why = 'the state is overwritten on a path where the initialiser did not return Ok: a failed initialisation would lose the seed'
            # unwind edge of f reaches no write
            if ok and f.unwind is not None:
                ureach = b.reachable([f.unwind], unwind=True)
                badw = [bb for bb, j, s in b.assigns() if bb in ureach and s['place']['p'] and re.match(r'^utils::cell::State<', s['place']['ty'])]
                ok = not badw
                why = 'the state is overwritten while unwinding out of the initialiser'
            # the seed handed to f is the uninit arm
            seed = b.call_roots(agg_direct(b, f.args[1])['rv']['ops'][0]) if ok and agg_direct(b, f.args[1]) is not None else []
            if ok:
                ok = len(seed) == 1 and seed[0].callee.name == 'deref_mut' and 'uninit' in (b.access_path(seed[0].args[0]) or [])
                why = 'the initialiser must receive &mut to the `uninit` arm'
            # the new state is State{init: ManuallyDrop::new(Ok payload)}
            if ok:
                st = [s for _, _, s in b.assigns() if s['rv']['k'] == 'aggregate' and s['rv'].get('adt') == UNION]
                ok = len(st) == 1 and st[0]['rv']['fields'] == ['init']
                if ok:
                    md = b.call_roots(st[0]['rv']['ops'][0])
                    ok = len(md) == 1 and md[0].callee.best == 'std::mem::ManuallyDrop::<T>::new'
                    ok = ok and common.deep_path(b, md[0].args[0]) == ['call@bb%d' % f.bb, 'as:Ok', '0']
                why = 'the state must become State { init: ManuallyDrop::new(value returned by f) }'
        R2.check(ok, cfg, b.path, 'state-overwritten-only-after-Ok', why, f.loc())


def r3(R3, cfg, F):
    cl = F.body(C + 'get_or_try_init_default::{closure#0}')
    outer = F.body(C + 'get_or_try_init_default')
    if outer and not cl:
        # (the `once.get_or_try_init(|| ..)` call moved into a private helper written in place: the closure is the one built there)
        made = [s['rv']['closure'] for _, _, s in outer.assigns() if s['rv']['k'] == 'aggregate' and s['rv'].get('closure')]
        cl = F.body(made[0]) if len(made) == 1 else None
    if not cl or not outer:
        R3.missing(cfg, 'get_or_try_init_default and its closure')
        return
    ii = [c for c in cl.calls() if c.callee and c.callee.best == 'std::mem::ManuallyDrop::<T>::into_inner']
    rp = [c for c in cl.calls() if c.callee and c.callee.best == 'std::mem::replace']
    sw = [c for c in cl.calls() if c.callee and c.callee.best == 'std::mem::swap']
    ok = len(ii) == 1 and len(rp) + len(sw) == 1
    why = 'shape (one mem::replace / mem::swap of the state, one ManuallyDrop::into_inner of the old seed)'
    if ok:
        ap = cl.access_path(ii[0].args[0])
        if rp:
            ok = ap == ['call@bb%d' % rp[0].bb, 'uninit']
        else:
            # mem::swap(state, &mut other); other.uninit  -- after the swap `other` holds what the cell held
            other = common.strip_refs(cl.access_path(sw[0].args[1]) or [])
            ok = bool(other) and ap == other + ['uninit'] and cl.dominates(sw[0].bb, ii[0].bb) and sw[0].bb != ii[0].bb
        why = 'the value taken out must be the `uninit` arm of the replaced state'
    if ok:
        # forward slice of the seed: exactly one sink, a store into the captured slot (upvar 2), never a drop operand
        carried = cl.flows_to(ii[0].dest['l'])
        sinks = []
        for l in carried:
            for u in cl.uses_of(l):
                if u[0] == 'drop':
                    sinks.append(('drop', u[1]))
                elif u[0] == 'call':
                    sinks.append(('call:' + (u[2].callee.best if u[2].callee else '?'), u[1]))
        stores = [(bb, s) for bb, j, s in cl.assigns() if s['place']['p'] == ['deref'] and s['rv']['k'] == 'use' and s['rv']['op']['k'] == 'move'
                  and s['rv']['op']['place']['l'] in carried and cl.origins(s['place']['l']) == {('upvar', 2)}]
        ok = not sinks and len([x for x in stores if not cl.blocks[x[0]]['cleanup']]) == 1
        why = 'the seed must escape through the captured slot and must not be dropped or passed elsewhere inside the closure (sinks %s, stores %d): a panicking seed destructor would leave the cell half-initialised' % (sinks, len(stores))
    R3.check(ok, cfg, cl.path, 'seed-escapes-through-captured-slot', why, ii[0].loc() if ii else cl.loc())
    # outer: the slot is dropped only after get_or_try_init returned
    oi = [c for c in outer.calls() if c.callee and c.callee.best == 'once_cell::sync::OnceCell::<T>::get_or_try_init']
    ok = len(oi) == 1
    why = 'shape'
    if ok:
        lit = agg_direct(outer, oi[0].args[1])
        slot = None
        if lit is not None and len(lit['rv']['ops']) >= 3:
            r = outer.origins(lit['rv']['ops'][2])
            slot = [x for x in r if x[0] == 'agg']
        ok = bool(slot)
        why = 'the closure must capture a local Option slot'
        if ok:
            slot_local = outer.blocks[slot[0][1]]['stmts'][slot[0][2]]['place']['l']
            dr = [c for c in outer.calls() if c.callee and c.callee.name in ('drop_cold', 'drop') and not c.exp and (outer.downcast_source(c.args[0]) or (None,))[0] == slot_local]
            dr_t = [d for d in outer.drops() if d.term['place']['l'] == slot_local and not outer.blocks[d.bb]['cleanup']]
            sites = [c.bb for c in dr] + [d.bb for d in dr_t]
            ok = bool(sites) and all(outer.dominates(oi[0].bb, s) and s != oi[0].bb for s in sites)
            why = 'the escaped seed must be dropped by the outer function, after get_or_try_init returned (so the cell is already initialised if its destructor panics)'
    R3.check(ok, cfg, outer.path, 'seed-dropped-after-once-returned', why, outer.loc())


def r4(R4, cfg, F):
    b = F.body(C + 'get_or_try_init')
    if not b:
        R4.missing(cfg, 'get_or_try_init')
        return
    nd = [c for c in b.calls() if c.callee and c.callee.best == 'std::mem::needs_drop']
    fast = [c for c in b.calls() if c.callee and c.callee.best == C + 'get_or_try_init_no_drop']
    slow = [c for c in b.calls() if c.callee and c.callee.best == C + 'get_or_try_init_default']
    ok = len(nd) == 1 and len(fast) == 1 and len(slow) == 1 and nd[0].callee.args == ['U']
    if ok:
        sw = [bb for bb, t in b.terms() if t['k'] == 'switch' and b.access_path(t['discr']) == ['call@bb%d' % nd[0].bb]]
        ok = len(sw) == 1
        if ok:
            false_t = [d for d, lab in b.edges(sw[0]) if lab == 'sw:0']
            true_t = [d for d, lab in b.edges(sw[0]) if lab != 'sw:0']
            ok = bool(false_t) and fast[0].bb not in b.reachable([0], removed_edges=[(sw[0], false_t[0])]) and slow[0].bb not in b.reachable(false_t) \
                and slow[0].bb in b.reachable(true_t)
    R4.check(ok, cfg, b.path, 'no-drop-path-iff-!needs_drop::<U>()', 'the path that forgets the seed may be taken only when U has no destructor (needs_drop::<U>() is false); otherwise seeds leak', b.loc())
    # nobody else calls the fast path
    cs = F.callers_of('^' + re.escape(C + 'get_or_try_init_no_drop') + '$')
    R4.check(cs == [b.path], cfg, C + 'get_or_try_init_no_drop', 'callers={get_or_try_init}', 'callers %s' % cs)


def r5(R5, cfg, F):
    b = F.body('<utils::cell::OnceInitCell<U, T> as std::ops::Drop>::drop')
    if not b:
        R5.missing(cfg, 'OnceInitCell::drop')
        return
    gm = [c for c in b.calls() if c.callee and c.callee.best in ('once_cell::sync::OnceCell::<T>::get_mut', 'once_cell::sync::OnceCell::<T>::get')]
    drops = [c for c in b.calls() if c.callee and c.callee.best == 'std::mem::ManuallyDrop::<T>::drop']
    ok = len(gm) == 1 and len(drops) == 2
    table = {}
    if ok:
        me = [['call@bb%d' % gm[0].bb]]
        for d in drops:
            arm = [t for t in (common.deep_path(b, d.args[0]) or []) if t in ('init', 'uninit')]
            where = 'Some' if common.guarded_by_variant(b, d.bb, me, 1) else ('None' if common.guarded_by_variant(b, d.bb, me, 0) else '?')
            table[where] = arm[0] if arm else '?'
        ok = table == {'Some': 'init', 'None': 'uninit'}
    R5.check(ok, cfg, b.path, 'drop:Some->init,None->uninit', 'Drop must drop the `init` arm when the cell is initialised and the `uninit` arm otherwise; it does %s' % table, b.loc(), table=table)
    if ok:
        # ... and always: no path returns without having dropped one of the two (whatever else it tests: whether the *seed*
        # type has drop glue says nothing about the value the cell holds once it is initialised)
        skip = b.reachable([0], removed_blocks=[d.bb for d in drops]) & set(b.return_blocks())
        R5.check(not skip, cfg, b.path, 'drop:on-every-path', 'OnceInitCell::drop returns on some path without dropping either arm of the union: what the cell holds there is leaked', b.loc())


UNCHECKED = re.compile(
    r'unwrap_unchecked$|unreachable_unchecked$|::get_unchecked(_mut)?$|assume_init|^std::mem::(transmute|transmute_copy|zeroed|uninitialized|forget)$'
    r'|^std::mem::ManuallyDrop::<T>::(take|drop|into_inner)$|^std::ptr::(read|write|copy|copy_nonoverlapping|swap|replace|drop_in_place)\b|^std::ptr::(mut_ptr|const_ptr)::.*::(read|write|add|offset|as_ref|as_mut)$'
    r'|^std::cell::UnsafeCell::<T>::(get|raw_get)$|^std::hint::assert_unchecked$|from_raw|into_raw|new_unchecked$')
UNCHECKED_REFERENCE = {
    'std::cell::UnsafeCell::<T>::get', 'std::mem::ManuallyDrop::<T>::drop', 'std::mem::ManuallyDrop::<T>::into_inner',
    'utils::cell::OnceInitCell::<U, T>::get_unchecked',
}


def r8(R8, cfg, F):
    """R1 / R3 / R5 argue about the unsafe operations that exist in utils::cell.  A new kind of unchecked operation there
    (`Option::unwrap_unchecked` on the escaped seed, `unreachable_unchecked`, `assume_init`, a raw read ..) carries an
    assumption of its own that none of those arguments covers: unclassified until somebody looks at it."""
    n = 0
    for b in F.fn_bodies():
        if 'utils::cell::' not in b.path:
            continue
        for c in b.calls():
            if c.callee and not c.exp and UNCHECKED.search(c.callee.best):
                n += 1
                R8.check(c.callee.best in UNCHECKED_REFERENCE, cfg, b.path, 'unchecked-operation:' + c.callee.best,
                         '`%s` in %s: an unchecked operation that none of the C17 arguments covers (they are made for %s)' % (c.callee.best, b.path, sorted(x.split('::')[-1] for x in UNCHECKED_REFERENCE)), c.loc())
    if n == 0:
        R8.missing(cfg, 'unchecked operations in utils::cell')


def r6(R6, cfg, F):
    b = F.body(C + 'get')
    if not b:
        R6.missing(cfg, 'OnceInitCell::get')
        return
    names = sorted(c.callee.best for c in b.calls() if c.callee)
    R6.check(names == sorted(['once_cell::sync::OnceCell::<T>::get', C + 'get_unchecked']), cfg, b.path, 'get-calls-only-OnceCell::get+get_unchecked', 'get() must not block or initialise; it calls %s' % names, b.loc())


def r7(R7, cfg, F):
    ims = [im for im in F.impls if im.get('self_adt') == 'utils::cell::OnceInitCell' and im['trait'] == 'std::marker::Sync']
    ok = len(ims) == 1 and ims[0]['safety'] == 'Unsafe'
    preds = ims[0]['predicates'] if ims else []
    need = ['T: std::marker::Send', 'T: std::marker::Sync', 'U: std::marker::Send']
    have = [p for p in need if any(p in x for x in preds)]
    R7.check(ok and have == need, cfg, 'utils::cell::OnceInitCell', 'Sync-requires-T:Send+Sync,U:Send', 'unsafe impl Sync must require T: Send + Sync and U: Send; predicates %s' % preds)
    ims = [im for im in F.impls if im.get('self_adt') == 'utils::cell::OnceInitCell' and im['trait'] == 'std::marker::Send']
    R7.check(not ims, cfg, 'utils::cell::OnceInitCell', 'no-manual-Send', 'Send must stay auto-derived from the fields')
