"""Facts loader and analysis primitives (P1-P7 of DESIGN.md section 3).

Everything here works on the JSON written by the `amfacts` driver: MIR bodies
with resolved callees, explicit unwind edges and elaborated drops; ADT / impl /
fn-signature / const facts.  Nothing executes the analysed crate.
"""
import copy
import json
import os
import re
from collections import defaultdict, deque

# --------------------------------------------------------------------------
# small helpers on the JSON shapes


def is_place_op(op):
    return op is not None and op.get('k') in ('copy', 'move')


def op_local(op):
    """local of a copy/move operand (whatever the projection), else None"""
    if is_place_op(op):
        return op['place']['l']
    return None


def op_bare_local(op):
    """local of a copy/move operand with an empty projection, else None"""
    if is_place_op(op) and not op['place']['p']:
        return op['place']['l']
    return None


def proj_str(place):
    out = '_%d' % place['l']
    for e in place['p']:
        if isinstance(e, str):
            out += '.*' if e == 'deref' else '.' + e
        elif 'f' in e:
            out += '.' + str(e['n'] if e['n'] is not None else e['f'])
        elif 'downcast' in e:
            out += ' as ' + str(e.get('n') or e['downcast'])
        elif 'index' in e:
            out += '[_%d]' % e['index']
        else:
            out += '[..]'
    return out


def place_fields(place):
    """list of field names along the projection (None for unnamed)"""
    return [e.get('n') for e in place['p'] if isinstance(e, dict) and 'f' in e]


def place_has_deref(place):
    return any(e == 'deref' for e in place['p'])


def op_str(op):
    if op is None:
        return '?'
    if op['k'] in ('copy', 'move'):
        return ('move ' if op['k'] == 'move' else '') + proj_str(op['place'])
    if op['k'] == 'const':
        return 'const ' + op['text']
    return op.get('text', '?')


class Callee:
    """the function a Call terminator invokes"""
    __slots__ = ('raw', 'defp', 'resolved', 'name', 'trait', 'local',
                 'impl_adt', 'impl_self_ty', 'impl_trait', 'args', 'self_ty',
                 'recv', 'sig_inputs', 'sig_output', 'krate', 'rkind',
                 'rargs', 'rlocal')

    def __init__(self, fn):
        self.raw = fn
        self.defp = fn['def']
        r = fn.get('resolved')
        self.resolved = r['def'] if r else None
        self.rkind = r['kind'] if r else None
        self.rargs = r['args'] if r else None
        self.rlocal = r['local'] if r else False
        self.name = fn.get('name')
        self.trait = fn.get('trait')
        self.local = fn.get('local', False)
        self.impl_adt = fn.get('impl_self_adt')
        self.impl_self_ty = fn.get('impl_self_ty')
        self.impl_trait = fn.get('impl_trait')
        self.args = fn.get('args', [])
        self.self_ty = fn.get('self_ty')
        self.recv = fn.get('recv')
        self.sig_inputs = fn.get('sig_inputs', [])
        self.sig_output = fn.get('sig_output')
        self.krate = fn.get('krate')

    @property
    def best(self):
        """the most precise def path known for the callee"""
        if self.resolved and self.rkind in ('item', 'intrinsic', 'clone_shim'):
            return self.resolved
        return self.defp

    def recv_kind(self):
        """'&self' | '&mut self' | 'self' | None (from the declared signature)"""
        if not self.raw.get('method'):
            return None
        r = self.recv or ''
        if r.startswith('&mut ') or re.match(r"&'\w+ mut ", r):
            return '&mut self'
        if r.startswith('&'):
            return '&self'
        return 'self'

    def __repr__(self):
        return self.best


class Site:
    """one terminator (call / drop / switch ...) or statement in a body"""
    __slots__ = ('body', 'bb', 'idx', 'term', 'callee')

    def __init__(self, body, bb, idx, term, callee=None):
        self.body = body
        self.bb = bb
        self.idx = idx  # statement index; len(stmts) for the terminator
        self.term = term
        self.callee = callee

    @property
    def line(self):
        return self.term.get('line')

    @property
    def exp(self):
        return bool(self.term.get('exp'))

    @property
    def file(self):
        return self.term.get('file') or self.body.file

    def loc(self):
        return '%s:%s' % (self.file, self.line)

    @property
    def args(self):
        return self.term.get('args', [])

    @property
    def dest(self):
        return self.term.get('dest')

    @property
    def target(self):
        return self.term.get('target')

    @property
    def unwind(self):
        u = self.term.get('unwind')
        return u if isinstance(u, int) else None

    def __repr__(self):
        return '%s@bb%d(%s)' % (self.callee.best if self.callee else self.term['k'],
                                self.bb, self.loc())


class Body:
    def __init__(self, raw, facts):
        self.raw = raw
        self.facts = facts
        self.path = raw['path']
        self.owner = raw['owner']
        self.kind = raw['kind']
        self.root = raw['root']
        self.parent = raw['parent']
        self.orig_parent = raw.get('orig_parent')
        self.file = raw['file']
        self.line = raw['line']
        self.exp = raw['exp']
        self.arg_count = raw['arg_count']
        self.locals = raw['locals']
        self.blocks = raw['blocks']
        self.promoted = raw['promoted']
        self.debug = raw['debug']
        self._fold_const_switches()
        self._succ = None
        self._cache = {}

    # ---- names ---------------------------------------------------------
    def local_name(self, l):
        for d in self.debug:
            if d['place']['l'] == l and not d['place']['p']:
                return d['name']
        return None

    def local_ty(self, l):
        return self.locals[l]['ty']

    def local_adt(self, l):
        return self.locals[l]['adt']

    def loc(self):
        return '%s:%s' % (self.file, self.line)

    # ---- CFG -----------------------------------------------------------
    def _fold_const_switches(self):
        """A switch on a local assigned exactly once in the whole body, by a
        constant, has one feasible edge (cfg!(), debug_assertions off...)."""
        nassign = defaultdict(int)
        for b in self.blocks:
            for s in b['stmts']:
                if s['k'] == 'assign' and not s['place']['p']:
                    nassign[s['place']['l']] += 1
            t = b['term']
            if t['k'] == 'call' and not t['dest']['p']:
                nassign[t['dest']['l']] += 1
        for b in self.blocks:
            t = b['term']
            if t['k'] != 'switch':
                continue
            d = t['discr']
            val = None
            if d['k'] == 'const' and 'bits' in d:
                val = d['bits']
            else:
                l = op_bare_local(d)
                if l is not None and nassign[l] == 1:
                    for s in b['stmts']:
                        if (s['k'] == 'assign' and s['place']['l'] == l and not s['place']['p']
                                and s['rv']['k'] == 'use' and s['rv']['op']['k'] == 'const'
                                and 'bits' in s['rv']['op']):
                            val = s['rv']['op']['bits']
            if val is not None:
                tgt = t['otherwise']
                for v, bb in t['targets']:
                    if v == val:
                        tgt = bb
                t['folded'] = tgt

    def edges(self, bb, unwind=False):
        """[(dst, label)] ; label in goto | ret | unwind | sw:<v> | otherwise"""
        t = self.blocks[bb]['term']
        k = t['k']
        out = []
        if k == 'goto':
            out.append((t['target'], 'goto'))
        elif k == 'switch':
            if 'folded' in t:
                out.append((t['folded'], 'folded'))
            else:
                for v, d in t['targets']:
                    out.append((d, 'sw:' + v))
                out.append((t['otherwise'], 'otherwise'))
        elif k in ('call', 'drop', 'assert'):
            if t.get('target') is not None:
                out.append((t['target'], 'ret'))
            if unwind and isinstance(t.get('unwind'), int):
                out.append((t['unwind'], 'unwind'))
        return out

    def succ(self, bb, unwind=False):
        return [d for d, _ in self.edges(bb, unwind)]

    def nblocks(self):
        return len(self.blocks)

    def reachable(self, starts, removed_edges=(), removed_blocks=(), unwind=False):
        """blocks reachable from `starts` (inclusive) when the given edges
        (src,dst) / blocks are removed  -- primitive P4"""
        removed_edges = set(removed_edges)
        removed_blocks = set(removed_blocks)
        seen = set()
        dq = deque(s for s in starts if s not in removed_blocks)
        while dq:
            b = dq.popleft()
            if b in seen:
                continue
            seen.add(b)
            for d in self.succ(b, unwind):
                if (b, d) in removed_edges or d in removed_blocks:
                    continue
                if d not in seen:
                    dq.append(d)
        return seen

    def flag_locals(self):
        """bool locals whose every definition is a constant (drop flags)"""
        if 'flags' not in self._cache:
            const, other = set(), set()
            for i, b in enumerate(self.blocks):
                for s in b['stmts']:
                    if s['k'] == 'assign' and not s['place']['p']:
                        l = s['place']['l']
                        if s['rv']['k'] == 'use' and s['rv']['op']['k'] == 'const' and self.locals[l]['ty'] == 'bool':
                            const.add(l)
                        else:
                            other.add(l)
                t = b['term']
                if t['k'] == 'call' and not t['dest']['p']:
                    other.add(t['dest']['l'])
            self._cache['flags'] = const - other
        return self._cache['flags']

    def reachable_with_flags(self, start, flags_at_start, removed_blocks=(), unwind=True):
        """reachability that follows drop flags: states are (block, values of the flag locals); a switch on a flag
        whose value is known takes only the matching edge.  Returns {(bb, frozenset(flag values))}."""
        fl = sorted(self.flag_locals())
        removed = set(removed_blocks)
        st0 = tuple(flags_at_start.get(f) for f in fl)
        seen = set()
        work = [(start, st0)]
        while work:
            bb, st = work.pop()
            if bb in removed or (bb, st) in seen or len(seen) > 20000:
                continue
            seen.add((bb, st))
            cur = list(st)
            for s in self.blocks[bb]['stmts']:
                if s['k'] == 'assign' and not s['place']['p'] and s['place']['l'] in fl and s['rv']['k'] == 'use' and s['rv']['op']['k'] == 'const':
                    cur[fl.index(s['place']['l'])] = s['rv']['op'].get('bits') != '0'
            t = self.blocks[bb]['term']
            nxt = [d for d, _ in self.edges(bb, unwind)]
            if t['k'] == 'switch':
                l = op_bare_local(t['discr'])
                if l in fl and cur[fl.index(l)] is not None:
                    v = '1' if cur[fl.index(l)] else '0'
                    tg = t['otherwise']
                    for val, x in t['targets']:
                        if str(val) == v:
                            tg = x
                    nxt = [tg]
            for d in nxt:
                work.append((d, tuple(cur)))
        return {(bb, tuple(zip(fl, st))) for bb, st in seen}

    def live_blocks(self, unwind=True):
        key = ('live', unwind)
        if key not in self._cache:
            self._cache[key] = self.reachable([0], unwind=unwind)
        return self._cache[key]

    def dominators(self, unwind=False):
        """dom[b] = set of blocks dominating b (on the graph from bb0)"""
        key = ('dom', unwind)
        if key in self._cache:
            return self._cache[key]
        live = self.reachable([0], unwind=unwind)
        preds = defaultdict(set)
        for b in live:
            for d in self.succ(b, unwind):
                preds[d].add(b)
        allb = set(live)
        dom = {b: set(allb) for b in live}
        dom[0] = {0}
        changed = True
        order = sorted(live)
        while changed:
            changed = False
            for b in order:
                if b == 0:
                    continue
                ps = [dom[p] for p in preds[b] if p in dom]
                new = set.intersection(*ps) if ps else set()
                new = new | {b}
                if new != dom[b]:
                    dom[b] = new
                    changed = True
        self._cache[key] = dom
        return dom

    def dominates(self, a, b, unwind=False):
        dom = self.dominators(unwind)
        return b in dom and a in dom[b]

    def back_edges(self, unwind=False):
        dom = self.dominators(unwind)
        out = []
        for b in dom:
            for d in self.succ(b, unwind):
                if d in dom[b]:
                    out.append((b, d))
        return out

    def return_blocks(self):
        return [i for i, b in enumerate(self.blocks) if b['term']['k'] == 'return']

    def resume_blocks(self):
        return [i for i, b in enumerate(self.blocks) if b['term']['k'] == 'resume']

    # ---- sites ---------------------------------------------------------
    def terms(self):
        for i, b in enumerate(self.blocks):
            yield i, b['term']

    def calls(self, include_dead=False):
        key = 'calls'
        if key not in self._cache:
            out = []
            for i, b in enumerate(self.blocks):
                t = b['term']
                if t['k'] in ('call', 'tailcall'):
                    fn = t['func'].get('fn') if t['func']['k'] == 'const' else None
                    out.append(Site(self, i, len(b['stmts']), t, Callee(fn) if fn else None))
            self._cache[key] = out
        if include_dead:
            return self._cache[key]
        live = self.live_blocks()
        return [c for c in self._cache[key] if c.bb in live]

    def drops(self):
        live = self.live_blocks()
        out = []
        for i, b in enumerate(self.blocks):
            t = b['term']
            if t['k'] == 'drop' and i in live:
                out.append(Site(self, i, len(b['stmts']), t))
        return out

    def calls_to(self, pattern, include_exp=True):
        rx = re.compile(pattern)
        return [c for c in self.calls()
                if c.callee and (rx.search(c.callee.best) or rx.search(c.callee.defp))
                and (include_exp or not c.exp)]

    def indirect_calls(self):
        return [c for c in self.calls() if c.term.get('indirect')]

    def assigns(self):
        """(bb, idx, stmt) for every Assign statement in live blocks"""
        live = self.live_blocks()
        for i, b in enumerate(self.blocks):
            if i not in live:
                continue
            for j, s in enumerate(b['stmts']):
                if s['k'] == 'assign':
                    yield i, j, s

    def defs_of(self, local):
        """definitions of `local` (bare): list of ('stmt', bb, idx, stmt) |
        ('call', bb, site)"""
        key = 'defs'
        if key not in self._cache:
            d = defaultdict(list)
            for i, j, s in self.assigns():
                if not s['place']['p']:
                    d[s['place']['l']].append(('stmt', i, j, s))
                elif s['place']['p'][0] == 'deref':
                    # a store through a pointer held in the local: not a definition of the local itself
                    d[s['place']['l']].append(('store', i, j, s))
                else:
                    d[s['place']['l']].append(('partial', i, j, s))
            for c in self.calls():
                if c.dest is not None:
                    if not c.dest['p']:
                        d[c.dest['l']].append(('call', c.bb, c))
                    else:
                        d[c.dest['l']].append(('pcall', c.bb, c))
            self._cache[key] = d
        return self._cache[key].get(local, [])

    # ---- P3 origins ------------------------------------------------------
    def origins(self, op_or_local, passthrough=None, max_depth=60):
        """Backward def-use slice.  Returns a set of roots:
           ('arg', i)           parameter i (1-based local index)
           ('call', bb)         result of the call terminating bb (not passthrough)
           ('const', text)      constant
           ('agg', bb, idx)     aggregate built at a statement (after following its operands too)
           ('upvar', i)         captured variable i of a closure (field of arg 1)
           ('unknown', local)
        `passthrough`: predicate(Site)->index of the argument the result is
        derived from, or None to stop at the call."""
        roots = set()
        seen = set()

        def walk_local(l, depth):
            if (l,) in seen or depth > max_depth:
                return
            seen.add((l,))
            if 1 <= l <= self.arg_count:
                roots.add(('arg', l))
                # a parameter may also be re-assigned; keep going
            defs = [d for d in self.defs_of(l) if d[0] != 'store']
            if not defs and not (1 <= l <= self.arg_count):
                roots.add(('unknown', l))
            for d in defs:
                if d[0] == 'store':
                    continue
                if d[0] in ('stmt', 'partial'):
                    walk_rv(d[3]['rv'], d[1], d[2], depth + 1)
                else:
                    site = d[2]
                    idx = passthrough(site) if passthrough else None
                    if idx is None:
                        roots.add(('call', site.bb))
                    else:
                        idxs = idx if isinstance(idx, (list, tuple)) else [idx]
                        for ix in idxs:
                            if ix < len(site.args):
                                walk_op(site.args[ix], depth + 1)

        def walk_op(op, depth):
            if op['k'] in ('copy', 'move'):
                pl = op['place']
                if self.kind == 'Closure' and pl['l'] == 1 and place_fields(pl):
                    roots.add(('upvar', [e['f'] for e in pl['p'] if isinstance(e, dict) and 'f' in e][0]))
                    return
                # a component of a tuple built once (`let (a, b) = (x, y);`) is that operand
                if pl['p'] and isinstance(pl['p'][0], dict) and 'f' in pl['p'][0] and not (1 <= pl['l'] <= self.arg_count):
                    ds = self.defs_of(pl['l'])
                    if len(ds) == 1 and ds[0][0] == 'stmt' and ds[0][3]['rv'].get('k') == 'aggregate' and ds[0][3]['rv'].get('tuple') \
                            and pl['p'][0]['f'] < len(ds[0][3]['rv']['ops']) and (pl['l'], 'f') not in seen:
                        walk_op(ds[0][3]['rv']['ops'][pl['p'][0]['f']], depth + 1)
                        return
                walk_local(pl['l'], depth)
            elif op['k'] == 'const':
                roots.add(('const', op['text']))
            else:
                roots.add(('unknown', -1))

        def walk_rv(rv, bb, idx, depth):
            k = rv['k']
            if k in ('use', 'cast', 'repeat'):
                walk_op(rv['op'], depth)
            elif k in ('ref', 'rawptr', 'discr'):
                pl = rv['place']
                if self.kind == 'Closure' and pl['l'] == 1 and place_fields(pl):
                    roots.add(('upvar', [e['f'] for e in pl['p'] if isinstance(e, dict) and 'f' in e][0]))
                    return
                walk_local(pl['l'], depth)
            elif k == 'aggregate':
                roots.add(('agg', bb, idx))
                for o in rv['ops']:
                    walk_op(o, depth)
            elif k == 'binop':
                walk_op(rv['a'], depth)
                walk_op(rv['b'], depth)
            elif k == 'unop':
                walk_op(rv['a'], depth)
            else:
                roots.add(('unknown', -1))

        if isinstance(op_or_local, int):
            walk_local(op_or_local, 0)
        else:
            walk_op(op_or_local, 0)
        return roots

    def call_roots(self, op_or_local, passthrough=None):
        """the call Sites among the origins"""
        out = []
        for r in self.origins(op_or_local, passthrough):
            if r[0] == 'call':
                out.extend(c for c in self.calls() if c.bb == r[1])
        return out

    def access_path(self, op, max_hops=30, at=None):
        """Resolve an operand through single-definition temporaries to a
        token list, e.g. ['arg1','*','0','&'] for `&(*self).0`,
        ['call@bb3'] for a call result, ['const:1_usize'].  Returns None when
        a local on the way has several definitions (not a tree) -- unless `at`
        (the block of the use) is given and exactly one of them reaches it."""
        if op['k'] == 'const':
            return ['const:' + op['text']]
        if op['k'] not in ('copy', 'move'):
            return None
        local = op['place']['l']
        toks = _proj_tokens(op['place'])
        for _ in range(max_hops):
            if 1 <= local <= self.arg_count and not [d for d in self.defs_of(local) if d[0] in ('stmt', 'call')]:
                return _norm(['arg%d' % local] + toks)
            defs = [d for d in self.defs_of(local) if d[0] in ('stmt', 'call')]
            if len(defs) > 1 and at is not None:
                dblocks = {d[1] for d in defs}
                reaching = []
                for d in defs:
                    others = [x for x in dblocks if x != d[1]]
                    if d[1] == at or at in self.reachable(self.succ(d[1]), removed_blocks=others):
                        reaching.append(d)
                if len(reaching) == 1:
                    defs = reaching
                    at = defs[0][1]
            if len(defs) != 1:
                return None
            d = defs[0]
            if d[0] == 'call':
                return _norm(['call@bb%d' % d[1]] + toks)
            rv = d[3]['rv']
            if rv['k'] in ('use', 'cast'):
                o = rv['op']
                if o['k'] == 'const':
                    return _norm(['const:' + o['text']] + toks)
                if o['k'] not in ('copy', 'move'):
                    return None
                toks = _proj_tokens(o['place']) + toks
                local = o['place']['l']
            elif rv['k'] in ('ref', 'rawptr'):
                toks = _proj_tokens(rv['place']) + ['&'] + toks
                local = rv['place']['l']
            elif rv['k'] == 'aggregate':
                return _norm(['agg@bb%d.%d' % (d[1], d[2])] + toks)
            elif rv['k'] == 'discr':
                toks = _proj_tokens(rv['place']) + ['discr'] + toks
                local = rv['place']['l']
            else:
                return _norm(['%s@bb%d.%d' % (rv['k'], d[1], d[2])] + toks)
        return None

    def downcast_source(self, op, max_hops=20):
        """Follow an operand through single-definition moves/copies until a
        place with a Downcast projection: returns (local, variant, fields_after)
        e.g. `move ((_21 as Ok).0)` -> (21, 'Ok', ['0']); None if not found."""
        if op['k'] not in ('copy', 'move'):
            return None
        place = op['place']
        for _ in range(max_hops):
            for i, e in enumerate(place['p']):
                if isinstance(e, dict) and 'downcast' in e:
                    after = [str(x.get('n') if x.get('n') is not None else x.get('f')) for x in place['p'][i + 1:] if isinstance(x, dict) and 'f' in x]
                    return place['l'], (e.get('n') or str(e['downcast'])), after
            defs = [d for d in self.defs_of(place['l']) if d[0] in ('stmt', 'call')]
            if len(defs) != 1 or defs[0][0] != 'stmt':
                return None
            rv = defs[0][3]['rv']
            if rv['k'] in ('use', 'cast') and rv['op']['k'] in ('copy', 'move'):
                place = rv['op']['place']
            elif rv['k'] == 'ref':
                place = rv['place']
            else:
                return None
        return None

    def discr_switches(self, local, cleanup=False):
        """blocks whose switch tests discriminant(_local) (possibly behind derefs);
        switches in cleanup blocks (open drops of drop elaboration) excluded"""
        out = []
        for bb, t in self.terms():
            if t['k'] != 'switch' or bb not in self.live_blocks():
                continue
            if self.blocks[bb]['cleanup'] and not cleanup:
                continue
            l = op_bare_local(t['discr'])
            if l is None:
                continue
            for d in self.defs_of(l):
                if d[0] == 'stmt' and d[3]['rv']['k'] == 'discr' and d[3]['rv']['place']['l'] == local \
                        and all(e == 'deref' for e in d[3]['rv']['place']['p']):
                    out.append(bb)
                elif d[0] == 'stmt' and d[3]['rv']['k'] == 'discr' and d[3]['rv']['place']['l'] != local and self._wrapped_in(d[3]['rv']['place'], local):
                    out.append(bb)      # the value was wrapped (`Some(x)`) and is matched through the wrapper: `Some(Ok(..))`
        return out

    def _wrapped_in(self, place, local):
        """`place` is (W as Variant).k where W is a local built once as Variant(.., move/copy _local, ..) with _local at index k"""
        p = place['p']
        if len(p) != 2 or not isinstance(p[0], dict) or 'downcast' not in p[0] or not isinstance(p[1], dict) or 'f' not in p[1]:
            return False
        ds = [d for d in self.defs_of(place['l']) if d[0] == 'stmt']
        if len(ds) != 1 or ds[0][3]['rv']['k'] != 'aggregate' or ds[0][3]['rv'].get('variant') != p[0]['downcast']:
            return False
        ops = ds[0][3]['rv'].get('ops') or []
        k = p[1]['f']
        if k >= len(ops):
            return False
        l = op_bare_local(ops[k])
        for _ in range(6):      # (through whole-value moves: the return slot of a closure written in place ..)
            if l is None or l == local:
                break
            dd = [d for d in self.defs_of(l) if d[0] in ('stmt', 'call')]
            if len(dd) != 1 or dd[0][0] != 'stmt' or dd[0][3]['rv']['k'] != 'use':
                break
            l = op_bare_local(dd[0][3]['rv']['op'])
        return l == local

    def primary_switch(self, local):
        """the switch on discriminant(_local) that dominates every other one
        (drop elaboration adds later re-tests of the same discriminant)"""
        sws = self.discr_switches(local)
        if len(sws) <= 1:
            return sws[0] if sws else None
        for s in sws:
            if all(self.dominates(s, o) for o in sws):
                return s
        return None

    def variant_edge(self, sw_bb, idx):
        """target of the edge a switch on an enum discriminant takes for variant idx"""
        es = self.edges(sw_bb)
        for d, lab in es:
            if lab == 'sw:%d' % idx:
                return d
        # `otherwise` stands for idx when every other listed value differs
        for d, lab in es:
            if lab == 'otherwise':
                return d
        return None

    # ---- uses (forward) --------------------------------------------------
    def uses_of(self, local):
        """sites / statements that read `local` (any projection):
        list of ('stmt', bb, idx, stmt) | ('call', bb, site, argidx) |
        ('drop', bb, site) | ('switch', bb) | ('ret',)"""
        out = []
        for i, j, s in self.assigns():
            rv = s['rv']
            ops = []
            if rv['k'] in ('use', 'cast', 'repeat'):
                ops = [rv['op']]
            elif rv['k'] in ('ref', 'rawptr', 'discr'):
                if rv['place']['l'] == local:
                    out.append(('stmt', i, j, s))
                continue
            elif rv['k'] == 'aggregate':
                ops = rv['ops']
            elif rv['k'] == 'binop':
                ops = [rv['a'], rv['b']]
            elif rv['k'] == 'unop':
                ops = [rv['a']]
            if any(op_local(o) == local for o in ops):
                out.append(('stmt', i, j, s))
        for c in self.calls():
            for ai, a in enumerate(c.args):
                if op_local(a) == local:
                    out.append(('call', c.bb, c, ai))
        for d in self.drops():
            if d.term['place']['l'] == local:
                out.append(('drop', d.bb, d))
        live = self.live_blocks()
        for i, t in self.terms():
            if i in live and t['k'] == 'switch' and op_local(t['discr']) == local:
                out.append(('switch', i))
        return out

    def flows_to(self, local, passthrough=None, max_depth=40):
        """forward closure of locals that (may) carry the value of `local`:
        through use/cast/ref/aggregate statements and passthrough calls."""
        seen = {local}
        dq = deque([local])
        while dq:
            l = dq.popleft()
            for u in self.uses_of(l):
                if u[0] == 'stmt':
                    d = u[3]['place']['l']
                    if d not in seen:
                        seen.add(d)
                        dq.append(d)
                elif u[0] == 'call' and passthrough:
                    idx = passthrough(u[2])
                    idxs = idx if isinstance(idx, (list, tuple)) else ([idx] if idx is not None else [])
                    if u[3] in idxs and u[2].dest is not None:
                        d = u[2].dest['l']
                        if d not in seen:
                            seen.add(d)
                            dq.append(d)
        return seen

    # ---- P5 guard regions -------------------------------------------------
    def region_of(self, def_site, unwind=True, ends=None):
        """Program points at which the value produced by call `def_site` is
        still held: set of (bb, idx), idx in 0..len(stmts) (terminator =
        len(stmts)).  The value is followed through whole-value moves
        (`_x = move _g`).  The region ends at a Drop terminator of the holder
        or at `mem::drop(move holder)` (both inside), or at any other move out
        of the holder (outside: the value now lives elsewhere).  If `ends` is a
        list, ('drop'|'move'|'dead'|'exit', bb) events are appended to it."""
        inside = set()
        if def_site.target is None:
            return inside
        dq = deque([(def_site.target, 0, def_site.dest['l'])])
        seen = set()

        def ev(kind, bb):
            if ends is not None:
                ends.append((kind, bb))
        while dq:
            bb, start, g = dq.popleft()
            if (bb, start, g) in seen:
                continue
            seen.add((bb, start, g))
            blk = self.blocks[bb]
            ended = False
            for j in range(start, len(blk['stmts'])):
                s = blk['stmts'][j]
                if s['k'] == 'assign' and _moves_local(s['rv'], g):
                    if s['rv']['k'] == 'use' and not s['place']['p']:
                        inside.add((bb, j))
                        g = s['place']['l']          # the value moved to another local: keep following it
                        continue
                    ev('move', bb)
                    ended = True
                    break
                if s['k'] == 'dead' and s['l'] == g:
                    ev('dead', bb)
                    ended = True
                    break
                inside.add((bb, j))
            if ended:
                continue
            t = blk['term']
            n = len(blk['stmts'])
            if t['k'] == 'drop' and t['place']['l'] == g and not t['place']['p']:
                inside.add((bb, n))
                ev('drop', bb)
                continue
            if t['k'] in ('call', 'tailcall') and any(
                    a['k'] == 'move' and a['place']['l'] == g and not a['place']['p'] for a in t['args']):
                fn = t['func'].get('fn') if t['func']['k'] == 'const' else None
                if fn and fn['def'] == 'std::mem::drop':
                    inside.add((bb, n))
                    ev('drop', bb)
                else:
                    ev('move', bb)
                continue
            inside.add((bb, n))
            if t['k'] in ('return', 'resume'):
                ev('exit', bb)
            if t['k'] == 'call' and t['dest']['l'] == g and not t['dest']['p']:
                # overwritten by a new value: normal edge leaves the region of the old one
                if unwind and isinstance(t.get('unwind'), int):
                    dq.append((t['unwind'], 0, g))
                continue
            succs = self.succ(bb, unwind)
            if t['k'] == 'switch' and 'folded' not in t:
                # drop-flag switch (drop elaboration): `switch flag { 0 => skip, _ => drop(g) }`.
                # While g is held its flag is set, so only the drop edge is feasible.
                fl = op_bare_local(t['discr'])
                if fl is not None and self._is_drop_flag(fl):
                    dr = [d for d in succs if self.blocks[d]['term']['k'] == 'drop'
                          and self.blocks[d]['term']['place']['l'] == g and not self.blocks[d]['term']['place']['p']
                          and not [s for s in self.blocks[d]['stmts'] if s['k'] == 'assign']]
                    if dr:
                        succs = dr
            for d in succs:
                dq.append((d, 0, g))
        return inside

    def _is_drop_flag(self, l):
        if self.locals[l]['ty'] != 'bool':
            return False
        defs = self.defs_of(l)
        if not defs:
            return False
        for d in defs:
            if d[0] != 'stmt':
                return False
            rv = d[3]['rv']
            if not (rv['k'] == 'use' and rv['op']['k'] == 'const'):
                return False
        return True

    # ---- pretty printing ---------------------------------------------------
    def dump(self):
        lines = ['fn %s  [%s %s]  args=%d' % (self.path, self.kind, self.loc(), self.arg_count)]
        for i, l in enumerate(self.locals):
            nm = self.local_name(i)
            lines.append('  let _%d: %s%s' % (i, l['ty'], ('  // ' + nm) if nm else ''))
        for i, b in enumerate(self.blocks):
            lines.append('bb%d%s:' % (i, ' (cleanup)' if b['cleanup'] else ''))
            for s in b['stmts']:
                if s['k'] == 'assign':
                    lines.append('    %s = %s' % (proj_str(s['place']), rv_str(s['rv'])))
                elif s['k'] == 'setdiscr':
                    lines.append('    discr(%s) = %d' % (proj_str(s['place']), s['variant']))
                elif s['k'] == 'intrinsic':
                    lines.append('    intrinsic %s' % s['text'])
            t = b['term']
            k = t['k']
            if k in ('call', 'tailcall'):
                fn = t['func'].get('fn') if t['func']['k'] == 'const' else None
                nm = Callee(fn).best if fn else ('(*%s)' % op_str(t['func']))
                lines.append('    %s = %s(%s) -> bb%s unwind %s  [line %s%s]' % (
                    proj_str(t['dest']) if 'dest' in t else '_', nm,
                    ', '.join(op_str(a) for a in t['args']), t.get('target'), t.get('unwind'),
                    t['line'], ' exp' if t['exp'] else ''))
            elif k == 'switch':
                lines.append('    switch %s %s else bb%d%s' % (
                    op_str(t['discr']), ' '.join('%s->bb%d' % (v, d) for v, d in t['targets']),
                    t['otherwise'], (' FOLDED->bb%d' % t['folded']) if 'folded' in t else ''))
            elif k == 'drop':
                lines.append('    drop(%s) -> bb%d unwind %s' % (proj_str(t['place']), t['target'], t['unwind']))
            elif k == 'goto':
                lines.append('    goto bb%d' % t['target'])
            elif k == 'assert':
                lines.append('    assert(%s == %s) -> bb%d unwind %s  %s' % (
                    op_str(t['cond']), t['expected'], t['target'], t['unwind'], t['msg']))
            else:
                lines.append('    ' + k)
        return '\n'.join(lines)


def _proj_tokens(place):
    out = []
    for e in place['p']:
        if isinstance(e, str):
            out.append('*' if e == 'deref' else e)
        elif 'f' in e:
            out.append(str(e['n'] if e['n'] is not None else e['f']))
        elif 'downcast' in e:
            out.append('as:' + str(e.get('n') or e['downcast']))
        elif 'index' in e:
            out.append('[]')
        else:
            out.append('[..]')
    return out


def _norm(toks):
    out = []
    for t in toks:
        if t == '*' and out and out[-1] == '&':
            out.pop()
        elif t == '&' and out and out[-1] == '*':
            out.pop()      # reborrow &*x
        else:
            out.append(t)
    return out


def _moves_local(rv, g):
    ops = []
    if rv['k'] in ('use', 'cast', 'repeat'):
        ops = [rv['op']]
    elif rv['k'] == 'aggregate':
        ops = rv['ops']
    return any(o['k'] == 'move' and o['place']['l'] == g and not o['place']['p'] for o in ops)


def rv_str(rv):
    k = rv['k']
    if k == 'use':
        return op_str(rv['op'])
    if k == 'ref':
        return ('&mut ' if rv['mut'] else '&') + proj_str(rv['place'])
    if k == 'rawptr':
        return ('&raw mut ' if rv['mut'] else '&raw const ') + proj_str(rv['place'])
    if k == 'cast':
        return '%s as %s (%s)' % (op_str(rv['op']), rv['ty'], rv['kind'])
    if k == 'aggregate':
        if 'adt' in rv:
            return '%s::%s{%s}' % (rv['adt'], rv['variant_name'], ', '.join(
                '%s: %s' % (n, op_str(o)) for n, o in zip(rv['fields'], rv['ops'])))
        if 'closure' in rv:
            return 'closure %s [%s]' % (rv['closure'], ', '.join(op_str(o) for o in rv['ops']))
        return '(%s)' % ', '.join(op_str(o) for o in rv['ops'])
    if k == 'binop':
        return '%s(%s, %s)' % (rv['op'], op_str(rv['a']), op_str(rv['b']))
    if k == 'unop':
        return '%s(%s)' % (rv['op'], op_str(rv['a']))
    if k == 'discr':
        return 'discriminant(%s)' % proj_str(rv['place'])
    return rv.get('text', k)


# --------------------------------------------------------------------------


STRUCTURAL_TRAITS = ('std::fmt::Debug', 'std::fmt::Display', 'std::hash::Hash', 'std::cmp::PartialEq', 'std::cmp::Eq',
                     'std::cmp::PartialOrd', 'std::cmp::Ord', 'std::clone::Clone', 'std::default::Default')


_REF = [False]
_KEY = [None]


def _norm_key():
    if _KEY[0] is None:
        import hashlib
        h = hashlib.sha256()
        here = os.path.dirname(os.path.abspath(__file__))
        for f in ('inline.py', 'normalize.py', 'mir.py', os.path.join('..', 'reference_fns.json')):
            with open(os.path.join(here, f), 'rb') as fh:
                h.update(fh.read())
        _KEY[0] = h.hexdigest()[:12]
    return _KEY[0]


def reference_fns():
    """{'*': set of fn def-paths of the reference tree, cfg: set, 'sig': {path: [inputs, output]}} or None"""
    if _REF[0] is False:
        p = os.path.join(os.path.dirname(os.path.dirname(os.path.abspath(__file__))), 'reference_fns.json')
        if os.path.exists(p):
            d = json.load(open(p))
            # reference helpers the rules look through: always written where they are called, so that a tree in which the
            # helper was folded into its caller has the same normal form
            transparent = {'anycache::CacheExt::add_any'}
            _REF[0] = {'sig': d['sig'], '*': set(d['all']) - transparent, 'consts': set(d.get('consts', [])), 'callers': d.get('callers', {}), 'transparent': transparent, 'sig_cfg': d.get('sig_cfg', {}), 'fields_cfg': d.get('fields_cfg', {})}
            for c, v in d.get('per_cfg', {}).items():
                _REF[0][c] = set(v) - transparent
        else:
            _REF[0] = None
    return _REF[0]


class Facts:
    def __init__(self, path, cfg):
        with open(path) as f:
            text = f.read()
        raw = json.loads(text)
        self.cfg = cfg
        self.crate = raw['crate']
        self.renamed = {}
        self.inlined = []
        self.inline_args = {}
        self.dropped_raw = {}
        self._dropped = {}
        self._fnb = None
        self._views = {}
        ref = reference_fns()
        if ref is not None and not os.environ.get('AM_NO_INLINE'):
            # the normal form is cached next to the facts (keyed by the code that produces it)
            cpath = '%s.norm-%s.json' % (path[:-5] if path.endswith('.json') else path, _norm_key())
            cached = None
            if os.path.exists(cpath):
                try:
                    with open(cpath) as f:
                        cached = json.load(f)
                except Exception:
                    cached = None
            if cached is not None:
                raw, self.renamed, self.inlined = cached['raw'], cached['renamed'], [tuple(x) for x in cached['inlined']]
                self.inline_args, self.dropped_raw = cached.get('inline_args', {}), cached.get('dropped_raw', {})
            else:
                self._rename_fields(raw, ref)
                raw = self._normalise(raw, text, ref)
                try:
                    tmp = cpath + '.%d.tmp' % os.getpid()
                    with open(tmp, 'w') as f:
                        json.dump({'raw': raw, 'renamed': self.renamed, 'inlined': self.inlined, 'inline_args': self.inline_args, 'dropped_raw': self.dropped_raw}, f)
                    os.replace(tmp, cpath)
                    import glob
                    for old in glob.glob('%s.norm-*.json' % (path[:-5] if path.endswith('.json') else path)):
                        if old != cpath:
                            os.remove(old)
                except OSError:
                    pass
        self.bodies = {}
        self.by_owner = defaultdict(list)
        for b in raw['bodies']:
            body = Body(b, self)
            self.bodies[body.path] = body
            self.by_owner[body.owner].append(body)
        self.adts = {a['path']: a for a in raw['adts']}
        self.ext_adts = {a['path']: a for a in raw.get('ext_adts', [])}
        self.impls = raw['impls']
        self.statics = {s['path']: s for s in raw['statics']}
        self.fns = {f['path']: f for f in raw['fns']}
        self.consts = {c['path']: c for c in raw['consts']}
        self.traits = {t['path']: t for t in raw['traits']}
        # closures grouped by their root fn
        self.closures_of = defaultdict(list)
        for b in self.bodies.values():
            if b.kind == 'Closure' and b.promoted is None:
                self.closures_of[b.root].append(b)
        # CHA: trait item path -> impl item paths
        self.impl_items_of = defaultdict(list)
        self.impl_items_by_adt = defaultdict(list)
        for im in self.impls:
            for it in im['items']:
                if it['trait_item']:
                    self.impl_items_of[it['trait_item']].append(it['path'])
                    self.impl_items_by_adt[it['trait_item']].append((im.get('self_adt'), it['path']))
        self._callers = None

    def ext_enum_variants(self, path):
        """variant names (by index) of an enum of another crate that some body of this crate matches on"""
        a = self.ext_adts.get(path)
        if not a:
            return None
        return [v['name'] for v in sorted(a['variants'], key=lambda v: v['idx'])]

    def _rename_fields(self, raw, ref):
        """a field of a struct or union that has the position and the type it had on the reference tree under another
        name was renamed: the reference name is written back (projections, aggregates, the type table), so that the
        rules -- which name fields -- see the same program.  Only when every field of the type keeps position and type."""
        want = ref.get('fields_cfg', {}).get(self.cfg, {})
        ren = {}
        for a in raw['adts']:
            w = want.get(a['path'])
            if w is None or a['kind'] not in ('struct', 'union') or len(a['variants']) != 1:
                continue
            fs = a['variants'][0]['fields']
            if len(fs) != len(w) or [f['ty'] for f in fs] != [t for _, t in w]:
                continue
            m = {f['name']: n for f, (n, _) in zip(fs, w) if f['name'] != n}
            if m:
                ren[a['path']] = m
                for f in fs:
                    f['name'] = m.get(f['name'], f['name'])
        if not ren:
            return
        self.renamed_fields = {k: dict(v) for k, v in ren.items()}

        def walk(x):
            if isinstance(x, dict):
                if 'n' in x and x.get('of') in ren:
                    x['n'] = ren[x['of']].get(x['n'], x['n'])
                if x.get('k') == 'aggregate' and x.get('adt') in ren and isinstance(x.get('fields'), list):
                    x['fields'] = [ren[x['adt']].get(n, n) for n in x['fields']]
                for v in x.values():
                    if isinstance(v, (dict, list)):
                        walk(v)
            elif isinstance(x, list):
                for v in x:
                    if isinstance(v, (dict, list)):
                        walk(v)
        walk(raw['bodies'])

    # ---- helper extraction / renames (see inline.py) --------------------------
    def _normalise(self, raw, text, ref):
        """(1) a reference function that disappeared while exactly one new function with the same signature
        appeared is a rename: the new def-path is rewritten to the old one everywhere; (2) every other new
        function is inlined into its direct callers and, if it had any, dropped as a body of its own."""
        import inline
        is_fn = lambda b: b['kind'] in ('Fn', 'AssocFn') and b['promoted'] is None
        have = {b['path'] for b in raw['bodies'] if is_fn(b)}
        sigs = {f['path']: f for f in raw['fns']}
        # the reference set covers every configuration; compare within what this configuration can contain
        new = sorted(have - ref['*'])
        gone = sorted(ref.get(self.cfg, set()) - have)
        if new and gone:
            def sig(p):
                f = sigs.get(p)
                return (tuple(f['inputs']), f['output'], f.get('safety')) if f else None
            pairs = {}
            for g in gone:
                gs = ref.get('sig_cfg', {}).get(self.cfg, {}).get(g) or ref['sig'].get(g)
                cands = [n for n in new if sig(n) is not None and gs is not None and list(sig(n)[0]) == gs[0] and sig(n)[1] == gs[1]]
                if len(cands) == 1:
                    pairs.setdefault(cands[0], []).append(g)
            ren = {n: gs[0] for n, gs in pairs.items() if len(gs) == 1}
            # a private *type* was renamed (or made concrete): its methods come back under another path with another
            # signature text.  Pair what is left (i) by trait and method for impl items of the same module, (ii) by module,
            # arity and the set of callers for inherent methods and free functions -- each only when unique both ways
            left_new = [n for n in new if n not in ren]
            left_gone = [g for g in gone if g not in ren.values()]
            if left_new and left_gone:
                def module_of(pth):
                    t = re.sub(r'^<', '', pth)
                    segs = []
                    parts = t.split('::')
                    for seg in (parts[:-1] if len(parts) > 1 and not pth.startswith('<') else parts):
                        if re.match(r'^[a-z_][a-z0-9_]*$', seg):
                            segs.append(seg)
                        else:
                            break
                    return '::'.join(segs)

                def impl_key(pth):
                    m = re.match(r'^<(.*) as ([^<>]*(?:<.*>)?)>::(\w+)$', pth)
                    return (module_of(m.group(1)), re.sub(r'<.*$', '', m.group(2)), m.group(3)) if m else None
                import inline as _inl0
                cur_callers = {}
                for x in raw['bodies']:
                    if x['promoted'] is not None:
                        continue
                    who = x.get('root') or x['path']
                    for bl in x['blocks']:
                        cp = _inl0.callee_path(bl['term'])
                        if cp:
                            cur_callers.setdefault(cp, set()).add(who)
                cand = {}
                for g in left_gone:
                    gk = impl_key(g)
                    for n in left_new:
                        if gk is not None:
                            okp = impl_key(n) == gk and gk[0] != ''
                        else:
                            gs, ns = ref['sig'].get(g), sigs.get(n)
                            nk = impl_key(n)
                            # (an inherent method may also come back as the method of the same name of a std trait impl:
                            #  `fn into_iter(self)` -> `impl IntoIterator`)
                            okp = (nk is None or (nk[2] == g.rsplit('::', 1)[-1] and nk[0] == module_of(g))) and (nk is not None or module_of(g) == module_of(n)) \
                                and module_of(g) != '' and gs is not None and ns is not None \
                                and len(gs[0]) == len(ns['inputs']) and bool(ref['callers'].get(g)) \
                                and set(ref['callers'].get(g)) == {ren.get(c, c) for c in cur_callers.get(n, set())}
                        if okp:
                            cand.setdefault(g, []).append(n)
                back = {}
                for g, ns_ in cand.items():
                    for n in ns_:
                        back.setdefault(n, []).append(g)
                for g, ns_ in cand.items():
                    if len(ns_) == 1 and len(back[ns_[0]]) == 1:
                        ren[ns_[0]] = g
            if ren:
                for n, g in ren.items():
                    text = re.sub(r'(?<![\w:])' + re.escape(n) + r'(?![\w])', lambda _m, g=g: g, text)
                raw = json.loads(text)
                self.renamed = ren
                have = {b['path'] for b in raw['bodies'] if is_fn(b)}
                new = sorted(have - ref['*'])
        import normalize
        # a *new* named constant (`const NEEDS_DROP: bool = needs_drop::<U>();`) is written where it is read
        newc = {b['path']: b for b in raw['bodies'] if b['kind'].startswith(('Const', 'AssocConst')) and b['promoted'] is None
                and b['path'] not in ref.get('consts', set())}
        if newc:
            raw = dict(raw)
            raw['bodies'] = [inline.inline_consts(b, newc) if b['kind'] in ('Fn', 'AssocFn', 'Closure') and b['promoted'] is None else b for b in raw['bodies']]
        if not new:
            raw = dict(raw)
            raws = {b['path']: b for b in raw['bodies']}
            raw['bodies'] = [self._norm_body(b, normalize, raws) for b in raw['bodies']]
            return raw
        raws = {b['path']: b for b in raw['bodies']}
        import inline as _inl
        # a new function that calls itself cannot be written in place: it stays a body of its own
        recursive = {p for p in new if any(_inl.callee_path(bl['term']) == p for x in raw['bodies'] if x['path'] == p or x.get('root') == p for bl in x['blocks'])}
        new = [p for p in new if p not in recursive]
        newset = set(new)
        log = []
        out = []
        for b in raw['bodies']:
            if b['kind'] in ('Fn', 'AssocFn', 'Closure') and b['promoted'] is None and b['path'] not in newset:
                out.append(inline.inline_into(b, raws, lambda p: p in newset, log=log))
            else:
                out.append(b)
        used = {}
        inline_args = {}
        for caller, callee, cargs in log:
            used.setdefault(callee, caller)
            for k, cp in enumerate(cargs):
                cur = inline_args.get('%s#%d' % (callee, k), [])
                inline_args['%s#%d' % (callee, k)] = None if (cur is None or cp is None) else sorted(set(cur + [cp]))
        self.inline_args = inline_args
        self.dropped_raw = {b['path']: b for b in out if b['path'] in used and b['path'] in newset}
        # a new function that was inlined somewhere lives on in its callers; one that is only used as a value stays
        keep = []
        for b in out:
            if b['path'] in used and b['path'] in newset:
                continue
            if b['kind'] == 'Closure' and b['root'] in used and b['root'] in newset:
                b = dict(b)
                host = raws.get(used[b['root']])
                if b.get('parent') == b['root']:
                    b['orig_parent'] = b['parent']
                    b['parent'] = used[b['root']]       # lexically it now lives where the helper was written in place
                b['root'] = host['root'] if host and host['kind'] == 'Closure' else used[b['root']]
            keep.append(b)
        raw = dict(raw)
        kraws = {b['path']: b for b in keep}
        # (a model may introduce a direct call of a new helper -- `opt.map_or(false, Inner::poll)` -- so helpers are
        # written in place once more after the models, using the helper bodies that were set aside)
        allraws = dict(kraws)
        allraws.update(self.dropped_raw)
        raw['bodies'] = [self._norm_body(b, normalize, kraws, allraws, newset) for b in keep]
        self.inlined = sorted(used.items())
        return raw

    @staticmethod
    def _norm_body(b, normalize, raws, allraws=None, newset=None):
        if b['kind'] in ('Fn', 'AssocFn', 'Closure') and b['promoted'] is None and not os.environ.get('AM_NO_NORMALIZE'):
            b = copy.deepcopy(b)
            normalize.normalize(b, raws)
            if newset:
                import inline
                n0 = len(b.get('inlined') or [])
                b2 = inline.inline_into(b, allraws, lambda p: p in newset)
                if len(b2.get('inlined') or []) > n0:
                    normalize.normalize(b2, raws)
                    b = b2
        return b

    def dropped(self, path):
        """the body of a new helper that was inlined into its callers (kept only to resolve the closures defined in it)"""
        if path not in self._dropped:
            r = self.dropped_raw.get(path)
            self._dropped[path] = Body(r, self) if r else None
        return self._dropped[path]

    def passed_closures(self, fn_path, arg_index):
        """closure literals passed for parameter `arg_index` (0-based) at the (inlined) call sites of a new helper;
        None when some caller passes something else"""
        return self.inline_args.get('%s#%d' % (fn_path, arg_index))

    def written_in_place(self, body):
        """a closure whose body was written in place at its only use (combinator model / local call): its code is
        analysed as part of the function that uses it, with the real arguments"""
        if body.kind != 'Closure':
            return False
        host = self.bodies.get(body.parent) or self.bodies.get(body.root)
        return bool(host) and body.path in (host.raw.get('inlined') or [])

    def view(self, path, inline_also=(), through_traits=False):
        """the body `path` with the named (reference) functions inlined into it as well: lets a rule state an
        obligation on an entry point independently of whether a small wrapper exists between it and the callee"""
        b = self.bodies.get(path)
        if b is None:
            return None
        names = {n for n in inline_also if n in self.bodies}
        if not names:
            return b
        key = (path, tuple(sorted(names)), through_traits)
        if key not in self._views:
            import inline
            raws = {p: x.raw for p, x in self.bodies.items()}
            self._views[key] = Body(inline.inline_into(b.raw, raws, lambda p: p in names, through_traits=through_traits), self)
        return self._views[key]

    # ---- lookup ------------------------------------------------------------
    def body(self, path):
        return self.bodies.get(path)

    def find(self, pattern, kinds=('Fn', 'AssocFn', 'Closure'), promoted=False):
        rx = re.compile(pattern)
        return [b for b in self.bodies.values()
                if rx.search(b.path) and b.kind in kinds and (promoted or b.promoted is None)]

    def one(self, pattern, **kw):
        r = self.find(pattern, **kw)
        return r[0] if len(r) == 1 else None

    def unit(self, body):
        """a function together with the closures defined in it"""
        root = body.root if body.kind == 'Closure' else body.path
        out = [b for b in [self.bodies.get(root)] if b]
        out.extend(self.closures_of.get(root, []))
        return out

    def fn_bodies(self):
        """every function / closure body to scan for sites; a closure that was written in place where it is used is
        scanned there (with its real arguments and guards), not a second time on its own"""
        if self._fnb is None:
            self._fnb = [b for b in self.bodies.values()
                         if b.kind in ('Fn', 'AssocFn', 'Closure') and b.promoted is None and not self.written_in_place(b)]
        return self._fnb

    def all_calls(self):
        for b in self.fn_bodies():
            for c in b.calls():
                yield c

    def calls_to(self, pattern, include_exp=True):
        rx = re.compile(pattern)
        out = []
        for c in self.all_calls():
            if c.callee and (rx.search(c.callee.best) or rx.search(c.callee.defp)):
                if include_exp or not c.exp:
                    out.append(c)
        return out

    # ---- P1 call graph ----------------------------------------------------------
    def callee_targets(self, site, cha=True):
        """def paths of local bodies a call may enter.
        resolved to a local item      -> that item (+ impl overrides when it is a trait default on a generic self)
        resolved to an external item  -> local impls of the same trait method whose self type is mentioned in the
                                         call's self/generic arguments (external generic code calling back)
        unresolved                    -> the declared item if it has a body + every impl (class-hierarchy analysis)"""
        c = site.callee
        if c is None:
            return []
        out = []
        if c.resolved and c.rkind == 'item':
            if c.resolved in self.bodies:
                out.append(c.resolved)
                if cha and c.trait and c.resolved == c.defp:
                    out.extend(p for p in self.impl_items_of.get(c.defp, []) if p in self.bodies)
                return out
            if cha and c.trait:
                mention = ' '.join([c.self_ty or ''] + list(c.args or []))
                for adt, p in self.impl_items_by_adt.get(c.defp, []):
                    if p in self.bodies and (adt is None or adt in mention):
                        out.append(p)
            return out
        if c.resolved and c.rkind not in (None, 'virtual'):
            return out
        if c.defp in self.bodies:
            out.append(c.defp)
        if cha and c.trait:
            if c.trait in STRUCTURAL_TRAITS:
                # a structural std trait called on a type built from type parameters only: the concrete
                # instantiation is accounted for at the caller that fixed the parameters (case 2 above)
                mention = ' '.join([c.self_ty or ''] + list(c.args or []))
                for adt, p in self.impl_items_by_adt.get(c.defp, []):
                    if p in self.bodies and adt is not None and adt in mention:
                        out.append(p)
            else:
                out.extend(p for p in self.impl_items_of.get(c.defp, []) if p in self.bodies)
        return out

    def call_graph(self, cha=True):
        key = ('cg', cha)
        if not hasattr(self, '_cg'):
            self._cg = {}
        if key in self._cg:
            return self._cg[key]
        g = defaultdict(set)
        for b in self.fn_bodies():
            src = b.path
            for c in b.calls():
                for t in self.callee_targets(c, cha):
                    g[src].add(t)
            # closures defined in b are entered from b (they are passed around):
        for root, cls in self.closures_of.items():
            for cl in cls:
                # attribute the closure to its lexical parent
                g[cl.parent if cl.parent in self.bodies else root].add(cl.path)
        self._cg[key] = g
        return g

    def reach(self, starts, cha=True, stop=()):
        g = self.call_graph(cha)
        seen = set()
        dq = deque(starts)
        stop = set(stop)
        while dq:
            f = dq.popleft()
            if f in seen or f in stop:
                continue
            seen.add(f)
            for t in g.get(f, ()):
                if t not in seen:
                    dq.append(t)
        return seen

    def callers_of(self, pattern):
        """bodies containing a direct call whose callee matches"""
        return sorted({c.body.path for c in self.calls_to(pattern)})

    # ---- P7 ------------------------------------------------------------------
    def adt(self, path):
        return self.adts.get(path)

    def impls_of(self, trait_rx=None, self_rx=None):
        out = []
        for im in self.impls:
            if trait_rx is not None:
                if not im['trait'] or not re.search(trait_rx, im['trait']):
                    continue
            if self_rx is not None and not re.search(self_rx, im['self_ty']):
                continue
            out.append(im)
        return out


# --------------------------------------------------------------------------
# P6: finite path enumeration


class Path:
    def __init__(self, body, blocks, decisions):
        self.body = body
        self.blocks = blocks          # list of bb
        self.decisions = decisions    # list of (bb, label) for switch edges taken
        self.end = body.blocks[blocks[-1]]['term']['k']

    def stmts(self):
        for bb in self.blocks:
            for j, s in enumerate(self.body.blocks[bb]['stmts']):
                if s['k'] == 'assign':
                    yield bb, j, s

    def calls(self):
        cs = {c.bb: c for c in self.body.calls()}
        return [cs[bb] for bb in self.blocks if bb in cs]

    def decision_at(self, bb):
        for b, lab in self.decisions:
            if b == bb:
                return lab
        return None

    def feasible(self):
        """False when the path takes a switch edge that contradicts a value the path itself assigned: constants,
        field-less / wrapping aggregates and their discriminants are followed through whole-value copies and
        (downcast) field projections of locals whose address is never taken.  Anything else is unknown, and an
        unknown value never makes a path infeasible."""
        b = self.body
        escaped = getattr(b, '_escaped_locals', None)
        if escaped is None:
            escaped = set()
            for bl in b.blocks:
                for st in bl['stmts']:
                    if st['k'] == 'assign' and st['rv']['k'] in ('ref', 'rawptr') and not any(e == 'deref' for e in st['rv']['place']['p']) \
                            and (st['rv']['k'] == 'rawptr' or st['rv'].get('mut')):
                        escaped.add(st['rv']['place']['l'])
            b._escaped_locals = escaped
        env = {}

        def val(op):
            if op['k'] == 'const':
                return ('c', op.get('bits'), op.get('text')) if op.get('bits') is not None else None
            if op['k'] not in ('copy', 'move'):
                return None
            v = env.get(op['place']['l'])
            for e in op['place']['p']:
                if v is None:
                    return None
                if e == 'deref':
                    return None
                if isinstance(e, dict) and 'f' in e:
                    v = v[3][e['f']] if v[0] == 'v' and e['f'] < len(v[3]) else None
                elif isinstance(e, dict) and ('downcast' in e or 'variant' in e):
                    continue
                else:
                    return None
            return v
        taken = dict(self.decisions)
        for bb in self.blocks:
            bl = b.blocks[bb]
            for st in bl['stmts']:
                if st['k'] != 'assign':
                    continue
                l = st['place']['l']
                if st['place']['p'] or l in escaped:
                    env.pop(l, None)
                    continue
                rv = st['rv']
                v = None
                if rv['k'] == 'use':
                    v = val(rv['op'])
                elif rv['k'] == 'aggregate' and rv.get('adt') is not None and 'variant' in rv:
                    v = ('v', rv['adt'], rv['variant'], [val(o) for o in rv['ops']])
                elif rv['k'] == 'discr':
                    w = val({'k': 'copy', 'place': rv['place']})
                    if w is not None and w[0] == 'v':
                        v = ('c', str(w[2]), None)
                if v is None:
                    env.pop(l, None)
                else:
                    env[l] = v
            t = bl['term']
            if t['k'] == 'call' and t.get('dest') is not None:
                env.pop(t['dest']['l'], None)
            if t['k'] == 'switch' and bb in taken:
                v = val(t['discr'])
                if v is not None and v[0] == 'c' and v[1] is not None:
                    try:
                        n = int(v[1], 0) if isinstance(v[1], str) else int(v[1])
                    except ValueError:
                        continue
                    want = 'sw:%d' % n if any(str(x) == str(n) for x, _ in t['targets']) else 'otherwise'
                    if taken[bb] != want and taken[bb].startswith(('sw:', 'otherwise')):
                        return False
        return True

    def stores_through(self, local):
        """assignments whose destination is behind a deref / field of `local`"""
        return [(bb, j, s) for bb, j, s in self.stmts()
                if s['place']['l'] == local and s['place']['p']]


def enumerate_paths(body, start=0, unwind=False, max_paths=512, stop_at=None):
    """all acyclic paths from `start` to a block without successors
    (return / diverging call / resume).  Loops are cut at the back edge
    (each block at most once per path).  Returns None when there are more
    than max_paths (caller must fail closed)."""
    out = []
    stack = [(start, [start], [])]
    while stack:
        bb, blocks, dec = stack.pop()
        if stop_at is not None and bb in stop_at and bb != start:
            out.append(Path(body, blocks, dec))
            continue
        es = body.edges(bb, unwind)
        nxt = [(d, lab) for d, lab in es if d not in blocks]
        if not es or not nxt:
            if body.blocks[bb]['term']['k'] == 'unreachable':
                continue    # the `otherwise` arm of an exhaustive match: not a path of the program
            out.append(Path(body, blocks, dec))
            if len(out) > max_paths:
                return None
            continue
        is_sw = body.blocks[bb]['term']['k'] == 'switch'
        for d, lab in nxt:
            stack.append((d, blocks + [d], dec + ([(bb, lab)] if is_sw else [])))
    return out


def enum_variant_of(body, op):
    """variant names of unit-like enum aggregates (e.g. atomic Ordering)
    reaching an operand; constants give their text"""
    out = set()
    for r in body.origins(op):
        if r[0] == 'agg':
            s = body.blocks[r[1]]['stmts'][r[2]]
            out.add(s['rv'].get('variant_name') or '?')
        elif r[0] == 'const':
            out.add(r[1].split('::')[-1])
        else:
            out.add('?' + str(r))
    return out


def agg_stmts(body, op_or_local):
    out = []
    for r in body.origins(op_or_local):
        if r[0] == 'agg':
            out.append(body.blocks[r[1]]['stmts'][r[2]])
    return out


def agg_direct(body, op, max_hops=10):
    """the aggregate statement that directly builds the value of an operand
    (through whole-value moves/copies only); None if it is not an aggregate"""
    if op['k'] not in ('copy', 'move') or op['place']['p']:
        return None
    l = op['place']['l']
    for _ in range(max_hops):
        defs = [d for d in body.defs_of(l) if d[0] in ('stmt', 'call')]
        if len(defs) != 1 or defs[0][0] != 'stmt':
            return None
        rv = defs[0][3]['rv']
        if rv['k'] == 'aggregate':
            return defs[0][3]
        if rv['k'] == 'use' and rv['op']['k'] in ('copy', 'move') and not rv['op']['place']['p']:
            l = rv['op']['place']['l']
            continue
        return None
    return None
