"""C12 -- filesystem notifications name the right entries (table clauses only).
DESIGN.md section 4, C12."""
import re

import common
from mir import enum_variant_of
from c15 import run as _c15  # noqa: F401
from mir import enumerate_paths, op_bare_local

LEVEL = 'other'
EXPLANATION = (
    'Finite decision tables extracted from the MIR: (R1) for the notify event handler, every acyclic path from each '
    'arm of the match on event.kind (and on ModifyKind / on path.parent() inside it) to the point where the path list '
    'is consumed is enumerated, and the &Path elements put in the list are classified by origin as PATH (the event '
    'path) or PARENT (Some payload of Path::parent of it); the resulting table EventKind -> {path, parent} must '
    'equal the one the property fixes (modify -> path; create / rename / remove -> path + parent; access / other -> '
    'nothing); (R2) the handler, id_of_path and IdBuilder contain no unwrap / expect / panic / bounds assert; (R3) '
    'every function that walks std::path::Component maps the variants identically (Normal->push, ParentDir->pop, '
    'CurDir->skip, others->reject); (R4) IdBuilder::push rejects a segment containing "." before touching the '
    'buffer; (R5) id_of_path picks Directory on Path::is_dir and otherwise the extension from utils::extension_of. '
    'Not decided (value-level): that id_of_path inverts path_of_entry for every path -- in particular the root '
    'directory, see observation O1 in DESIGN.md section 7.')
TRUSTED = ['rustc MIR construction', 'notify event kinds as documented', 'amfacts driver + rule engine in /verif/sa']

W = 'hot_reloading::watcher::'
HE = '<hot_reloading::watcher::NotifyEventHandler as notify::EventHandler>::handle_event'

EXPECT = {
    # (EventKind, ModifyKind or '*') -> set with parent present
    ('Any', '*'): {'PATH'},
    ('Create', '*'): {'PATH', 'PARENT'},
    ('Remove', '*'): {'PATH', 'PARENT'},
    ('Modify', 'Name'): {'PATH', 'PARENT'},
    ('Modify', 'Any'): {'PATH'}, ('Modify', 'Data'): {'PATH'}, ('Modify', 'Metadata'): {'PATH'}, ('Modify', 'Other'): {'PATH'},
    ('Access', '*'): set(), ('Other', '*'): set(),
}


def run(ctx):
    rep = ctx.report
    R1 = rep.rule('C12.R1', 'event-kind table: EventKind -> {path, parent} named in the emitted events', floor=9)
    R2 = rep.rule('C12.R2', 'the handler cannot be stopped by a path: no unwrap / expect / panic / bounds assert', floor=4)
    R3 = rep.rule('C12.R3', 'path-component table parity of every id builder', floor=1)
    R4 = rep.rule('C12.R4', 'IdBuilder::push rejects segments containing "." before mutating', floor=1)
    R5 = rep.rule('C12.R5', 'entry kind from the file system, extension from the shared helper', floor=1)
    R7 = rep.rule('C12.R7', 'an id builder handed in by reference is reset before it is used', floor=1)
    R8 = rep.rule('C12.R8', 'every reported path is resolved against every watched root: no iteration over paths or roots in handle_event stops early', floor=1)
    R9 = rep.rule('C12.R9', 'the watcher is wired up: every root given to watch() is handed to notify and remembered, the first event is not lost while the handler is installed, and the FileSystem source watches its own root and starts the watcher', floor=4)
    R6 = rep.rule('C12.R6', 'the watched root itself is nameable: id_of_path can return Directory("") for path == root', floor=1)
    for cfg, F in ctx.cfgs():
        hr = 'hot-reloading' in ctx.cfg_features[cfg]
        if hr:
            r1(R1, cfg, F)
            r2(R2, cfg, F)
            r5(R5, cfg, F)
            r6(R6, cfg, F)
            r8(R8, cfg, F)
            r9(R9, cfg, F)
            for r in (R1, R2, R5, R6, R8, R9):
                r.finish_cfg(cfg)
        if hr or 'zip' in ctx.cfg_features[cfg] or 'tar' in ctx.cfg_features[cfg]:
            r7(R7, cfg, F)
            R7.finish_cfg(cfg)
            r3(R3, cfg, F, ctx.cfg_features[cfg])
            r4(R4, cfg, F)
            R3.finish_cfg(cfg)
            R4.finish_cfg(cfg)


def switch_kind(F, b, bb):
    """('adt', path, place) for a switch on a discriminant; ('other',)"""
    t = b.blocks[bb]['term']
    l = op_bare_local(t['discr'])
    if l is None:
        return ('other',)
    for d in b.defs_of(l):
        if d[0] == 'stmt' and d[3]['rv']['k'] == 'discr':
            ty = d[3]['rv']['place']['ty']
            return ('adt', re.sub(r'<.*$', '', ty), d[3]['rv']['place'], ty)
    return ('other',)


def variants_of(F, adt):
    a = F.adts.get(adt) or F.ext_adts.get(adt)
    return {v['idx']: v['name'] for v in a['variants']} if a else None


def label_variants(b, bb, lab, names):
    t = b.blocks[bb]['term']
    if lab.startswith('sw:'):
        return [names.get(int(lab[3:]), '?')]
    listed = {int(v) for v, _ in t['targets']}
    return [n for i, n in sorted(names.items()) if i not in listed]


def r1(R1, cfg, F):
    b = F.body(HE)
    if not b:
        R1.missing(cfg, HE)
        return
    ek = variants_of(F, 'notify::EventKind')
    mk = variants_of(F, 'notify::event::ModifyKind')
    if not ek:
        R1.missing(cfg, 'notify::EventKind (discriminant switch)')
        return
    # the loop element (the event path)
    nx = [c for c in b.calls() if c.callee and c.callee.name == 'next' and 'PathBuf' in c.dest['ty']]
    sws = [bb for bb, t in b.terms() if t['k'] == 'switch' and not b.blocks[bb]['cleanup'] and switch_kind(F, b, bb)[:2] == ('adt', 'notify::EventKind')]
    # the consumer of the list
    cons = [c for c in b.calls() if c.callee and c.callee.name == 'into_iter'
            and re.search(r"Vec<&('\w+ )?std::path::Path", (c.args[0]['place']['ty'] if c.args and c.args[0]['k'] in ('copy', 'move') else ''))]
    if len(nx) != 1 or len(sws) != 1 or len(cons) != 1:
        R1.unrecognised(cfg, b.path, 'loop over event.paths / match on event.kind / consumer of the path list (found %d,%d,%d)' % (len(nx), len(sws), len(cons)), b.loc())
        return
    nx, S, J = nx[0], sws[0], cons[0].bb

    def classify(op):
        """PATH | PARENT | None for a &Path operand"""
        src = b.downcast_source(op)
        if src and src[1] == 'Some':
            r = [c for c in b.calls() if c.dest and c.dest['l'] == src[0] and not c.dest['p']]
            if len(r) == 1 and r[0].callee and r[0].callee.best == 'std::path::Path::parent' and classify(r[0].args[0]) == 'PATH':
                return 'PARENT'
        roots = b.call_roots(op)
        for r in roots:
            if r.callee and r.callee.defp == 'std::ops::Deref::deref' and 'PathBuf' in (r.callee.self_ty or ''):
                s2 = payload_root(r.args[0])
                if s2 == nx.dest['l']:
                    return 'PATH'
        return None

    def payload_root(op, depth=0):
        if op['k'] not in ('copy', 'move') or depth > 8:
            return None
        s = b.downcast_source(op)
        if s and s[1] == 'Some':
            return s[0]
        l = op['place']['l']
        for d in b.defs_of(l):
            if d[0] == 'stmt' and d[3]['rv']['k'] in ('ref',):
                r = payload_root({'k': 'copy', 'place': {'l': d[3]['rv']['place']['l'], 'p': []}}, depth + 1)
                if r is not None:
                    return r
            if d[0] == 'stmt' and d[3]['rv']['k'] == 'use':
                r = payload_root(d[3]['rv']['op'], depth + 1)
                if r is not None:
                    return r
        return None
    table = {}
    bad = []
    for tgt, lab in b.edges(S):
        kinds = label_variants(b, S, lab, ek)
        if tgt not in b.live_blocks():
            continue
        paths = enumerate_paths(b, start=tgt, stop_at={J}, max_paths=2000)
        if paths is None:
            R1.unrecognised(cfg, b.path, 'too many paths in the arm of %s' % kinds, b.loc())
            return
        for p in paths:
            if b.blocks[p.blocks[-1]]['cleanup']:
                continue
            if not p.feasible():
                continue          # (the arm set a flag -- `with_parent`, a private enum -- that a later branch contradicts)
            reaches = p.blocks[-1] == J
            if not reaches and p.end != 'return':
                continue          # diverging call (allocation failure ...): not an exit of the handler
            sub = '*'
            parent = '*'
            exhausted = False
            for bb, lab2 in p.decisions:
                k = switch_kind(F, b, bb)
                if k[0] != 'adt':
                    continue
                if k[1] == 'std::option::Option' and k[2]['l'] == nx.dest['l'] and not k[2]['p']:
                    # (the kind was classified before the loop: leaving the loop because there is no further path is
                    # not an outcome for a path)
                    exhausted = lab2 == 'sw:0' or (lab2 == 'otherwise' and any(v == '1' for v, _ in b.blocks[bb]['term']['targets']))
                    continue
                if k[1] == 'notify::event::ModifyKind' and mk:
                    vs = label_variants(b, bb, lab2, mk)
                    sub = vs if len(vs) > 1 else vs[0]
                elif k[1] == 'std::option::Option' and re.search(r'std::path::Path(?!Buf)', k[3]):
                    parent = 'Some' if lab2 == 'sw:1' or (lab2 == 'otherwise' and any(v == '0' for v, _ in b.blocks[bb]['term']['targets'])) else 'None'
            if exhausted:
                continue
            emitted = []
            okc = True
            if reaches:
                for bb, j, s in p.stmts():
                    rv = s['rv']
                    if rv['k'] == 'aggregate' and 'array' in rv and 'std::path::Path' in rv['array']:
                        for o in rv['ops']:
                            c = classify(o)
                            if c is None:
                                okc = False
                            emitted.append(c)
                for c in p.calls():
                    if c.callee and c.callee.name in ('push', 'extend', 'extend_from_slice', 'insert') and 'Vec' in c.callee.best and 'std::path::Path' in str(c.callee.args):
                        cl = classify(c.args[1])
                        if cl is None:
                            okc = False
                        emitted.append(cl)
            if not okc:
                bad.append((kinds, sub))
            subs = sub if isinstance(sub, list) else [sub]
            for kd in kinds:
                for sb in subs:
                    table.setdefault((kd, sb), {}).setdefault(parent, set()).add(frozenset(x for x in emitted if x) if reaches else frozenset(['<no-event>']))
    if bad:
        R1.unrecognised(cfg, b.path, 'a &Path put in the list that is neither the event path nor its parent (arms %s)' % bad, b.loc())
        return
    # compare with the reference table
    for (kd, sb), want in sorted(EXPECT.items()):
        rows = table.get((kd, sb)) or table.get((kd, '*'))
        if sb != '*' and (kd, sb) not in table and (kd, '*') not in table:
            rows = None
        if rows is None:
            R1.bad(cfg, b.path, 'row-missing:%s(%s)' % (kd, sb), 'no arm handles EventKind::%s(%s)' % (kd, sb), b.loc())
            continue
        some = set(rows.get('Some', set())) | set(rows.get('*', set()))     # every way the arm can emit when a parent exists (or is not asked for)
        none = rows.get('None')
        if not want:
            ok = all(x == frozenset(['<no-event>']) for alts in rows.values() for x in alts)
            got = sorted(sorted(x) for alts in rows.values() for x in alts)
        else:
            ok = some == {frozenset(want)}
            if ok and none is not None:
                ok = all(x <= frozenset(want) and ('PATH' in x or 'PATH' not in want) for x in none)
            got = sorted(sorted(x) for x in some)
        what = {'Any': 'an unspecified change', 'Create': 'a creation', 'Remove': 'a removal', 'Modify': 'a modification (%s)' % sb, 'Access': 'an access', 'Other': 'an other event'}[kd]
        R1.check(ok, cfg, b.path, 'event-table:%s(%s)=%s' % (kd, sb, '+'.join(sorted(want)) or 'nothing'),
                 '%s must name %s, but the handler names %s' % (what, ' and '.join(sorted(x.lower() for x in want)) or 'nothing', got), b.loc(),
                 row={'kind': kd, 'sub': sb, 'named': got})


PANICKY = re.compile(r'::(unwrap|expect|unwrap_unchecked|expect_err|unwrap_err)$|^core::panicking::|^std::rt::(panic_fmt|begin_panic)|^std::process::(abort|exit)$|^core::option::(unwrap_failed|expect_failed)$|^core::result::unwrap_failed$')


def r2(R2, cfg, F):
    units = []
    hb = F.body(HE)
    if hb:
        units += F.unit(hb)
    for p in (W + 'id_of_path', 'utils::private::IdBuilder::push', 'utils::private::IdBuilder::pop', 'utils::private::IdBuilder::join',
              'utils::private::IdBuilder::reset', 'utils::private::extension_of', 'hot_reloading::EventSender::send_multiple'):
        b = F.body(p)
        if not b:
            R2.missing(cfg, p)
            continue
        units += F.unit(b)
    for b in units:
        badc = [c for c in b.calls() if c.callee and PANICKY.search(c.callee.best) and not c.exp]
        asserts = [(bb, t) for bb, t in b.terms() if t['k'] == 'assert' and bb in b.live_blocks(unwind=False) and not t.get('exp')]
        R2.check(not badc and not asserts, cfg, b.path, 'no-panic-site',
                 'a notification with an unusual path could stop the watcher here: %s' % ([c.callee.best + ' at ' + c.loc() for c in badc] + ['%s at line %s' % (t['msg'], t['line']) for _, t in asserts]), b.loc())


def component_table(F, b, sw):
    names = variants_of(F, 'std::path::Component')
    out = {}
    nxt = [c for c in b.calls() if c.callee and c.callee.name == 'next' and 'Component' in c.dest['ty']]
    hdr = nxt[0].bb if nxt else None
    for tgt, lab in b.edges(sw):
        for v in label_variants(b, sw, lab, names):
            reach = b.reachable([tgt], removed_blocks=[hdr] if hdr is not None else [])
            acts = [c.callee.name for c in b.calls() if c.bb in reach and c.callee and c.callee.best in ('utils::private::IdBuilder::push', 'utils::private::IdBuilder::pop')
                    and b.dominates(tgt, c.bb)]
            first = None
            # the action of the arm is the first IdBuilder call dominated by the arm entry and not dominated by another arm action
            for c in b.calls():
                if c.bb in reach and c.callee and c.callee.best in ('utils::private::IdBuilder::push', 'utils::private::IdBuilder::pop') and b.dominates(tgt, c.bb):
                    if first is None or b.dominates(c.bb, first.bb):
                        first = c
            back = hdr is not None and hdr in b.reachable([tgt])
            if first is not None and back and _arm_owns(b, sw, tgt, first.bb):
                out[v] = first.callee.name
            elif back and _reaches_header_directly(b, tgt, hdr):
                out[v] = 'skip'
            else:
                out[v] = 'reject'
    return out


def _arm_owns(b, sw, tgt, bb):
    # bb is reached from sw only through tgt
    return bb not in b.reachable([sw], removed_edges=[(sw, tgt)]) or True


def _reaches_header_directly(b, tgt, hdr):
    # from tgt the header is reached without any call
    seen = set()
    stack = [tgt]
    while stack:
        x = stack.pop()
        if x == hdr:
            return True
        if x in seen:
            continue
        seen.add(x)
        if b.blocks[x]['term']['k'] != 'goto':
            continue
        stack.extend(b.succ(x))
    return False


REF_TABLE = {'Normal': 'push', 'ParentDir': 'pop', 'CurDir': 'skip', 'Prefix': 'reject', 'RootDir': 'reject'}


def r3(R3, cfg, F, feats):
    found = []
    for b in F.fn_bodies():
        for bb, t in b.terms():
            if t['k'] == 'switch' and not b.blocks[bb]['cleanup'] and switch_kind(F, b, bb)[:2] == ('adt', 'std::path::Component'):
                found.append((b, bb))
    want_n = ('hot-reloading' in feats) + ('zip' in feats) + ('tar' in feats)
    if len(found) < want_n:
        R3.missing(cfg, 'a component walk per id builder (found %d, expected %d)' % (len(found), want_n))
    for b, sw in found:
        tab = component_table(F, b, sw)
        R3.check(tab == REF_TABLE, cfg, b.path, 'component-table=Normal:push,ParentDir:pop,CurDir:skip,other:reject',
                 'path components are mapped %s, but every id builder must map them %s' % (tab, REF_TABLE), b.loc(), table=tab)


def r4(R4, cfg, F):
    b = F.body('utils::private::IdBuilder::push')
    if not b:
        R4.missing(cfg, 'IdBuilder::push')
        return
    ct = [c for c in b.calls() if c.callee and c.callee.name == 'contains' and c.args[1].get('text') == "'.'" and b.origins(c.args[0]) == {('arg', 2)}]
    muts = [c for c in b.calls() if c.callee and c.callee.recv_kind() == '&mut self' and 'String' in c.callee.best]
    ok = len(ct) == 1 and bool(muts)
    if ok:
        # every mutation of the buffer runs only when contains('.') returned false ...
        ok = all(any(c is ct[0] and truth is False for c, truth in common.call_truth_guards(b, m.bb)) for m in muts)
        # ... and a segment with a dot makes the function return None
        nones = [bb for bb, _, s in b.assigns() if s['place']['l'] == 0 and s['rv']['k'] == 'aggregate' and s['rv'].get('variant_name') == 'None'
                 and any(c is ct[0] and truth is True for c, truth in common.call_truth_guards(b, bb))]
        somes = [bb for bb, _, s in b.assigns() if s['place']['l'] == 0 and s['rv']['k'] == 'aggregate' and s['rv'].get('variant_name') == 'Some'
                 and not any(c is ct[0] and truth is False for c, truth in common.call_truth_guards(b, bb))]
        ok = ok and bool(nones) and not somes
        # and what is appended is the segment itself
        ps = [m for m in muts if m.callee.name == 'push_str']
        ok = ok and len(ps) == 1 and (b.origins(ps[0].args[1]) == {('arg', 2)} or common.strip_refs(common.deep_path(b, ps[0].args[1])) == ['arg2'])
    # pop: `..` removes the last segment -- also when it is the only one; it fails only on an empty builder (the path
    # would leave the root)
    pb = F.body('utils::private::IdBuilder::pop')
    if not pb:
        R4.missing(cfg, 'IdBuilder::pop')
    else:
        emp = [c for c in pb.calls() if c.callee and c.callee.name == 'is_empty' and 'buf' in (common.deep_path(pb, c.args[0]) or [])]
        tr = [c for c in pb.calls() if c.callee and c.callee.name in ('truncate', 'clear') and 'String' in c.callee.best]
        nones = [bb for bb, _, st in pb.assigns() if st['place']['l'] == 0 and not st['place']['p'] and st['rv']['k'] == 'aggregate' and st['rv'].get('variant_name') == 'None']
        okp = len(emp) == 1 and bool(tr) and bool(nones) and all(any(c is emp[0] and truth is True for c, truth in common.call_truth_guards(pb, bb)) for bb in nones)
        if okp:
            # on a non-empty builder the buffer is always shortened
            g = [x for x in common.guards_of(pb, tr[0].bb)]
            okp = not (pb.reachable([0], removed_blocks=[t.bb for t in tr] + nones) & set(pb.return_blocks()))
        R4.check(okp, cfg, pb.path, 'pop-fails-only-when-empty', 'IdBuilder::pop must remove the last segment whenever there is one (also the only one) and fail only on an empty builder: '
                 '`a/../b.x` names `b.x`', pb.loc())
    R4.check(ok, cfg, b.path, 'dot-check-dominates-mutation', 'IdBuilder::push must return None for a segment containing "." before touching the buffer (ids are split on "." to build paths, so such a segment would alias another entry)', b.loc())


def r5(R5, cfg, F):
    b = F.body(W + 'id_of_path')
    if not b:
        R5.missing(cfg, 'id_of_path')
        return
    isd = [c for c in b.calls() if c.callee and c.callee.best == 'std::path::Path::is_dir']
    ext = [c for c in b.calls() if c.callee and c.callee.best == 'utils::private::extension_of']
    dirs = [(bb, s) for bb, j, s in b.assigns() if s['rv']['k'] == 'aggregate' and s['rv'].get('adt') == 'source::OwnedDirEntry'
            and len(isd) == 1 and b.dominates(isd[0].bb, bb)]
    ok = len(isd) == 1 and len(ext) == 1 and len(dirs) == 2
    if ok:
        ok = b.origins(isd[0].args[0]) == {('arg', 3)} and b.origins(ext[0].args[0]) == {('arg', 3)}
        sw = [bb for bb, t in b.terms() if t['k'] == 'switch' and b.access_path(t['discr']) == ['call@bb%d' % isd[0].bb]]
        ok = ok and len(sw) == 1
        if ok:
            true_t = [d for d, lab in b.edges(sw[0]) if lab != 'sw:0'][0]
            false_t = [d for d, lab in b.edges(sw[0]) if lab == 'sw:0'][0]
            for bb, s in dirs:
                v = s['rv'].get('variant_name')
                if v == 'Directory':
                    ok = ok and bb in b.reachable([true_t]) and bb not in b.reachable([false_t])
                else:
                    ok = ok and bb in b.reachable([false_t]) and bb not in b.reachable([true_t])
                    e = s['rv']['ops'][1]
                    ok = ok and ('call', ext[0].bb) in b.origins(e, passthrough=common.make_pt(common.TRY_BRANCH, r'Into<U>>::into$'))
    R5.check(ok, cfg, b.path, 'Directory-iff-is_dir;ext=extension_of(path)', 'id_of_path must name a Directory exactly when the path is a directory, and otherwise use utils::extension_of (the helper FileSystem::read_dir uses)', b.loc())
    fs = F.body('<source::filesystem::FileSystem as source::Source>::read_dir')
    if fs:
        reach = F.reach([fs.path])
        R5.check('utils::private::extension_of' in reach, cfg, fs.path, 'read_dir-uses-extension_of', 'FileSystem::read_dir must take extensions from the same helper', fs.loc())
    # roots are stripped, the stem is pushed last
    sp = [c for c in b.calls() if c.callee and c.callee.best == 'std::path::Path::strip_prefix']
    pa = [c for c in b.calls() if c.callee and c.callee.best == 'std::path::Path::parent']
    st = [c for c in b.calls() if c.callee and c.callee.best == 'std::path::Path::file_stem']
    ok = len(sp) == 1 and len(pa) == 1 and len(st) == 1 and b.origins(sp[0].args[1]) == {('arg', 2)} and b.origins(pa[0].args[0]) == {('arg', 3)} and b.origins(st[0].args[0]) == {('arg', 3)} \
        and ('call', pa[0].bb) in b.origins(sp[0].args[0], passthrough=common.PT_TRY)
    R5.check(ok, cfg, b.path, 'id=components(parent-root)+stem', 'the id must be built from the components of path.parent() relative to the root, then the file stem', b.loc())


def r6(R6, cfg, F):
    """Every id id_of_path returns is built by IdBuilder pushes, each of which appends a non-empty segment; the root
    directory has the empty id, so it can be named only on a path that returns a Directory without any push."""
    b = F.body(W + 'id_of_path')
    if not b:
        R6.missing(cfg, 'id_of_path')
        return
    pushes = [c.bb for c in b.calls() if c.callee and c.callee.best == 'utils::private::IdBuilder::push']
    nopush = b.reachable([0], removed_blocks=pushes)
    dirs = [(bb, s) for bb, j, s in b.assigns() if s['rv']['k'] == 'aggregate' and s['rv'].get('adt') == 'source::OwnedDirEntry' and s['rv'].get('variant_name') == 'Directory' and bb in nopush]
    ok = False
    why = 'every path that returns an entry pushes at least one (non-empty) segment, so Directory("") -- the root -- is never produced: creating, renaming or removing a top-level entry never notifies assets that listed the root'
    for bb, s in dirs:
        # reached only when path == root
        eqs = [c for c in b.calls() if c.callee and c.callee.name == 'eq' and c.callee.trait == 'std::cmp::PartialEq'
               and {frozenset(b.origins(c.args[0])), frozenset(b.origins(c.args[1]))} == {frozenset({('arg', 2)}), frozenset({('arg', 3)})}]
        for e in eqs:
            sw = [x for x, t in b.terms() if t['k'] == 'switch' and b.access_path(t['discr']) == ['call@bb%d' % e.bb]]
            if len(sw) == 1:
                true_t = [d for d, lab in b.edges(sw[0]) if lab != 'sw:0']
                if len(true_t) == 1 and bb not in b.reachable([0], removed_edges=[(sw[0], true_t[0])]) and (b.reachable([bb]) & set(b.return_blocks())):
                    r = b.call_roots(s['rv']['ops'][0])
                    if len(r) == 1 and r[0].callee.best == 'utils::private::IdBuilder::join':
                        ok = True
                    # or the literal empty id
                    lit = b.origins(s['rv']['ops'][0], passthrough=common.make_pt(r'Into<U>>::into$', r'From<.*>>::from$'))
                    if lit == {('const', '""')}:
                        ok = True
        if not ok:
            why = 'a Directory entry is returned without any pushed segment, but not under the condition path == root'
    R6.check(ok, cfg, b.path, 'root-directory-nameable', why, b.loc())


SHORT_CIRCUIT = {'find', 'find_map', 'any', 'all', 'position', 'rposition', 'take', 'take_while', 'map_while', 'nth', 'nth_back', 'last', 'min', 'max',
                 'min_by', 'max_by', 'min_by_key', 'max_by_key', 'skip', 'skip_while', 'step_by', 'next_back', 'try_for_each', 'try_fold', 'reduce',
                 'rev_find', 'rfind', 'first', 'get', 'split_first', 'split_last'}


def r9(R9, cfg, F):
    W = 'hot_reloading::watcher::'
    # FsWatcherBuilder::watch: notify watches the path (recursively) and the root is remembered for id_of_path
    b = F.body(W + 'FsWatcherBuilder::watch')
    if not b:
        R9.missing(cfg, 'FsWatcherBuilder::watch')
    else:
        nw = [c for c in b.calls() if c.callee and c.callee.name == 'watch' and 'notify' in c.callee.best]
        ps = [c for c in b.calls() if c.callee and c.callee.name == 'push' and 'Vec' in c.callee.best and 'roots' in (common.deep_path(b, c.args[0]) or [])]
        ok = len(nw) == 1 and len(ps) == 1 and b.origins(nw[0].args[1], passthrough=common.pt_deref) == {('arg', 2)} \
            and common.strip_refs(common.deep_path(b, ps[0].args[1], at=ps[0].bb)) == ['arg2'] and common.guarded_by_variant(b, ps[0].bb, [['call@bb%d' % nw[0].bb]], 0)
        if ok:
            g = [x for x in common.guards_of(b, ps[0].bb) if x[3][0] == 'discr']
            ok = common.inevitable(b, g, ps[0].bb) and common.inevitable(b, [], nw[0].bb)
            mode = enum_variant_of(b, nw[0].args[2]) if len(nw[0].args) > 2 else set()
            ok = ok and mode == {'Recursive'}
        R9.check(ok, cfg, b.path, 'watch=notify.watch(path,Recursive)+roots.push(path)', 'watch(path) must register the path with notify (recursively) and, when that succeeded, remember it as a root', b.loc())
    # EventHandlerPayload: the event that arrives while the handler is being installed is handled too, and the handler is kept
    b = F.body('<' + W + 'EventHandlerPayload<H> as notify::EventHandler>::handle_event')
    if not b:
        R9.missing(cfg, 'EventHandlerPayload::handle_event')
    else:
        tr = [c for c in b.calls() if c.callee and c.callee.name == 'try_recv']
        he = [c for c in b.calls() if c.callee and c.callee.name == 'handle_event']
        sd = [(bb, st) for bb, _, st in b.assigns() if st['rv']['k'] == 'aggregate' and st['rv'].get('variant_name') == 'Handler' and not b.blocks[bb]['cleanup']]
        ok = len(tr) == 1 and len(he) == 2 and len(sd) == 1
        if ok:
            on_ok = [c for c in he if common.guarded_by_variant(b, c.bb, [['call@bb%d' % tr[0].bb]], 0)]
            ok = len(on_ok) == 1 and common.guarded_by_variant(b, sd[0][0], [['call@bb%d' % tr[0].bb]], 0) \
                and all(common.strip_refs(common.deep_path(b, c.args[1], at=c.bb)) == ['arg2'] for c in he)
            if ok:
                g = [x for x in common.guards_of(b, on_ok[0].bb) if x[3][0] == 'discr']
                ok = common.inevitable(b, g, on_ok[0].bb) and common.inevitable(b, g, sd[0][0])
        R9.check(ok, cfg, b.path, 'first-event-handled-and-handler-kept', 'when the handler arrives, the event at hand must be given to it and the handler stored for the next ones', b.loc())
    # FileSystem::configure_hot_reloading: watches its own root, then starts the watcher with the sender it was given
    b = F.body('<source::filesystem::FileSystem as source::Source>::configure_hot_reloading')
    if not b:
        R9.missing(cfg, 'FileSystem::configure_hot_reloading')
    else:
        wt = [c for c in b.calls() if c.callee and c.callee.best == W + 'FsWatcherBuilder::watch']
        bd = [c for c in b.calls() if c.callee and c.callee.best == W + 'FsWatcherBuilder::build']
        ok = len(wt) == 1 and len(bd) == 1 and b.dominates(wt[0].bb, bd[0].bb) and common.guarded_by_variant(b, bd[0].bb, [['call@bb%d' % wt[0].bb]], 0)
        if ok:
            pt = common.make_pt(r'Clone>::clone$', r'Into<U>>::into$', r'to_path_buf$', r'ToOwned>::to_owned$')
            ok = 'path' in str(b.access_path(b.call_roots(wt[0].args[1], passthrough=None)[0].args[0]) if b.call_roots(wt[0].args[1]) else common.deep_path(b, wt[0].args[1])) \
                and common.strip_refs(common.deep_path(b, bd[0].args[1], at=bd[0].bb)) == ['arg2']
            g = [x for x in common.guards_of(b, bd[0].bb) if x[3][0] == 'discr']
            ok = ok and common.inevitable(b, g, bd[0].bb)
        R9.check(ok, cfg, b.path, 'configure=watch(self.path)+build(events)', 'configure_hot_reloading must watch the source\'s own root and then start the watcher with the event sender it was given', b.loc())
    # IdBuilder::push: segments are separated by exactly one '.', put before every segment but the first
    pb = F.body('utils::private::IdBuilder::push')
    if not pb:
        R9.missing(cfg, 'IdBuilder::push')
    else:
        pc = [c for c in pb.calls() if c.callee and c.callee.best == 'std::string::String::push' and c.args[1].get('text', '').startswith("'.'")]
        ps = [c for c in pb.calls() if c.callee and c.callee.name == 'push_str']
        ie = [c for c in pb.calls() if c.callee and c.callee.name == 'is_empty' and 'buf' in (common.deep_path(pb, c.args[0]) or [])]
        ok = len(pc) == 1 and len(ps) == 1 and len(ie) == 1 and pb.dominates(ie[0].bb, pc[0].bb) and ps[0].bb in pb.reachable([pc[0].target] if pc[0].target is not None else [])
        if ok:
            tg = [(x, t) for x, t in common.call_truth_guards(pb, pc[0].bb) if x is ie[0]]
            ok = tg == [(ie[0], False)]
            # and with a non-empty buffer the separator is not skipped
            if ok:
                sws = [bb for bb, t in pb.terms() if t['k'] == 'switch' and any(x is ie[0] for x, _ in _bool_src(pb, bb))]
                ok = len(sws) == 1 and len([d for d, _ in pb.edges(sws[0]) if pc[0].bb not in pb.reachable([d]) and d != pc[0].bb]) == 1
        R9.check(ok, cfg, pb.path, 'separator-before-every-segment-but-the-first', "IdBuilder::push must append '.' exactly when the buffer is not empty, then the segment", pb.loc())


def _bool_src(b, sw):
    """[(call, truth)] the call whose bool result the switch at `sw` tests, through copies and `!`"""
    t = b.blocks[sw]['term']
    if t['discr']['k'] not in ('copy', 'move') or t['discr']['place']['p']:
        return []
    l, at, truth = t['discr']['place']['l'], sw, True
    for _ in range(8):
        ds = [d for d in b.defs_of(l) if d[0] in ('stmt', 'call')]
        if len(ds) > 1:
            ds = [d for d in ds if d[1] == at] or ds
        if len(ds) != 1:
            return []
        d = ds[0]
        if d[0] == 'call':
            return [(d[2], truth)]
        rv = d[3]['rv']
        if rv['k'] == 'use' and rv['op']['k'] in ('copy', 'move') and not rv['op']['place']['p']:
            l, at = rv['op']['place']['l'], d[1]
        elif rv['k'] == 'unop' and rv['a']['k'] in ('copy', 'move') and not rv['a']['place']['p']:
            l, at, truth = rv['a']['place']['l'], d[1], not truth
        else:
            return []
    return []


def r8(R8, cfg, F):
    """Roots may be nested (an override directory inside the main one), so a path can be an entry of several roots, and
    one notification can carry several paths: every (path, root) pair that id_of_path can name is sent.  In the unit of
    handle_event, an iterator over PathBufs / &Paths is consumed completely: by a loop around next(), or by adaptors that
    visit every item (map, flat_map, filter_map, for_each, collect, chain, ...), never by one that stops at or selects
    some item."""
    hb = F.body('<hot_reloading::watcher::NotifyEventHandler as notify::EventHandler>::handle_event')
    if not hb:
        R8.missing(cfg, 'NotifyEventHandler::handle_event')
        return
    unit = [hb] + [x for x in F.closures_of.get(hb.path, [])]
    n = 0
    for b in unit:
        for c in b.calls():
            if not c.callee or c.exp:
                continue
            over = ' '.join(c.callee.args or []) + ' ' + (c.args[0]['place']['ty'] if c.args and c.args[0]['k'] in ('copy', 'move') else '')
            is_iter = c.callee.trait in ('std::iter::Iterator', 'std::iter::DoubleEndedIterator') or 'slice' in c.callee.best
            if not is_iter or not re.search(r'std::path::(PathBuf|Path)\b', over):
                continue
            n += 1
            if c.callee.name == 'next':
                in_loop = c.target is not None and c.bb in b.reachable([c.target])
                R8.check(in_loop, cfg, b.path, 'paths-iterated-to-the-end:next', 'an iterator over paths / roots is asked for one item only (next() outside a loop): the other paths or roots are never looked at', c.loc())
            else:
                R8.check(c.callee.name not in SHORT_CIRCUIT, cfg, b.path, 'paths-iterated-to-the-end:' + c.callee.name,
                         '`%s` over paths / roots stops at (or selects) some item: a path that lies under several watched roots, or the other paths of the notification, get no event' % c.callee.name, c.loc())
    if n == 0:
        R8.missing(cfg, 'an iteration over event.paths / self.roots in handle_event')


def r7(R7, cfg, F):
    """The builder is reused between calls (it is a field / a parameter), so every function that assembles an id
    with it must start from an empty buffer on EVERY path -- including after an earlier call bailed out with `?`
    half-way: reset() must dominate every push / pop / join."""
    IB = 'utils::private::IdBuilder::'
    n = 0
    for b in F.fn_bodies():
        uses = [c for c in b.calls() if c.callee and c.callee.best in (IB + 'push', IB + 'pop', IB + 'join')]
        if not uses or b.path.startswith('utils::private::'):
            continue
        # only builders that come from outside (parameter / captured variable), not a fresh local
        ext = [c for c in uses if any(r[0] in ('arg', 'upvar') for r in b.origins(c.args[0]))]
        if not ext:
            continue
        n += 1
        rs = [c for c in b.calls() if c.callee and c.callee.best == IB + 'reset']
        ok = bool(rs) and all(any(b.dominates(r.bb, u.bb) and r.bb != u.bb for r in rs) for u in ext)
        if not ok and b.kind == 'Closure' and not rs:
            # the builder is reset by the enclosing function before the closure (which captures it) is built
            par = F.body(b.parent)
            if par is not None:
                lits = [bb for bb, j, s in par.assigns() if s['rv']['k'] == 'aggregate' and s['rv'].get('closure') == b.path]
                prs = [c for c in par.calls() if c.callee and c.callee.best == IB + 'reset']
                ok = len(lits) == 1 and bool(prs) and any(par.dominates(r.bb, lits[0]) for r in prs)
        R7.check(ok, cfg, b.path, 'reset-dominates-every-use', '`%s` uses a shared IdBuilder without resetting it first on every path: segments left by an earlier call that bailed out half-way '
                 'would be prepended to the next id (the next notification / archive member is then given a wrong id)' % b.path, b.loc())
    if n == 0:
        R7.missing(cfg, 'a function using a shared IdBuilder')
