"""Rule bookkeeping: instances, floors, violations, known findings, evidence."""
import hashlib
import json
import os
import re
import time

VERIF = os.path.dirname(os.path.dirname(os.path.dirname(os.path.abspath(__file__))))
KNOWN = os.path.join(VERIF, 'findings', 'KNOWN_FINDINGS.txt')
EVID = os.environ.get('AM_EVID') or os.path.join(VERIF, 'evidence')

HR = ('B', 'C', 'D', 'E')  # configurations with hot-reloading among the quick ones


class Violation:
    def __init__(self, prop, rule, fn, detail, msg, loc, cfg, extra=None):
        self.prop = prop
        self.rule = rule
        self.fn = fn
        self.detail = detail
        self.msg = msg
        self.loc = loc
        self.cfgs = [cfg]
        self.extra = extra or {}

    @property
    def key(self):
        return '%s|%s|%s|%s' % (self.prop, self.rule, self.fn, self.detail)


class Rule:
    def __init__(self, report, rid, desc, floor=None, kind='must'):
        self.report = report
        self.rid = rid
        self.desc = desc
        self.floor = floor
        self.kind = kind
        self.instances = {}   # cfg -> list of dict
        self.analysed = {}    # cfg -> free counters

    def ok(self, cfg, fn, what, loc=None, **extra):
        d = {'fn': fn, 'what': what, 'loc': loc, 'verdict': 'holds'}
        d.update(extra)
        self.instances.setdefault(cfg, []).append(d)

    def bad(self, cfg, fn, detail, msg, loc=None, **extra):
        d = {'fn': fn, 'what': detail, 'loc': loc, 'verdict': 'VIOLATED', 'msg': msg}
        d.update(extra)
        self.instances.setdefault(cfg, []).append(d)
        self.report.add_violation(Violation(self.report.prop, self.rid, fn, detail, msg, loc, cfg, extra))

    def check(self, cond, cfg, fn, what, msg, loc=None, **extra):
        if cond:
            self.ok(cfg, fn, what, loc, **extra)
        else:
            self.bad(cfg, fn, what, msg, loc, **extra)
        return cond

    def missing(self, cfg, what):
        """fail closed: an anchor the rule talks about does not exist"""
        self.bad(cfg, '<anchor>', 'anchor-missing:' + what,
                 'rule %s cannot find its anchor `%s` in configuration %s: the code changed shape; '
                 're-confirm the rule (fail-closed, DESIGN.md section 6)' % (self.rid, what, cfg))

    def unrecognised(self, cfg, fn, what, loc=None):
        self.bad(cfg, fn, 'unrecognised-shape:' + what,
                 'rule %s cannot enumerate `%s` in %s (fail-closed)' % (self.rid, what, fn), loc)

    def note(self, cfg, **kv):
        self.analysed.setdefault(cfg, {}).update(kv)

    def finish_cfg(self, cfg):
        n = len([i for i in self.instances.get(cfg, []) if i['verdict'] == 'holds' or not i['what'].startswith('anchor-missing')])
        if self.floor is not None and n < self.floor:
            self.bad(cfg, '<floor>', 'below-floor',
                     'rule %s found %d instance(s) in configuration %s, floor is %d (counted by hand on the '
                     'reference tree): an anchor disappeared' % (self.rid, n, cfg, self.floor))


class Report:
    def __init__(self, prop, tier):
        self.prop = prop
        self.tier = tier
        self.rules = {}
        self.violations = {}   # key -> Violation
        self.witnesses = []
        self.fixture_results = []
        self.t0 = time.time()
        self.totals = {}
        self.assumptions = []
        self.samples = []

    def rule(self, rid, desc, floor=None):
        if rid not in self.rules:
            self.rules[rid] = Rule(self, rid, desc, floor)
        return self.rules[rid]

    def add_violation(self, v):
        if v.key in self.violations:
            old = self.violations[v.key]
            if v.cfgs[0] not in old.cfgs:
                old.cfgs.append(v.cfgs[0])
        else:
            self.violations[v.key] = v


def load_known():
    """known: <key> :: <description>     (exact key match, suppresses)
       fixed: property=<id> <commit> <what failed>   (suppresses nothing)"""
    known = {}
    fixed = []
    if os.path.exists(KNOWN):
        for line in open(KNOWN):
            line = line.strip()
            if not line or line.startswith('#'):
                continue
            if line.startswith('known:'):
                rest = line[len('known:'):].strip()
                key, _, desc = rest.partition('::')
                known[key.strip()] = desc.strip()
            elif line.startswith('fixed:'):
                fixed.append(line)
    return known, fixed


def finalize(report, cfgs, tree, level, explanation, trusted, checker_cmd, seed=0, extra_cov=None):
    """print verdict lines, write evidence, return exit code"""
    known, fixed = load_known()
    os.makedirs(os.path.join(EVID, 'replay'), exist_ok=True)
    new = []
    for key, v in sorted(report.violations.items()):
        if key in known:
            print('KNOWN-FINDING: property=%s %s :: %s' % (report.prop, key, known[key]))
        else:
            new.append(v)
    for v in new:
        h = hashlib.sha256(v.key.encode()).hexdigest()[:16]
        rp = os.path.join(EVID, 'replay', '%s-%s.json' % (report.prop, h))
        with open(rp, 'w') as f:
            json.dump({'property': v.prop, 'rule': v.rule, 'function': v.fn, 'detail': v.detail,
                       'message': v.msg, 'location': v.loc, 'configurations': v.cfgs, 'key': v.key,
                       'extra': v.extra, 'tree': tree}, f, indent=1, default=str)
        print('VIOLATION property=%s replay=%s' % (report.prop, rp))
        print('  rule %s  fn %s  at %s  [cfg %s]\n  %s' % (v.rule, v.fn, v.loc, ','.join(v.cfgs), v.msg))

    obligations = 0
    discharged = 0
    rules_out = {}
    distinct = set()
    for rid, r in sorted(report.rules.items()):
        per = {}
        for cfg, insts in r.instances.items():
            per[cfg] = {'instances': len(insts),
                        'holds': len([i for i in insts if i['verdict'] == 'holds'])}
            for i in insts:
                obligations += 1
                if i['verdict'] == 'holds':
                    discharged += 1
                distinct.add((rid, i['fn'], i['what']))
        first_cfg = sorted(r.instances)[0] if r.instances else None
        rules_out[rid] = {
            'rule': r.desc, 'floor': r.floor, 'per_configuration': per,
            'sites': r.instances.get(first_cfg, [])[:40] if first_cfg else [],
            'analysed': r.analysed,
        }
    samples = report.samples[:12]
    if not samples:
        for rid, r in sorted(report.rules.items()):
            for cfg in sorted(r.instances):
                for i in r.instances[cfg][:2]:
                    samples.append({'rule': rid, 'cfg': cfg, **{k: v for k, v in i.items() if k != 'verdict'},
                                    'verdict': i['verdict']})
                break
    cov = {
        'explanation': explanation,
        'obligations': obligations,
        'discharged': discharged,
        'evaluations': obligations,
        'distinct_nontrivial': len(distinct),
        'rule': 'one evaluation = one (rule, site, configuration) obligation checked on the MIR/type facts '
                'of the current tree; distinct = distinct (rule, function, obligation) triples',
        'checker_cmd': checker_cmd,
        'trusted_base': trusted,
        'configurations': {c: cfgs[c] for c in cfgs},
        'tree_digest': tree,
        'totals': report.totals,
        'rules': rules_out,
        'witnesses': report.witnesses,
        'fixtures': report.fixture_results,
        'known_findings_matched': sorted(k for k in report.violations if k in known),
        'unlisted_violations': sorted(v.key for v in new),
        'samples': samples[:16],
        'exhaustive': True,
    }
    if extra_cov:
        cov.update(extra_cov)
    ev = {
        'property_id': report.prop,
        'tier': report.tier,
        'seed': seed,
        'level': level,
        'coverage': cov,
        'assumptions': report.assumptions,
        'wall_s': round(time.time() - report.t0, 3),
        'violations': len(new),
    }
    os.makedirs(EVID, exist_ok=True)
    tmp = os.path.join(EVID, '%s.json.tmp%d' % (report.prop, os.getpid()))
    with open(tmp, 'w') as f:
        json.dump(ev, f, indent=1, default=str)
    os.replace(tmp, os.path.join(EVID, '%s.json' % report.prop))
    nrules = len(report.rules)
    print('%s: %d rule(s), %d obligation(s) evaluated, %d hold, %d known finding(s), %d unlisted violation(s)  '
          '[%.1fs, tree %s]' % (report.prop, nrules, obligations, discharged,
                                len([k for k in report.violations if k in known]), len(new),
                                time.time() - report.t0, tree))
    return 1 if new else 0
