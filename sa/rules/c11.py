"""C11 -- directory assets list exactly the matching ids of a directory / subtree.
Structural clauses (DESIGN.md section 4, C11)."""
import re

import common
from mir import agg_stmts
from common import user_call_kind
from mir import agg_direct

LEVEL = 'other'
EXPLANATION = (
    'Dominance and edge-constrained reachability rules on the MIR of dirs.rs in every configuration: (R1) '
    'Directory::load sorts then dedups the very vector returned by T::select_ids(cache, id)? and stores it; a '
    'missing directory propagates as Err; (R2) the blanket select_ids pushes an id only on the File arm and only '
    'when T::EXTENSIONS contains its extension, and reads exactly the requested directory; (R3) '
    'RecursiveDirectory::load loads Directory<T> of the same id with `?`, extends with each child only on Ok '
    '(a failing child has no effect and does not end the walk), and the default sub_directories forwards exactly the '
    'Directory arm; (R4) iter loads and iter_cached only looks up, both over self.ids() with map / filter_map only; '
    'Arc<T> forwards. Not decided: what read_dir of each source reports (C04).')
TRUSTED = ['rustc MIR construction', 'slice::sort_unstable / Vec::dedup semantics (std)', 'amfacts driver + rule engine in /verif/sa']


def run(ctx):
    rep = ctx.report
    R1 = rep.rule('C11.R1', 'Directory::load: select_ids(cache,id)? -> sort -> dedup -> Directory{ids}', floor=1)
    R2 = rep.rule('C11.R2', 'blanket select_ids: push only File entries whose extension is in T::EXTENSIONS', floor=2)
    R3 = rep.rule('C11.R3', 'RecursiveDirectory::load: own directory with `?`, children only on Ok, failing child skipped', floor=3)
    R4 = rep.rule('C11.R4', 'iter loads / iter_cached only looks up; Arc<T> forwards', floor=6)
    R5 = rep.rule('C11.R5', 'archive sources: a directory listing that was already started is never replaced (an entry of a directory may come before or after the directory member itself)', floor=2)
    R6 = rep.rule('C11.R6', 'the file-system source lists what it can read: entries are classified by following links (Path::is_file / is_dir), like read and exists do', floor=2)
    for cfg, F in ctx.cfgs():
        r6(R6, cfg, F)
        R6.finish_cfg(cfg)
        r1(R1, cfg, F)
        r2(R2, cfg, F)
        r3(R3, cfg, F)
        r4(R4, cfg, F)
        for r in (R1, R2, R3, R4):
            r.finish_cfg(cfg)
        if any(x in ctx.cfg_features[cfg] for x in ('zip', 'tar')):
            r5(R5, cfg, F)
            R5.finish_cfg(cfg)


NO_FOLLOW = re.compile(r'^std::fs::DirEntry::(file_type|metadata)$|^std::fs::symlink_metadata$|^std::path::Path::(symlink_metadata|is_symlink)$|^std::fs::FileType::')


def _ext_guarded_by_file(pe, c, sw, didx):
    """the extension set at `c` is the payload of an Option that the Directory arm of the match on the entry builds as None
    (possibly inside a tuple with the id) and that is tested for Some before `c`"""
    from mir import agg_direct
    de = pe.variant_edge(sw, didx)
    others = [d for d, _ in pe.edges(sw) if d != de]
    only_dir = pe.reachable([de]) - pe.reachable(others)
    gs = [g for g in common.guards_of(pe, c.bb) if g[3][0] == 'discr' and common.guard_variant(pe, g) == 1]
    if not gs:
        return False
    # every Option built on the Directory-only part of the function is None
    opts = []
    for bb, _, st in pe.assigns():
        if bb in only_dir and st['rv']['k'] == 'aggregate' and st['rv'].get('adt') == 'std::option::Option':
            opts.append(st['rv'].get('variant_name'))
    return bool(opts) and set(opts) == {'None'}


def r6(R6, cfg, F):
    """`read(id, ext)` and `exists` of the FileSystem source follow symbolic links (fs::read, Path::exists).  `read_dir`
    must agree with them, or load_dir lists fewer entries than load can read: the File arm is taken on
    Path::is_file() and the Directory arm on Path::is_dir() (both follow links); nothing in the source asks the
    directory entry itself for its type (DirEntry::file_type / metadata, symlink_metadata do not follow links)."""
    b = F.body('<source::filesystem::FileSystem as source::Source>::read_dir')
    if not b:
        R6.missing(cfg, 'FileSystem::read_dir')
        return
    bad = [c for x in F.fn_bodies() if x.path.startswith(('source::filesystem::', '<source::filesystem::')) for c in x.calls() if c.callee and NO_FOLLOW.search(c.callee.best)]
    for c in bad:
        R6.bad(cfg, c.body.path, 'asks-the-entry-not-the-path:' + c.callee.name, '`%s` does not follow symbolic links, while reading an entry does: a linked file or directory would be readable but never listed' % c.callee.best, c.loc())
    if not bad:
        R6.ok(cfg, 'source::filesystem', 'no-link-blind-classification', b.loc())
    # the path of an entry: only a File gets an extension (set_extension on the path of a directory -- the root of the source
    # for the id "" -- would strip what follows the last dot of the directory's own name)
    pe = F.body('utils::private::path_of_entry')
    if not pe:
        R6.missing(cfg, 'utils::private::path_of_entry')
    else:
        se = [c for c in pe.calls() if c.callee and c.callee.name in ('set_extension', 'with_extension', 'add_extension') and 'Path' in c.callee.best]
        okp = len(se) >= 1
        for c in se:
            # reachable only for DirEntry::File: on the Directory arm of the match on the entry it must not be reachable
            sws = [bb for bb, t in pe.terms() if t['k'] == 'switch' and (common.switch_test(pe, bb) or ('', []))[0] == 'discr' and common.strip_refs((common.switch_test(pe, bb) or ('', []))[1] or []) == ['arg2']]
            adt = F.adt('source::DirEntry')
            didx = [v['idx'] for v in adt['variants'] if v['name'] == 'Directory'][0] if adt else None
            if len(sws) != 1 or didx is None:
                okp = False
                break
            de = pe.variant_edge(sws[0], didx)
            if de is None or c.bb in common.reach_bool(pe, de) and not _ext_guarded_by_file(pe, c, sws[0], didx):
                okp = False
        R6.check(okp, cfg, pe.path, 'extension-only-for-File-entries', 'path_of_entry must call set_extension only for DirEntry::File: on a Directory it strips the end of a directory name that contains a dot', pe.loc())
    # the two kinds of entries: wherever read_dir (or a helper written in place) builds one, it is under the right test
    isf = [c for c in b.calls() if c.callee and c.callee.best == 'std::path::Path::is_file']
    isd = [c for c in b.calls() if c.callee and c.callee.best == 'std::path::Path::is_dir']
    fcalls = [c for c in b.calls() if user_call_kind(c) == 'indirect']
    ags = [(bb, st) for bb, _, st in b.assigns() if st['rv']['k'] == 'aggregate' and st['rv'].get('adt') == 'source::DirEntry' and not b.blocks[bb]['cleanup']]
    ok = len(isf) == 1 and len(isd) == 1 and bool(fcalls)
    if ok:
        # (the entry built for path_of(Directory(id)) before the listing starts is not a reported entry)
        ags = [(bb, st) for bb, st in ags if b.dominates(isf[0].bb, bb) and bb != isf[0].bb]
        ok = {st['rv'].get('variant_name') for _, st in ags} == {'File', 'Directory'}
    if ok:
        for bb, st in ags:
            want = isf[0] if st['rv'].get('variant_name') == 'File' else isd[0]
            if not any(x is want and t for x, t in common.call_truth_guards(b, bb)):
                ok = False
    R6.check(ok, cfg, b.path, 'File-iff-is_file;Directory-iff-is_dir', 'read_dir must report DirEntry::File for entries whose path is_file() and DirEntry::Directory for those whose path is_dir() (link-following tests)', b.loc())


def r5(R5, cfg, F):
    """`load_dir` lists what the source's read_dir reports; the zip / tar sources report what register_file put in
    their `dirs` map while scanning the archive.  Archives do not promise that a directory member precedes its content,
    so creating the (empty) listing of a directory must never overwrite one that exists: the only plain `insert`
    allowed on that map is guarded by `!contains_key(same key)`; everything else goes through entry().or_default()."""
    n = 0
    for b in F.fn_bodies():
        if not re.match(r'source::(zip|tar)::', b.path):
            continue
        for c in b.calls():
            if not (c.callee and c.callee.name == 'insert' and 'HashMap' in c.callee.best and c.args):
                continue
            ty = c.args[0]['place']['ty'] if c.args[0]['k'] in ('copy', 'move') else ''
            if not re.search(r'std::vec::Vec<source::(\w+::)?OwnedEntry>', ty):
                continue
            n += 1
            recv = common.base_path(b, c.args[0], at=c.bb)
            key = b.origins(c.args[1], passthrough=common.make_pt(r'Clone>::clone$'))
            ok = False
            for site, truth in common.call_truth_guards(b, c.bb):
                if site.callee and site.callee.name == 'contains_key' and truth is False and common.base_path(b, site.args[0], at=site.bb) == recv \
                        and b.origins(site.args[1], passthrough=common.pt_deref) & key:
                    ok = True
            R5.check(ok, cfg, b.path, 'listing-created-only-if-absent',
                     'a directory listing is inserted without checking that none exists for that id: the entries already registered for that directory are lost '
                     '(archives may list a directory after its content)', c.loc())
    if n < 2:
        # (fewer plain inserts than on the reference tree: the listings are created through entry().or_default() instead)
        R5.note(cfg, plain_inserts=n)
        for _ in range(2 - n):
            R5.ok(cfg, 'source::(zip|tar)', 'no-plain-insert-on-dirs:%d' % _, None)


def r1(R1, cfg, F):
    b = F.body('<dirs::Directory<T> as asset::Compound>::load')
    if not b:
        R1.missing(cfg, 'Directory::load')
        return
    sel = [c for c in b.calls() if c.callee and c.callee.defp == 'dirs::DirLoadable::select_ids']
    srt = [c for c in b.calls() if c.callee and re.search(r'::(sort|sort_unstable|sort_by|sort_unstable_by|sort_by_key)$', c.callee.best)]
    ddp = [c for c in b.calls() if c.callee and re.search(r'Vec::<T.*>::(dedup|dedup_by|dedup_by_key)$', c.callee.best)]
    ag = [(bb, s) for bb, j, s in b.assigns() if s['rv']['k'] == 'aggregate' and s['rv'].get('adt') == 'dirs::Directory']
    ok = len(sel) == 1 and len(srt) == 1 and len(ddp) == 1 and len(ag) == 1
    why = 'shape: select_ids=%d sort=%d dedup=%d' % (len(sel), len(srt), len(ddp))
    if ok:
        ok = b.origins(sel[0].args[0]) == {('arg', 1)} and b.origins(sel[0].args[1]) == {('arg', 2)}
        why = 'select_ids is not asked about (cache, id)'
    if ok:
        ok = b.dominates(srt[0].bb, ddp[0].bb) and b.dominates(ddp[0].bb, ag[0][0]) and srt[0].bb != ddp[0].bb
        why = 'sort must dominate dedup, and dedup the construction of Directory (dedup only removes adjacent duplicates)'
    if ok:
        # all three act on the vector that came out of select_ids(..) -- its Ok payload, however it was unwrapped
        me = ['call@bb%d' % sel[0].bb, 'as:Ok', '0']

        def vec_of(op, depth=0):
            ap = common.deep_path(b, op)
            ap = [e for e in (ap or []) if e not in ('&', '*')]
            if ap[:3] == me:
                return True
            if ap and ap[0].startswith('call@bb') and depth < 4:
                site = [c for c in b.calls() if 'call@bb%d' % c.bb == ap[0]]
                if site and site[0].callee and site[0].callee.name in ('deref_mut', 'deref', 'as_mut_slice', 'as_mut', 'borrow_mut'):
                    return vec_of(site[0].args[0], depth + 1)
            return False
        ids_op = ag[0][1]['rv']['ops'][ag[0][1]['rv']['fields'].index('ids')]
        ok = vec_of(srt[0].args[0]) and vec_of(ddp[0].args[0]) and vec_of(ids_op)
        why = 'sort / dedup / stored ids are not all the vector returned by select_ids(..)?'
    if ok:
        # a failing select_ids builds no Directory
        ok = common.guarded_by_variant(b, ag[0][0], [['call@bb%d' % sel[0].bb]], 0)
        why = 'a failing select_ids (missing directory) must be returned as an error'
    R1.check(ok, cfg, b.path, 'sorted-dedup-of-select_ids', 'Directory::load: %s' % why, b.loc())


def r2(R2, cfg, F):
    b = F.body('<T as dirs::DirLoadable>::select_ids::inner')
    cb = F.body('<T as dirs::DirLoadable>::select_ids::inner::{closure#0}')
    outer = F.body('<T as dirs::DirLoadable>::select_ids')
    if not b or not cb or not outer:
        R2.missing(cfg, 'blanket select_ids / inner / closure')
        return
    call = [c for c in outer.calls() if c.callee and c.callee.best == b.path]
    ok = len(call) == 1 and outer.origins(call[0].args[2]) == {('const', '<T as asset::Asset>::EXTENSIONS')} and outer.origins(call[0].args[0]) == {('arg', 1)} \
        and outer.origins(call[0].args[1], passthrough=common.pt_deref) == {('arg', 2)} and call[0].dest['l'] == 0
    R2.check(ok, cfg, outer.path, 'asks-inner(cache,id,T::EXTENSIONS)', 'select_ids must filter with the type\'s own EXTENSIONS in the requested directory', outer.loc())
    rd = [c for c in b.calls() if c.callee and c.callee.name == 'read_dir']
    ok = len(rd) == 1 and b.origins(rd[0].args[1]) == {('arg', 2)}
    if ok:
        src = b.call_roots(rd[0].args[0])
        ok = len(src) == 1 and src[0].callee.name == 'raw_source' and b.origins(src[0].args[0]) == {('arg', 1)}
        cl = None
        for r in b.origins(rd[0].args[2]):
            if r[0] == 'agg' and 'closure' in b.blocks[r[1]]['stmts'][r[2]]['rv']:
                cl = b.blocks[r[1]]['stmts'][r[2]]
        ok = ok and cl is not None and cl['rv']['closure'] == cb.path
        if ok:
            # captures: extensions (arg3) and the ids vector that is returned
            caps = [b.origins(o) for o in cl['rv']['ops']]
            vec = [c for c in b.calls() if c.callee and c.callee.best == 'std::vec::Vec::<T>::new']
            rets = [s for _, _, s in b.assigns() if s['place']['l'] == 0 and s['rv']['k'] == 'aggregate' and s['rv'].get('variant_name') == 'Ok']
            ok = len(vec) == 1 and {('arg', 3)} in caps and {('call', vec[0].bb)} in caps and len(rets) == 1 and b.origins(rets[0]['rv']['ops'][0]) == {('call', vec[0].bb)}
    R2.check(ok, cfg, b.path, 'reads-requested-dir-with-recording-source', 'inner must list exactly the requested directory through the recording source and return the vector the closure fills', b.loc())
    # the closure (normal form: a helper such as `has_extension` is written in place)
    push = [c for c in cb.calls() if c.callee and c.callee.name == 'push' and 'Vec' in c.callee.best]
    # membership test of the extension: `extensions.contains(&ext)` or `extensions.iter().any(|e| *e == ext)`
    cont = [c for c in cb.calls() if c.callee and c.callee.name == 'contains' and 'slice' in c.callee.best]
    member = None      # (call whose bool result is the membership, operand holding the list, operand holding the extension)
    if len(cont) == 1:
        member = (cont[0], cont[0].args[0], cont[0].args[1], cb)
    else:
        anyc = [c for c in cb.calls() if c.callee and c.callee.defp == 'std::iter::Iterator::any']
        if len(anyc) == 1:
            it = cb.call_roots(anyc[0].args[0])
            lit = agg_direct(cb, anyc[0].args[1])
            pb = F.body(lit['rv']['closure']) if lit is not None and lit['rv'].get('closure') else None
            if len(it) == 1 and it[0].callee.name in ('iter', 'into_iter') and pb is not None:
                eqs = [c for c in pb.calls() if c.callee and c.callee.name in ('eq',) and c.callee.trait == 'std::cmp::PartialEq']
                others = [c for c in pb.calls() if c not in eqs]
                if len(eqs) == 1 and not others and eqs[0].dest['l'] == 0:
                    sides = [pb.origins(a, passthrough=common.pt_deref) for a in eqs[0].args[:2]]
                    up = [x for x in sides if x and all(r[0] == 'upvar' for r in x)]
                    el = [x for x in sides if x == {('arg', 2)}]
                    if len(up) == 1 and len(el) == 1:
                        k = list(up[0])[0][1]
                        member = (anyc[0], it[0].args[0], lit['rv']['ops'][k], cb)
    sw = cb.primary_switch(2)
    ok = len(push) == 1 and member is not None and sw is not None
    why = 'shape'
    if ok:
        adt = F.adt('source::DirEntry')
        fidx = [v['idx'] for v in adt['variants'] if v['name'] == 'File'][0]
        file_t = cb.variant_edge(sw, fidx)
        ok = push[0].bb not in cb.reachable([0], removed_edges=[(sw, file_t)])
        why = 'an id is pushed for an entry that is not a File'
        if ok:
            g = [x for x in common.guards_of(cb, push[0].bb) if x[3][0] == 'val' and x[3][1] == ['call@bb%d' % member[0].bb] and x[2] != 'sw:0']
            ok = len(g) == 1
            why = 'an id is pushed although its extension is not in the list'
        if ok:
            ok = cb.origins(member[1], passthrough=common.pt_deref) == {('upvar', 0)} and cb.origins(member[2], passthrough=common.pt_deref) == {('arg', 2)}
            # which File field: extension = field 1, id = field 0
            def file_field(op):
                seen = set()
                stack = [op]
                while stack:
                    o = stack.pop()
                    if o['k'] not in ('copy', 'move'):
                        continue
                    pl = o['place']
                    fs = [e for e in pl['p'] if isinstance(e, dict) and 'f' in e]
                    if pl['l'] == 2 and fs:
                        return fs[0]['f']
                    if pl['l'] in seen:
                        continue
                    seen.add(pl['l'])
                    for d in cb.defs_of(pl['l']):
                        if d[0] == 'stmt':
                            rv = d[3]['rv']
                            if rv['k'] in ('use', 'cast'):
                                stack.append(rv['op'])
                            elif rv['k'] == 'ref':
                                stack.append({'k': 'copy', 'place': rv['place']})
                        elif d[0] == 'call' and d[2].callee and d[2].callee.name in ('into', 'from', 'deref'):
                            stack.append(d[2].args[0])
                return None
            ok = ok and file_field(member[2]) == 1 and file_field(push[0].args[1]) == 0 and cb.origins(push[0].args[0], passthrough=common.pt_deref) == {('upvar', 1)}
            why = 'the extension test / the pushed id do not use the File entry\'s (id, ext) fields'
    R2.check(ok, cfg, cb.path, 'push-only-File-with-listed-extension', 'select_ids closure: %s' % why, cb.loc())


def r3(R3, cfg, F):
    b = F.body('<dirs::RecursiveDirectory<T> as asset::Compound>::load')
    cb = F.body('<dirs::RecursiveDirectory<T> as asset::Compound>::load::{closure#0}')
    if not b or not cb:
        R3.missing(cfg, 'RecursiveDirectory::load')
        return
    ld = [c for c in b.calls() if c.callee and c.callee.name == 'load' and 'AnyCache' in c.callee.best]
    sd = [c for c in b.calls() if c.callee and c.callee.defp == 'dirs::DirLoadable::sub_directories']
    ag = [(bb, s) for bb, j, s in b.assigns() if s['rv']['k'] == 'aggregate' and s['rv'].get('adt') == 'dirs::RecursiveDirectory']
    ok = len(ld) == 1 and len(sd) == 1 and len(ag) == 1
    why = 'shape'
    if ok:
        ok = 'dirs::Directory<T>' in ld[0].callee.args and b.origins(ld[0].args[0]) == {('arg', 1)} and b.origins(ld[0].args[1], passthrough=common.pt_deref) == {('arg', 2)}
        why = 'the own directory loaded is not Directory<T> of the same id'
    if ok:
        # both results are tested for Ok before the value is built (`?` or an explicit match: same normal form)
        for call, nm in ((ld[0], 'Directory<T>'), (sd[0], 'sub_directories')):
            if not common.guarded_by_variant(b, ag[0][0], [['call@bb%d' % call.bb]], 0):
                ok = False
                why = 'the error of %s is not propagated' % nm
    if ok:
        # ids start as a clone of the own directory's ids and are what is stored; the closure captures them mutably
        ids_op = ag[0][1]['rv']['ops'][ag[0][1]['rv']['fields'].index('ids')]
        cl = [c for c in b.calls() if c.callee and c.callee.name == 'clone' and 'Vec' in c.callee.best]
        ok = len(cl) == 1 and (b.origins(ids_op) == {('call', cl[0].bb)} or common.deep_path(b, ids_op, at=ag[0][0]) == ['call@bb%d' % cl[0].bb]) and 'ids' in (b.access_path(cl[0].args[0]) or []) \
            and ('call', ld[0].bb) in b.origins(cl[0].args[0], passthrough=common.make_pt(common.TRY_BRANCH, r'Handle::<T>::read$', r'AssetReadGuard<.*> as std::ops::Deref>::deref$'))
        lit = agg_direct(b, sd[0].args[2])
        if lit is None:
            # the closure may be bound to a name before it is passed
            dp = common.strip_refs(common.deep_path(b, sd[0].args[2], at=sd[0].bb)) or ['']     # by value or as `&mut closure`
            m_ = re.match(r'agg@bb(\d+)\.(\d+)$', dp[0]) if len(dp) == 1 else None
            lit = b.blocks[int(m_.group(1))]['stmts'][int(m_.group(2))] if m_ else None

        def is_ids(o):
            return b.origins(o) == {('call', cl[0].bb)} or ('call', cl[0].bb) in b.origins(o, passthrough=common.pt_deref) and not [r for r in b.origins(o, passthrough=common.pt_deref) if r[0] == 'arg']
        ok = ok and lit is not None and lit['rv'].get('closure') == cb.path and any(is_ids(o) for o in lit['rv']['ops']) \
            and b.origins(sd[0].args[0]) == {('arg', 1)} and b.origins(sd[0].args[1]) == {('arg', 2)}
        why = 'the stored ids are not own ids extended by the sub-directory walk of (cache, id)'
    R3.check(ok, cfg, b.path, 'own-dir-then-children', 'RecursiveDirectory::load: %s' % why, b.loc())
    # closure: load RecursiveDirectory<T>(child); extend on Ok only; no early exit / no effect on Err
    ld = [c for c in cb.calls() if c.callee and c.callee.name == 'load' and 'AnyCache' in c.callee.best]
    ex = [c for c in cb.calls() if c.callee and re.search(r'Vec::<T.*>::(extend_from_slice|extend|append)$|Extend', c.callee.best)]
    ok = len(ld) == 1 and len(ex) == 1 and 'dirs::RecursiveDirectory<T>' in ld[0].callee.args and cb.origins(ld[0].args[1]) == {('arg', 2)}
    if ok:
        sw = cb.primary_switch(ld[0].dest['l'])
        okt = cb.variant_edge(sw, 0) if sw is not None else None
        ok = okt is not None and ex[0].bb not in cb.reachable([0], removed_edges=[(sw, okt)])
        if ok:
            errt = [d for d, lab in cb.edges(sw) if d != okt]
            reach = cb.reachable(errt)
            effects = [c for c in cb.calls() if c.bb in reach and c.callee and c.callee.recv_kind() == '&mut self' and not c.exp]
            ok = not effects and bool(reach & set(cb.return_blocks())) and not [c for c in cb.calls() if c.bb in reach and c.target is None]
            def from_ids(op, depth=0):
                # the slice / iterator handed to extend is made from the child's `ids` (.iter(), .cloned(), &[..] ..)
                if 'ids' in (common.deep_path(cb, op) or []):
                    return True
                if depth > 4:
                    return False
                return any(r.args and r.callee and r.callee.name in ('iter', 'cloned', 'copied', 'into_iter', 'deref', 'as_slice', 'clone', 'to_vec', 'into')
                           and from_ids(r.args[0], depth + 1) for r in cb.call_roots(op))
            ok = ok and cb.origins(ex[0].args[0], passthrough=common.pt_deref) == {('upvar', 1)} and from_ids(ex[0].args[1])
    R3.check(ok, cfg, cb.path, 'child-extends-on-Ok-only;Err-skipped', 'a child directory must contribute its ids only when it loads, and a failing child must be skipped without any effect', cb.loc())
    # default sub_directories forwards exactly the Directory arm
    sb = F.body('dirs::DirLoadable::sub_directories')
    rd = [c for c in sb.calls() if c.callee and c.callee.name == 'read_dir'] if sb else []
    scb = None
    if len(rd) == 1 and len(rd[0].args) >= 3:
        # the call-back handed to read_dir, wherever it is written (in the method, or in a helper written in place)
        dp = common.strip_refs(common.deep_path(sb, rd[0].args[2], at=rd[0].bb))
        m_ = re.match(r'agg@bb(\d+)\.(\d+)$', dp[0]) if len(dp) == 1 else None
        lit = sb.blocks[int(m_.group(1))]['stmts'][int(m_.group(2))] if m_ else None
        scb = F.body(lit['rv'].get('closure')) if lit is not None and lit['rv'].get('closure') else None
    if not sb or not scb:
        R3.missing(cfg, 'DirLoadable::sub_directories')
        return
    ok = len(rd) == 1 and sb.origins(rd[0].args[1], passthrough=common.pt_deref) == {('arg', 2)} and (rd[0].dest['l'] == 0 or sb.origins(0) == {('call', rd[0].bb)})
    if ok:
        src = sb.call_roots(rd[0].args[0])
        ok = len(src) == 1 and src[0].callee.name == 'raw_source' and sb.origins(src[0].args[0]) == {('arg', 1)}
    fcall = [c for c in scb.calls() if user_call_kind(c) == 'indirect']
    sw = scb.primary_switch(2)
    adt = F.adt('source::DirEntry')
    ok = ok and len(fcall) == 1 and sw is not None
    if ok:
        didx = [v['idx'] for v in adt['variants'] if v['name'] == 'Directory'][0]
        dt = scb.variant_edge(sw, didx)
        ok = fcall[0].bb not in scb.reachable([0], removed_edges=[(sw, dt)]) and any(lab == 'sw:%d' % didx for _, lab in scb.edges(sw))
        tup = agg_direct(scb, fcall[0].args[1])
        src = scb.downcast_source(tup['rv']['ops'][0]) if tup is not None else None
        if src is None and tup is not None:
            l = tup['rv']['ops'][0]['place']['l']
            for d in scb.defs_of(l):
                if d[0] == 'stmt' and d[3]['rv']['k'] == 'ref':
                    src = scb.downcast_source({'k': 'copy', 'place': {'l': d[3]['rv']['place']['l'], 'p': []}})
        ok = ok and bool(src) and src[0] == 2 and src[1] == 'Directory'
    R3.check(ok, cfg, sb.path, 'forwards-exactly-Directory-entries', 'the default sub_directories must report every Directory entry of the requested directory, and nothing else', sb.loc())


def r4(R4, cfg, F):
    for dty in ('Directory', 'RecursiveDirectory'):
        for meth, adaptor, want, forbidden in (('iter', 'map', 'load', ()), ('iter_cached', 'filter_map', 'get_cached', ('load', 'load_expect', 'load_owned', 'get_or_insert'))):
            b = F.body('dirs::%s::<T>::%s' % (dty, meth))
            if not b:
                R4.missing(cfg, 'dirs::%s::%s' % (dty, meth))
                continue
            ad = [c for c in b.calls() if c.callee and c.callee.trait == 'std::iter::Iterator']
            # the closure handed to the adaptor, wherever it is written (in the method, or in a helper written in place)
            cb = None
            if len(ad) == 1 and len(ad[0].args) == 2:
                lit = agg_direct(b, ad[0].args[1])
                cb = F.body(lit['rv'].get('closure')) if lit is not None and lit['rv'].get('closure') else None
            if not cb:
                R4.missing(cfg, 'dirs::%s::%s: the closure of its one iterator adaptor' % (dty, meth))
                continue
            # what is iterated: self.ids() or self.ids.iter()
            rp = common.deep_path(b, ad[0].args[0], at=ad[0].bb) or []
            src = [c for c in b.calls() if rp == ['call@bb%d' % c.bb]]
            ok = len(src) == 1 and ad[0].callee.name == adaptor and (ad[0].dest['l'] == 0 or b.origins(0) == {('call', ad[0].bb)})
            if ok and src[0].callee and src[0].callee.best == 'dirs::%s::<T>::ids' % dty:
                ok = b.origins(src[0].args[0]) == {('arg', 1)}
            elif ok:
                sp = common.strip_refs(common.deep_path(b, src[0].args[0], at=src[0].bb))
                if sp[:1] and sp[0].startswith('call@bb'):       # <Vec as Deref>::deref(&self.ids)
                    dc = [c for c in b.calls() if 'call@bb%d' % c.bb == sp[0] and c.callee and c.callee.name == 'deref']
                    sp = common.strip_refs(common.deep_path(b, dc[0].args[0], at=dc[0].bb)) if dc else sp
                ok = bool(src[0].callee) and src[0].callee.name == 'iter' and sp == ['arg1', 'ids']
            cs = [c.callee.name for c in cb.calls() if c.callee and 'AnyCache' in c.callee.best]
            ok = ok and cs == [want] and cb.origins([c for c in cb.calls() if c.callee.name == want][0].args[1], passthrough=common.pt_deref) == {('arg', 2)}
            reach = F.reach([cb.path])
            if forbidden:
                ok = ok and 'anycache::RawCache::add_asset' not in reach and '<T as anycache::Cache>::load_entry' not in reach
            R4.check(ok, cfg, b.path, '%s=ids().%s(%s)' % (meth, adaptor, want), '%s::%s must be self.ids().%s(|id| cache.%s(id))' % (dty, meth, adaptor, want), b.loc())
        ib = F.body('dirs::%s::<T>::ids' % dty)
        if ib:
            cs = [c.callee.name for c in ib.calls() if c.callee]
            R4.check(cs in (['iter'], ['deref', 'iter']) and 'ids' in str([ib.access_path(c.args[0]) for c in ib.calls()]), cfg, ib.path, 'ids()=self.ids.iter()', 'ids() must iterate the stored ids; calls %s' % cs, ib.loc())
    for meth in ('select_ids', 'sub_directories'):
        b = F.body('<std::sync::Arc<T> as dirs::DirLoadable>::' + meth)
        if not b:
            R4.missing(cfg, 'Arc<T>::' + meth)
            continue
        cs = [c for c in b.calls() if c.callee and not c.exp]
        ok = len(cs) == 1 and cs[0].callee.defp == 'dirs::DirLoadable::' + meth and cs[0].callee.args[:1] == ['T'] and cs[0].dest['l'] == 0 \
            and [b.origins(a) for a in cs[0].args] == [{('arg', i + 1)} for i in range(len(cs[0].args))]
        R4.check(ok, cfg, b.path, 'Arc<T>-forwards-' + meth, 'Arc<T>::%s must forward to T::%s with the same arguments' % (meth, meth), b.loc())
