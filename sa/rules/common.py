"""Shared rule helpers: passthrough predicates, map-operation classification,
key hash/eq normal forms."""
import re

from mir import enumerate_paths, op_local

MAP_KV = ('utils::private::OwnedKey', 'entry::CacheEntry')

DEREFS = ('std::ops::Deref::deref', 'std::ops::DerefMut::deref_mut')


def is_deref_call(site):
    c = site.callee
    return bool(c) and c.defp in DEREFS


def pt_deref(site):
    """result derived from arg 0 for Deref/DerefMut"""
    return 0 if is_deref_call(site) else None


def make_pt(*patterns):
    """passthrough predicate: deref/deref_mut + callees matching any regex
    (result derives from argument 0)"""
    rxs = [re.compile(p) for p in patterns]
    # (the loop a for_each is rewritten into calls the trait method by its definition path)
    if any('Iterator>::next$' in p for p in patterns):
        rxs.append(re.compile(r'^std::iter::Iterator::next$'))

    def pt(site):
        c = site.callee
        if not c:
            return None
        if c.defp in DEREFS:
            return 0
        for rx in rxs:
            if rx.search(c.best) or rx.search(c.defp):
                return 0
        return None
    return pt


TRY_BRANCH = r'^std::ops::Try::branch$|as std::ops::Try>::branch$'
PT_TRY = make_pt(TRY_BRANCH)


def is_asset_map_type(ty):
    """HashMap<OwnedKey, CacheEntry, ..> (std or the crate's wrapper)"""
    ty = re.sub(r"^(&('\w+ )?(mut )?)+", '', ty.strip())
    return bool(re.match(r'(std::collections::HashMap|utils::private::HashMap)<utils::private::OwnedKey, entry::CacheEntry', ty))


def map_call_kind(site):
    """classify a call that receives the asset map (or one of its Entry
    types) as its first argument, by callee signature:
      READ | ENTRY | KEEP_FIRST | PASS | DESTROY ; None if not a map call"""
    c = site.callee
    if not c or not site.args:
        return None
    a0 = site.args[0]
    ty = a0['place']['ty'] if a0['k'] in ('copy', 'move') else a0.get('ty', '')
    is_map = is_asset_map_type(ty)
    is_entry = bool(re.match(r"(&('\w+ )?(mut )?)*std::collections::hash_map::(Entry|OccupiedEntry|VacantEntry)<.*utils::private::OwnedKey, entry::CacheEntry", ty))
    if not (is_map or is_entry):
        return None
    if is_entry:
        if c.name in ('or_insert', 'or_insert_with', 'or_insert_with_key', 'or_default') and 'hash_map::Entry' in c.best:
            return 'KEEP_FIRST'
        # the arms of `match map.entry(k)`: filling a vacant slot replaces nothing; an occupied one may be looked at
        if c.name in ('insert', 'insert_entry') and 'hash_map::VacantEntry' in c.best:
            return 'KEEP_FIRST'
        if c.name in ('get', 'into_mut', 'get_mut', 'key') and 'hash_map::OccupiedEntry' in c.best:
            return 'READ'
        if c.name in ('key', 'into_key'):
            return 'READ'
        return 'DESTROY'
    # map
    if c.defp in DEREFS:
        return 'PASS'
    if not ty.startswith('&mut') and ty.startswith('&'):
        return 'READ'
    if c.best.startswith('std::collections::HashMap::') and c.name == 'entry':
        return 'ENTRY'
    if ty.startswith('&mut'):
        return 'DESTROY'
    return 'CONSUME'   # by value: moves a whole map


MAP_ROOT_SHARED = re.compile(r'(RwLock::<T>::write|RwLock::<T>::read|RefCell::<T>::borrow_mut|RefCell::<T>::borrow|Mutex::<T>::lock)$')
MAP_ROOT_EXCL = re.compile(r'(RwLock::<T>::get_mut|RefCell::<T>::get_mut|Mutex::<T>::get_mut|RwLock::<T>::into_inner|RefCell::<T>::into_inner)$')


def map_access_mode(body, site):
    """'shared' | 'exclusive' | 'unknown:<roots>' for the &mut map argument"""
    roots = body.origins(site.args[0], passthrough=pt_deref)
    modes = set()
    for r in roots:
        if r[0] == 'call':
            for c in body.calls():
                if c.bb == r[1] and c.callee:
                    if MAP_ROOT_SHARED.search(c.callee.best):
                        modes.add('shared')
                    elif MAP_ROOT_EXCL.search(c.callee.best):
                        # get_mut / into_inner take the lock by &mut / by value: the borrow
                        # checker guarantees the caller has exclusive access to it
                        a = c.args[0]
                        ty = a['place']['ty'] if a['k'] in ('copy', 'move') else ''
                        modes.add('exclusive' if (ty.startswith('&mut') or not ty.startswith('&')) else 'shared')
                    elif re.search(r'HashMap::<K, V(, S)?(, A)?>::(new|with_hasher|with_capacity|with_capacity_and_hasher|default)$', c.callee.best):
                        modes.add('fresh')
                    else:
                        modes.add('unknown:' + c.callee.best)
        elif r[0] == 'arg':
            ty = body.local_ty(r[1])
            modes.add('exclusive' if ty.startswith('&mut') or not ty.startswith('&') else 'shared')
        elif r[0] in ('agg',):
            continue
        else:
            modes.add('unknown:' + str(r))
    if modes == {'fresh'}:
        return 'fresh'
    if modes == {'exclusive'}:
        return 'exclusive'
    if 'shared' in modes:
        return 'shared'
    return 'unknown:' + ','.join(sorted(modes))


# ---- hash / eq normal forms ---------------------------------------------------


def leaf_type_norm(ty):
    ty = ty.strip()
    while ty.startswith('&'):
        ty = re.sub(r"^&('\w+ )?(mut )?", '', ty)
    return {'utils::string::SharedString': 'str', 'std::string::String': 'str'}.get(ty, ty)


def _with_delegates(F, body, name, trait):
    """an impl that forwards to another impl of the same trait in this crate (`(self as &dyn Key).hash(h)`) is analysed
    with that impl written in place"""
    def family(ty):
        # the key types themselves (owned / borrowed / dyn views), not the leaves they are made of
        t = leaf_type_norm(ty or '')
        return t.startswith('dyn ') or bool(re.match(r"^(utils::private::\w*Key|hot_reloading::(records|dependencies)::\w*(Dependency|Key))\b", t))
    dels = sorted({c.callee.best for c in body.calls() if c.callee and c.callee.name == name and c.callee.trait == trait
                   and c.callee.best != body.path and F.body(c.callee.best) is not None and family(c.callee.self_ty)})
    return F.view(body.path, dels, through_traits=True) if dels else body


def hash_sequence(F, body, depth=0):
    """ordered list of (field-or-accessor, leaf type) hashed by a Hash::hash body.
    Follows in-crate `as_borrowed()`-style forwarding one level."""
    body = _with_delegates(F, body, 'hash', 'std::hash::Hash')
    out = []
    for c in body.calls():
        if c.exp and c.callee and c.callee.trait != 'std::hash::Hash':
            continue
        cal = c.callee
        if not cal or cal.name != 'hash' or cal.trait != 'std::hash::Hash':
            continue
        ap = body.access_path(c.args[0])
        src = None
        if ap:
            if ap[0] == 'arg1':
                names = [t for t in ap[1:] if t not in ('*', '&')]
                src = names[0] if names else 'self'
            elif ap[0].startswith('call@bb'):
                bb = int(ap[0][7:])
                cs = [x for x in body.calls() if x.bb == bb]
                if cs and cs[0].callee:
                    src = cs[0].callee.name + '()'
        lt = leaf_type_norm(cal.self_ty or '?')
        if src == 'self' and depth < 2 and (lt.startswith('dyn ') or re.match(r'^utils::private::\w*Key\b', lt)):
            tb = F.body('<%s as std::hash::Hash>::hash' % lt) or (F.find(r"^<%s(<'\w+>)? as std::hash::Hash>::hash$" % re.escape(lt)) or [None])[0]
            if tb is not None and tb.path != body.path:
                out += hash_sequence(F, tb, depth + 1)
                continue
        out.append((src, lt))
    return out


def eq_structure(F, body, _depth=0):
    """Analyse a PartialEq::eq body: returns (fields, ok, why).
    fields = ordered list of (accessor, leaf type) compared; ok = the result
    is the conjunction of all of them (any false => false)."""
    body = _with_delegates(F, body, 'eq', 'std::cmp::PartialEq')
    eqs = []
    for c in body.calls():
        cal = c.callee
        if cal and cal.name == 'eq' and cal.trait == 'std::cmp::PartialEq':
            eqs.append(c)
    fields = []
    for c in eqs:
        aps = [body.access_path(a) for a in c.args[:2]]
        names = []
        for i, ap in enumerate(aps):
            nm = None
            if ap and ap[0] == 'arg%d' % (i + 1):
                fs = [t for t in ap[1:] if t not in ('*', '&')]
                nm = fs[0] if fs else 'self'
            elif ap and ap[0].startswith('call@bb'):
                bb = int(ap[0][7:])
                cs = [x for x in body.calls() if x.bb == bb]
                if cs and cs[0].callee:
                    inner = body.access_path(cs[0].args[0]) if cs[0].args else None
                    if inner and inner[0] == 'arg%d' % (i + 1):
                        nm = cs[0].callee.name + '()'
            names.append(nm)
        if names[0] is None or names[0] != names[1]:
            return fields, False, 'comparison at %s relates %s with %s' % (c.loc(), aps[0], aps[1])
        lt = leaf_type_norm(c.callee.self_ty or '?')
        if names[0] == 'self' and _depth < 2 and (lt.startswith('dyn ') or re.match(r'^utils::private::\w*Key\b', lt)):
            # `self as &dyn Key == other as &dyn Key`: the whole key is compared through another view of it -- what is
            # compared is what that view compares
            tb = F.body('<%s as std::cmp::PartialEq>::eq' % lt) or (F.find(r"^<%s(<'\w+>)? as std::cmp::PartialEq>::eq$" % re.escape(lt)) or [None])[0]
            if tb is not None and tb.path != body.path:
                f2, ok2, why2 = eq_structure(F, tb, _depth + 1)
                if not ok2:
                    return fields, False, 'through %s: %s' % (tb.path, why2)
                fields += f2
                continue
        fields.append((names[0], lt))
    paths = enumerate_paths(body)
    if paths is None:
        return fields, False, 'too many paths'
    by_bb = {c.bb: c for c in eqs}
    for p in paths:
        if p.end != 'return':
            continue
        # which eqs were executed and which edge was taken after each
        passed = set()
        failed = False
        last_eq_to_ret = None
        for c in eqs:
            if c.bb not in p.blocks:
                continue
            # find switch controlled by c on this path
            val = None
            for bb, lab in p.decisions:
                t = body.blocks[bb]['term']
                if ('call', c.bb) in body.origins(t['discr']):
                    val = lab
            if val is None:
                last_eq_to_ret = c
            elif val == 'sw:0':
                failed = True
            else:
                passed.add(c.bb)
        # returned value on this path
        ret = None
        for bb, j, s in p.stmts():
            if s['place']['l'] == 0 and not s['place']['p'] and s['rv']['k'] == 'use':
                ret = body.access_path(s['rv']['op'])
        if last_eq_to_ret is not None and last_eq_to_ret.dest['l'] == 0:
            ret = ['call@bb%d' % last_eq_to_ret.bb]
        if failed:
            if ret != ['const:false']:
                return fields, False, 'a failed field comparison does not yield false'
        else:
            executed = passed | ({last_eq_to_ret.bb} if last_eq_to_ret else set())
            if executed != set(by_bb):
                return fields, False, 'a path returns without comparing every field'
            if last_eq_to_ret is None or ret != ['call@bb%d' % last_eq_to_ret.bb]:
                if ret != ['const:true'] or executed != set(by_bb):
                    return fields, False, 'result is not the conjunction of the field comparisons'
    return fields, True, ''


# ---- user code / blocking sites ---------------------------------------------------

USER_TRAITS = ('source::Source', 'asset::Compound', 'asset::Asset', 'loader::Loader', 'dirs::DirLoadable')
FN_TRAIT_CALLS = ('std::ops::FnOnce::call_once', 'std::ops::FnMut::call_mut', 'std::ops::Fn::call')


def user_call_kind(site):
    """'indirect' (fn pointer / dyn Fn / generic F: Fn*), 'trait:<T>' for an
    unresolved call into a user-implementable trait, else None"""
    t = site.term
    if t.get('indirect'):
        return 'indirect'
    c = site.callee
    if not c:
        return 'indirect'
    if c.defp in FN_TRAIT_CALLS:
        if c.resolved is None or c.rkind in ('virtual', 'fnptr_shim', 'other'):
            return 'indirect'
        if c.rkind == 'closure_once_shim':
            return None
        if not c.rlocal:
            return 'indirect'
        return None
    if c.trait in USER_TRAITS and (c.resolved is None or c.rkind == 'virtual' or c.resolved == c.defp):
        return 'trait:' + c.trait
    return None


BLOCKING = re.compile(
    r'^crossbeam_channel::(Sender::<T>::send|Receiver::<T>::recv|Receiver::<T>::recv_timeout|Select::<.a>::(ready|select|ready_timeout|select_timeout))$'
    r'|^std::sync::Condvar::wait|^parking_lot::Condvar::wait|^utils::private::Condvar::wait_while$'
    r'|^std::thread::(sleep|park)|JoinHandle::<T>::join$'
    r'|^std::sync::mpsc::')
LOCK_ACQUIRE = re.compile(
    r'^utils::private::(RwLock::<T>::(read|write)|Mutex::<T>::lock)$'
    r'|^std::sync::(RwLock|Mutex)::<T>::(read|write|lock)$'
    r'|^(parking_lot::)?lock_api::(RwLock|Mutex|ReentrantMutex)::<R, T>::(read|write|lock|upgradable_read|read_recursive)$'
    r'|^std::cell::RefCell::<T>::(borrow|borrow_mut)$')
GUARD_TY = re.compile(r'^(std::sync::(RwLockReadGuard|RwLockWriteGuard|MutexGuard)|(parking_lot::)?lock_api::\w+Guard|parking_lot::\w+Guard|std::cell::(Ref|RefMut))<')


def guards_of(b, target_bb):
    """the conditions under which `target_bb` runs: every live non-cleanup switch with exactly one edge through
    which target_bb stays reachable.  Returns [(switch_bb, edge_target, label, tested)] where `tested` is
    ('discr', access_path-of-the-enum-place) for a discriminant test and ('val', access_path) otherwise."""
    out = []
    live = b.live_blocks(unwind=False)
    for bb, t in b.terms():
        if t['k'] != 'switch' or b.blocks[bb]['cleanup'] or bb not in live:
            continue
        es = b.edges(bb)
        keep = [(d, lab) for d, lab in es
                if target_bb in b.reachable([0], removed_edges=[(bb, o) for o, _ in es if o != d])]
        if len(keep) != 1 or len({d for d, _ in es}) < 2:
            continue
        if target_bb not in b.reachable([bb]):
            continue
        tested = None
        if t['discr']['k'] in ('copy', 'move'):
            l = t['discr']['place']['l']
            if not t['discr']['place']['p']:
                ds = [d for d in b.defs_of(l) if d[0] == 'stmt']
                if len(ds) > 1:     # jump threading copies `d = discriminant(x)`: the copy in this block is the one read here
                    ds = [d for d in ds if d[1] == bb] or ds
                if len(ds) == 1 and ds[0][3]['rv']['k'] == 'discr':
                    pl = ds[0][3]['rv']['place']
                    tested = ('discr', b.access_path({'k': 'copy', 'place': pl}, at=bb))
        if tested is None:
            tested = ('val', b.access_path(t['discr'], at=bb))
        out.append((bb, keep[0][0], keep[0][1], tested))
    return out


def inevitable(b, guards, target_bb):
    """with every guard satisfied (all other edges of the guard switches removed), control cannot return
    without passing through target_bb"""
    removed = []
    for sw, d, _, _ in guards:
        removed += [(sw, o) for o, _ in b.edges(sw) if o != d]
    r = b.reachable([0], removed_edges=removed, removed_blocks=[target_bb])
    return not (r & set(b.return_blocks()))


def arg_path(site, i):
    """deep path of the i-th argument of a call, resolved at the call site (reaching definitions)"""
    return deep_path(site.body, site.args[i], at=site.bb) if i < len(site.args) else None


def deep_path(b, op_or_path, max_hops=8, at=None):
    """access_path that also looks through tuple/struct aggregates built in the same body:
    ['agg@bbN.i', 'k', ...] continues with the path of the k-th operand of that aggregate"""
    if op_or_path is None:
        return None
    ap = op_or_path if isinstance(op_or_path, list) else b.access_path(op_or_path, at=at)
    for _ in range(max_hops):
        if not ap or not ap[0].startswith('agg@') or len(ap) < 2:
            break
        m = re.match(r'agg@bb(\d+)\.(\d+)$', ap[0])
        st = b.blocks[int(m.group(1))]['stmts'][int(m.group(2))]
        ops = st['rv'].get('ops') or []
        if ap[1].startswith('as:') and len(ap) >= 3 and st['rv'].get('variant_name') == ap[1][3:]:
            # Ok(x) built here and read back as (.. as Ok).0 (a helper written in place returns it, the caller matches on it)
            ap = [ap[0]] + ap[2:]
        fields = st['rv'].get('fields') or []
        if ap[1].isdigit():
            k = int(ap[1])
        elif ap[1] in fields:
            k = fields.index(ap[1])
        else:
            break
        if k >= len(ops):
            break
        inner = b.access_path(ops[k], at=int(m.group(1)))
        if inner is None:
            return None
        ap = inner + ap[2:]
        # `&x` followed by a deref cancels
        out = []
        for e in ap:
            if e == '*' and out and out[-1] == '&':
                out.pop()
            else:
                out.append(e)
        ap = out
    return ap


def _cancel(ap):
    out = []
    for e in ap:
        if e == '*' and out and out[-1] == '&':
            out.pop()
        else:
            out.append(e)
    return out


def closure_sites(parent, closure_path):
    """(bb, idx, stmt) of the statements of `parent` that build the closure `closure_path`"""
    return [(bb, j, s) for bb, j, s in parent.assigns() if s['rv'].get('closure') == closure_path]


def through_closure(parent, closure_body, op_or_path):
    """path of a value used inside a closure, expressed in the body that builds the closure:
    ['arg1', k, ...] (captured variable k) continues with the k-th captured operand in `parent`"""
    ap = deep_path(closure_body, op_or_path)
    if not ap or ap[0] != 'arg1':
        return ap
    rest = ap[1:]
    if rest and rest[0] == '*':
        rest = rest[1:]
    if not rest or not rest[0].isdigit():
        return ap
    sites = closure_sites(parent, closure_body.path)
    if len(sites) != 1:
        return None
    ops = sites[0][2]['rv']['ops']
    k = int(rest[0])
    if k >= len(ops):
        return None
    inner = deep_path(parent, ops[k])
    if inner is None:
        return None
    return _cancel(inner + rest[1:])


def guard_variant(b, g):
    """variant index selected by a guard (switch_bb, edge_target, label, tested) of guards_of on a discriminant"""
    sw, _, lab, _ = g
    if lab.startswith('sw:'):
        return int(lab[3:])
    listed = {int(v) for v, _ in b.blocks[sw]['term']['targets']}
    rest = [k for k in (0, 1) if k not in listed]
    return rest[0] if len(rest) == 1 else None


def guarded_by_variant(b, site_bb, paths, variant, depth=0):
    """the block runs only when the enum value at one of `paths` (deep paths) has the given variant index -- tested
    directly, or through a bool that was set to a constant on each arm of such a test (`let init = x.is_some(); .. if init`)"""
    for g in guards_of(b, site_bb):
        if g[3][0] == 'discr' and deep_path(b, g[3][1]) in paths and guard_variant(b, g) == variant:
            return True
        if g[3][0] == 'val' and depth < 3:
            t = b.blocks[g[0]]['term']
            l = t['discr']['place']['l'] if t['discr']['k'] in ('copy', 'move') and not t['discr']['place']['p'] else None
            hops = 0
            while l is not None and hops < 4:     # through plain copies of the flag
                ds = [d for d in b.defs_of(l) if d[0] in ('stmt', 'call')]
                if len(ds) == 1 and ds[0][0] == 'stmt' and ds[0][3]['rv']['k'] == 'use' and ds[0][3]['rv']['op']['k'] in ('copy', 'move') \
                        and not ds[0][3]['rv']['op']['place']['p']:
                    l = ds[0][3]['rv']['op']['place']['l']
                    hops += 1
                else:
                    break
            ds = [d for d in b.defs_of(l) if d[0] in ('stmt', 'call')] if l is not None else []
            if len(ds) >= 2 and all(d[0] == 'stmt' and d[3]['rv']['k'] == 'use' and d[3]['rv']['op']['k'] == 'const' and 'bits' in d[3]['rv']['op'] for d in ds):
                want_true = g[2] != 'sw:0'
                mine = [d for d in ds if (d[3]['rv']['op']['bits'] != '0') == want_true]
                if mine and all(guarded_by_variant(b, d[1], paths, variant, depth + 1) for d in mine):
                    return True
    return False


def switch_test(b, bb):
    """what the switch ending block bb tests: ('discr', access path of the enum place) | ('val', access path)"""
    t = b.blocks[bb]['term']
    if t['k'] != 'switch':
        return None
    if t['discr']['k'] in ('copy', 'move') and not t['discr']['place']['p']:
        ds = [d for d in b.defs_of(t['discr']['place']['l']) if d[0] == 'stmt']
        ds = [d for d in ds if d[1] == bb] or ds
        # after jump threading the discriminant read may exist in several copies of the same statement
        pls = {json_key(d[3]['rv']['place']) for d in ds if d[3]['rv']['k'] == 'discr'}
        if ds and len(pls) == 1 and all(d[3]['rv']['k'] == 'discr' for d in ds):
            return ('discr', b.access_path({'k': 'copy', 'place': ds[0][3]['rv']['place']}, at=bb))
    return ('val', b.access_path(t['discr'], at=bb))


def json_key(x):
    import json
    return json.dumps(x, sort_keys=True)


def strip_refs(ap):
    return [e for e in (ap or []) if e not in ('&', '*')]


def reload_waits_for_own_token(rl):
    """HotReloader::reload on the normal form: (ok, why).  The Ptr message carries the token just drawn; wait_for_answer
    runs exactly when send returned Ok (only then, and on every such path), with that token."""
    tok = [c for c in rl.calls() if c.callee and c.callee.name == 'get_unique_token']
    snd = [c for c in rl.calls() if c.callee and c.callee.best == 'crossbeam_channel::Sender::<T>::send']
    wt = [c for c in rl.calls() if c.callee and c.callee.name == 'wait_for_answer']
    if not (len(tok) == 1 and len(snd) == 1 and len(wt) == 1):
        return False, 'shape: one get_unique_token, one send, one wait_for_answer expected (found %d, %d, %d)' % (len(tok), len(snd), len(wt))
    tk = ['call@bb%d' % tok[0].bb]
    if deep_path(rl, wt[0].args[1]) != tk:
        return False, 'wait_for_answer does not wait for the token drawn by this call'
    from mir import agg_stmts
    msg = [s for s in agg_stmts(rl, snd[0].args[1]) if s['rv'].get('variant_name') == 'Ptr']
    def leaves(st, depth=0):
        # the operands of the message, through a private struct that groups them
        out = []
        for o in st['rv'].get('ops') or []:
            from mir import agg_direct
            sub = agg_direct(rl, o) if o.get('k') in ('copy', 'move') and depth < 2 else None
            if sub is not None and sub['rv'].get('ops'):
                out += leaves(sub, depth + 1)
            else:
                out.append(o)
        return out
    if len(msg) != 1 or not any(deep_path(rl, o) == tk for o in leaves(msg[0])):
        return False, 'the message sent does not carry the token drawn by this call'
    g = [x for x in guards_of(rl, wt[0].bb) if x[3][0] == 'discr']
    mine = [x for x in g if deep_path(rl, x[3][1]) == ['call@bb%d' % snd[0].bb] and guard_variant(rl, x) == 0]
    if not mine:
        return False, 'wait_for_answer is reachable although the message was not sent (it would block forever)'
    if not inevitable(rl, mine, wt[0].bb):
        return False, 'after a successful send a path returns without waiting for the answer (hot_reload would return before the reloads are done)'
    return True, ''


def returns_is_variant(b, variant):
    """for a bool function on the normal form: the deep path P such that the function returns true exactly when the
    enum at P has the given variant index (x.is_some() / matches!(x, Some(_)) / match x {..}), else None"""
    rets = [(bb, s) for bb, _, s in b.assigns() if s['place']['l'] == 0 and not s['place']['p']]
    if not rets:
        return None
    paths = set()
    for bb, s in rets:
        if s['rv']['k'] != 'use' or s['rv']['op'].get('k') != 'const' or s['rv']['op'].get('text') not in ('true', 'false'):
            return None
        val = s['rv']['op']['text'] == 'true'
        g = [x for x in guards_of(b, bb) if x[3][0] == 'discr']
        if len(g) != 1:
            return None
        v = guard_variant(b, g[0])
        if (v == variant) != val:
            return None
        paths.add(tuple(strip_refs(deep_path(b, g[0][3][1]))))
    return list(paths.pop()) if len(paths) == 1 else None


def runs_iff_hot_reloaded_and_reloader(b, site, reloader_arg=0):
    """(ok, why): the call `site` runs exactly when typ.is_hot_reloaded() is true and <cache>.reloader() is Some (both
    tested, nothing else, and then inevitably), and receives that very reloader as argument `reloader_arg`"""
    g = guards_of(b, site.bb)
    roots = {'call@bb%d' % c.bb: c.callee.best for c in b.calls() if c.callee}
    tests = []
    for x in g:
        ap = deep_path(b, x[3][1]) or ['?']
        nm = roots.get(ap[0], ap[0]) if len(ap) == 1 else '/'.join(ap)
        nm = 'reloader()' if nm.endswith('::reloader') else nm
        tests.append((x[2] != 'sw:0' if x[3][0] == 'val' else guard_variant(b, x) == 1, x[3][0], nm))
    tests.sort(key=str)
    want = [(True, 'discr', 'reloader()'), (True, 'val', 'key::Type::is_hot_reloaded')]
    if tests != want:
        return False, 'conditions found: %s (want: the type is hot-reloaded and the cache has a reloader)' % tests
    if not inevitable(b, g, site.bb):
        return False, 'a path on which the type is hot-reloaded and the cache has a reloader skips it'
    rl = [k for k, v in roots.items() if v.endswith('::reloader')]
    if reloader_arg is not None and arg_path(site, reloader_arg) not in [[k, 'as:Some', '0'] for k in rl]:
        return False, 'it is not given the reloader of this cache'
    return True, ''


def records_iff_hot_reloaded_and_reloader(b, rec_path='hot_reloading::records::record'):
    """asset::load_and_record on the normal form: (ok, why, record call)"""
    rc = [c for c in b.calls() if c.callee and c.callee.best == rec_path]
    if len(rc) != 1:
        return False, 'shape: exactly one records::record call expected', None
    ok, why = runs_iff_hot_reloaded_and_reloader(b, rc[0])
    return ok, ('the load is not recorded exactly when the type is hot-reloaded and the cache has a reloader: ' + why) if not ok else '', rc[0]


_NEG = {'Eq': 'Ne', 'Ne': 'Eq', 'Lt': 'Ge', 'Ge': 'Lt', 'Gt': 'Le', 'Le': 'Gt'}
_FLIP = {'Eq': 'Eq', 'Ne': 'Ne', 'Lt': 'Gt', 'Gt': 'Lt', 'Le': 'Ge', 'Ge': 'Le'}


def comparison_guards(b, site_bb):
    """relations that hold whenever `site_bb` runs, from guards that test a comparison `x <op> const`:
    [(deep path of x, relation in Eq/Ne/Lt/Le/Gt/Ge, constant text, switch_bb, kept target)] (normalised so that the constant is on the right)"""
    out = []
    for sw, tgt, lab, tst in guards_of(b, site_bb):
        t = b.blocks[sw]['term']
        if t['discr']['k'] not in ('copy', 'move') or t['discr']['place']['p']:
            continue
        l = t['discr']['place']['l']
        ds = [d for d in b.defs_of(l) if d[0] == 'stmt']
        ds = [d for d in ds if d[1] == sw] or ds
        for _ in range(6):      # the flag may be moved (out of a helper written in place) before it is tested
            if len(ds) == 1 and ds[0][3]['rv']['k'] == 'use' and ds[0][3]['rv']['op']['k'] in ('copy', 'move') and not ds[0][3]['rv']['op']['place']['p']:
                ds = [d for d in b.defs_of(ds[0][3]['rv']['op']['place']['l']) if d[0] == 'stmt']
            else:
                break
        if len(ds) != 1 or ds[0][3]['rv']['k'] != 'binop' or ds[0][3]['rv']['op'] not in _NEG:
            continue
        rv = ds[0][3]['rv']
        op, a, c = rv['op'], rv['a'], rv['b']
        if a.get('k') == 'const' and c.get('k') != 'const':
            a, c, op = c, a, _FLIP[op]
        if c.get('k') != 'const':
            continue
        if lab == 'sw:0':
            op = _NEG[op]
        out.append((deep_path(b, a, at=ds[0][1]), op, re.sub(r'_[iu](8|16|32|64|128|size)$', '', c.get('text', '')), sw, tgt))
    return out


PT_CONV = make_pt(r'Into<U>>::into$', r'From<.*>>::from$', r'Clone>::clone$', r'ToOwned>::to_owned$', r'Deref>::deref$')


def trace_to_entry(F, body, op, entries, depth=0):
    """follow a value up to a parameter of one of the `entries` functions: through conversions (into / from / clone),
    closure captures (to the function that builds the closure) and, for a private function with a single call site, to
    the argument passed there.  Returns (entry path, parameter number) or None."""
    if depth > 8 or body is None:
        return None
    roots = body.origins(op, passthrough=PT_CONV)
    if len(roots) != 1:
        return None
    r = list(roots)[0]
    if r[0] == 'upvar':
        parent = F.body(body.parent) or F.dropped(body.parent)
        if parent is None:
            return None
        lits = closure_sites(parent, body.path)
        if len(lits) != 1 or r[1] >= len(lits[0][2]['rv']['ops']):
            return None
        return trace_to_entry(F, parent, lits[0][2]['rv']['ops'][r[1]], entries, depth + 1)
    if r[0] == 'arg':
        if body.kind == 'Closure':
            return None     # a parameter of the closure itself (supplied by whoever calls it)
        if body.path in entries:
            return (body.path, r[1])
        sites = [c for c in F.all_calls() if c.callee and (c.callee.best == body.path or c.callee.resolved == body.path)]
        if len(sites) != 1 or r[1] - 1 >= len(sites[0].args):
            return None
        return trace_to_entry(F, sites[0].body, sites[0].args[r[1] - 1], entries, depth + 1)
    return None


def call_truth_guards(b, site_bb):
    """[(call site, truth)]: `site_bb` runs only when the bool returned by that call had that truth value (the value
    may be copied, moved out of an inlined helper, or negated with `!` on the way to the branch)"""
    out = []
    for sw, tgt, lab, tst in guards_of(b, site_bb):
        if tst[0] != 'val':
            continue
        t = b.blocks[sw]['term']
        if t['discr']['k'] not in ('copy', 'move') or t['discr']['place']['p']:
            continue
        l = t['discr']['place']['l']
        truth = (lab != 'sw:0')
        at = sw
        for _ in range(8):
            ds = [d for d in b.defs_of(l) if d[0] in ('stmt', 'call')]
            if len(ds) > 1:
                ds = [d for d in ds if d[1] == at] or ds
            if len(ds) != 1:
                break
            d = ds[0]
            if d[0] == 'call':
                out.append((d[2], truth))
                break
            rv = d[3]['rv']
            if rv['k'] == 'use' and rv['op']['k'] in ('copy', 'move') and not rv['op']['place']['p']:
                l = rv['op']['place']['l']
                at = d[1]
            elif rv['k'] == 'unop' and str(rv.get('op', '')).lower().startswith('not') and rv['a']['k'] in ('copy', 'move') and not rv['a']['place']['p']:
                l = rv['a']['place']['l']
                truth = not truth
                at = d[1]
            else:
                break
    return out


def find_visit(F):
    """the depth-first visit of the dependency graph: DepsGraph::visit, or -- if it was moved / renamed -- the one
    self-recursive function of hot_reloading::dependencies"""
    b = F.body('hot_reloading::dependencies::DepsGraph::visit')
    if b:
        return b
    cands = [x for x in F.fn_bodies() if x.path.startswith('hot_reloading::dependencies::') and x.kind != 'Closure'
             and any(c.callee and c.callee.best == x.path for c in x.calls())]
    return cands[0] if len(cands) == 1 else None


RUN_UPDATE = 'hot_reloading::paths::run_update'
RELOAD = 'hot_reloading::dependencies::DepsGraph::reload'
TOPO = 'hot_reloading::dependencies::DepsGraph::topological_sort_from'


def update_passes(F):
    """{function path: body in which the update pass (sort the change set, reload each key) is written out}.
    Today the pass is the free function run_update, called from three HotReloadingData methods; it may as well be a
    private method or be written in each of them.  The free function (if it exists) is inlined into its callers, so
    the result is the same in every case: the functions that *run* an update, with the pass in their body."""
    out = {}
    for b in F.fn_bodies():
        if b.kind == 'Closure' or b.path == RUN_UPDATE:
            continue
        v = F.view(b.path, [RUN_UPDATE]) if any(c.callee and c.callee.best == RUN_UPDATE for c in b.calls()) else b
        if any(c.callee and c.callee.best in (RELOAD, TOPO) for u in [v] + [x for x in F.unit(b) if x is not b] for c in u.calls()):
            out[b.path] = v
    return out


def base_path(b, op, at=None, depth=0):
    """deep path of a value with the std view-changing calls peeled off (deref / deref_mut / as_ref / as_mut / iter ..):
    `(*map).insert(..)` and `map.contains_key(..)` have the same base"""
    ap = strip_refs(deep_path(b, op, at=at))
    if ap and ap[0].startswith('call@bb') and depth < 5:
        site = [c for c in b.calls() if 'call@bb%d' % c.bb == ap[0]]
        if site and site[0].callee and site[0].callee.name in ('deref', 'deref_mut', 'as_ref', 'as_mut', 'borrow', 'borrow_mut', 'iter', 'into_iter', 'iter_mut') and site[0].args:
            return base_path(b, site[0].args[0], at=site[0].bb, depth=depth + 1)
    return ap


def value_built_from(b, op, at=None):
    """the deep path of `op` without references; a one-operand aggregate (`Dependency::Asset(key)`, `Wrapper(key)`) is
    looked through, so that a key wrapped for the look-up still names the parameter it was made from"""
    dp = strip_refs(deep_path(b, op, at=at))
    for _ in range(3):
        m = re.match(r'agg@bb(\d+)\.(\d+)$', dp[0]) if dp and len(dp) == 1 else None
        if not m:
            break
        ops = b.blocks[int(m.group(1))]['stmts'][int(m.group(2))]['rv'].get('ops') or []
        if len(ops) != 1:
            break
        dp = strip_refs(deep_path(b, ops[0], at=int(m.group(1))))
    return dp


def users_of_fn(F, path):
    """root functions of the bodies that mention the function `path` at all -- as a callee or as a value (a fn item handed to
    a combinator or to a helper taking a callback)"""
    import json
    needle = json.dumps(path)
    out = set()
    for b in F.bodies.values():
        if b.path == path or b.promoted is not None:
            continue
        if needle in json.dumps(b.raw.get('blocks')):
            out.add(b.root if b.kind == 'Closure' else b.path)
    return out


def reach_bool(b, start, limit=4000):
    """blocks reachable from `start` when booleans are followed path-sensitively: a local assigned a constant, a copy of a
    known local or its negation has a known value, and a switch on a known value takes only its edge (what `let ok =
    matches!(..); if !ok {..}` needs)."""
    seen, out = set(), set()
    work = [(start, ())]
    while work and len(seen) < limit:
        bb, st = work.pop()
        if (bb, st) in seen:
            continue
        seen.add((bb, st))
        out.add(bb)
        env = dict(st)
        for s_ in b.blocks[bb]['stmts']:
            if s_['k'] != 'assign' or s_['place']['p']:
                continue
            l, rv, v = s_['place']['l'], s_['rv'], None
            if rv['k'] == 'use' and rv['op']['k'] == 'const' and rv['op'].get('ty') == 'bool':
                v = rv['op'].get('text') == 'true'
            elif rv['k'] == 'use' and rv['op']['k'] in ('copy', 'move') and not rv['op']['place']['p']:
                v = env.get(rv['op']['place']['l'])
            elif rv['k'] == 'unop' and str(rv.get('op', '')).lower().startswith('not') and rv['a']['k'] in ('copy', 'move') and not rv['a']['place']['p']:
                x = env.get(rv['a']['place']['l'])
                v = (not x) if x is not None else None
            if v is None:
                env.pop(l, None)
            else:
                env[l] = v
        t = b.blocks[bb]['term']
        if t['k'] == 'call' and not t['dest']['p']:
            env.pop(t['dest']['l'], None)
        nxt = [d for d, _ in b.edges(bb, False)]
        if t['k'] == 'switch' and t['discr']['k'] in ('copy', 'move') and not t['discr']['place']['p'] and t['discr']['place']['l'] in env:
            v = '1' if env[t['discr']['place']['l']] else '0'
            tg = t['otherwise']
            for val, x in t['targets']:
                if str(val) == v:
                    tg = x
            nxt = [t['folded']] if 'folded' in t else [tg]
        st2 = tuple(sorted(env.items()))
        for d in nxt:
            work.append((d, st2))
    return out
