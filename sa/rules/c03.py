"""C03 -- a load returns what the source holds: extension order, defaults, errors.
Necessary structural clauses (DESIGN.md section 4, C03)."""
import re

import common
from c02 import r2 as insert_after_success
from common import user_call_kind
from mir import agg_direct, agg_stmts, enumerate_paths, op_bare_local

LEVEL = 'other'
EXPLANATION = (
    'Path and dominance rules on the MIR of asset::load_from_source and its closures, plus an exhaustive decision '
    'table of ErrorKind::or: (R1) the loop iterates T::EXTENSIONS directly (no iterator adaptor), the first Ok '
    'returns that payload without another iteration, each Err is folded into the accumulator with ErrorKind::or; '
    '(R2) the 4x4 table of ErrorKind::or over {NoDefaultValue, Io(NotFound), Io(other), Conversion}^2, extracted '
    'from its discriminant switches and the kind()==NotFound test, satisfies class(result) = max(class(self), '
    'class(other)) in all 16 cases; (R3) every exit that did not load successfully goes through '
    'T::default_value(id, accumulated error); (R4) a Compound error is wrapped with the requested id, an Ok value '
    'goes unmodified into CacheEntry::new; (R5) FileContent::with_cow hands the whole payload of each variant to the '
    'loader; C02.R2: failure caches nothing. Not decided: byte-exactness of sources and loaders.')
TRUSTED = ['rustc MIR construction', 'amfacts driver + rule engine in /verif/sa']

CLASSES = ['NoDefaultValue', 'Io(NotFound)', 'Io(other)', 'Conversion']


def run(ctx):
    rep = ctx.report
    R1 = rep.rule('C03.R1', 'extensions in declared order, first Ok wins, errors folded with ErrorKind::or', floor=4)
    R2 = rep.rule('C03.R2', 'ErrorKind::or error-precedence table (16 cases): result class = max', floor=16)
    R3 = rep.rule('C03.R3', 'default_value decides on every non-Ok exit', floor=1)
    R4 = rep.rule('C03.R4', 'errors name the requested id; Ok payload goes unmodified into the entry', floor=3)
    R5 = rep.rule('C03.R5', 'with_cow passes the whole payload of every FileContent variant', floor=3)
    S1 = rep.rule('C02.R2', 'failure caches nothing (shared with C02)', floor=2)
    R6 = rep.rule('C03.R6', 'trait defaults: default_value returns the error it is given, EXTENSIONS defaults to [EXTENSION], an Asset is loaded through load_from_source(cache.raw_source(), id)', floor=3)
    S2 = rep.rule('C05.R1', '"the first declared extension whose file can be read" stays true under hot-reloading: a file that was tried and not found is recorded as a dependency, so that its creation is noticed (shared with C05)', floor=5)
    for cfg, F in ctx.cfgs():
        if 'hot-reloading' in ctx.cfg_features[cfg]:
            from c05 import r1 as record_before_read
            record_before_read(S2, cfg, F)
            S2.finish_cfg(cfg)
        r6(R6, cfg, F)
        R6.finish_cfg(cfg)
        r1(R1, R3, cfg, F)
        r2(R2, cfg, F)
        r4(R4, cfg, F)
        r5(R5, cfg, F)
        insert_after_success(S1, cfg, F)
        for r in (R1, R2, R3, R4, R5, S1):
            r.finish_cfg(cfg)


def r1(R1, R3, cfg, F):
    b = F.body('asset::load_from_source')
    if not b:
        R1.missing(cfg, 'asset::load_from_source')
        return
    it = [c for c in b.calls() if c.callee and c.callee.name == 'into_iter']
    nx = [c for c in b.calls() if c.callee and c.callee.name == 'next' and c.callee.trait == 'std::iter::Iterator']
    adaptors = [c.callee.name for c in b.calls() if c.callee and c.callee.trait == 'std::iter::Iterator' and c.callee.name != 'next']
    ok = len(it) == 1 and len(nx) == 1 and not adaptors and it[0].args[0].get('uneval') == 'asset::Asset::EXTENSIONS' \
        and b.origins(nx[0].args[0], passthrough=common.make_pt(r'IntoIterator.*::into_iter$')) == {('const', it[0].args[0]['text'])}
    R1.check(ok, cfg, b.path, 'iterates-T::EXTENSIONS-in-order', 'the loop must iterate T::EXTENSIONS directly, in declared order (found source %s, adaptors %s)'
             % (it[0].args[0].get('text') if it else '?', adaptors), b.loc())
    if not (len(it) == 1 and len(nx) == 1):
        return
    # the per-extension attempt (a closure / nested fn / plain statements: written in place on the normal form):
    # source.read(id, ext) -> Ok(content) -> content.with_cow(|c| Loader::load(c, ext)) -> Ok(asset) -> return Ok(asset)
    nx = nx[0]
    rd = [c for c in b.calls() if c.callee and c.callee.defp == 'source::Source::read']
    wc = [c for c in b.calls() if c.callee and c.callee.best == "source::FileContent::<'a>::with_cow"]
    if len(rd) != 1 or len(wc) != 1:
        R1.unrecognised(cfg, b.path, 'one Source::read and one FileContent::with_cow per iteration', b.loc())
        return
    rd, wc = rd[0], wc[0]
    strip = common.strip_refs
    elem = ['call@bb%d' % nx.bb, 'as:Some', '0']
    R1.check(strip(common.arg_path(rd, 2))[:3] == elem, cfg, b.path, 'tries-the-extension-just-yielded', 'each iteration must try the extension yielded by the iterator', rd.loc())
    def param_of(op, depth=0):
        ap = strip(common.deep_path(b, op, at=rd.bb))
        if ap and ap[0].startswith('call@bb') and depth < 3:
            site = [c for c in b.calls() if 'call@bb%d' % c.bb == ap[0]]
            if site and site[0].callee and site[0].callee.name in ('deref', 'as_str', 'as_ref', 'borrow') and site[0].args:
                return param_of(site[0].args[0], depth + 1)
        return ap
    src_ok = param_of(rd.args[0]) == ['arg1'] and param_of(rd.args[1]) == ['arg2']
    dec_ok = common.arg_path(wc, 0) == ['call@bb%d' % rd.bb, 'as:Ok', '0']
    R1.check(src_ok and dec_ok, cfg, b.path, 'read(id,ext)?-then-loader-on-its-content', 'an attempt must read exactly (id, ext) and decode exactly the content that was read', rd.loc())
    lit = agg_direct(b, wc.args[1])
    lb = F.body(lit['rv']['closure']) if lit is not None and lit['rv'].get('closure') else None
    if lb:
        ld = [c for c in lb.calls() if c.callee and c.callee.defp == 'loader::Loader::load']
        ok = len(ld) == 1 and lb.access_path(ld[0].args[0]) == ['arg2'] and ld[0].dest['l'] == 0 and len(lit['rv']['ops']) >= 1
        if ok:
            # the extension given to the loader is the captured one, which is the extension being tried
            up = lb.origins(ld[0].args[1], passthrough=common.pt_deref)
            ok = len(up) == 1 and list(up)[0][0] == 'upvar' and strip(common.deep_path(b, lit['rv']['ops'][list(up)[0][1]], at=wc.bb))[:3] == elem
        R1.check(ok, cfg, lb.path, 'loader-gets-content-and-ext', 'the loader must receive the content unchanged and the extension being tried', lb.loc())
    else:
        R1.missing(cfg, 'the closure given to with_cow')
    # first Ok ends the loop and is returned as is
    me = ['call@bb%d' % wc.bb, 'as:Ok', '0']
    oks = [(bb, s) for bb, _, s in b.assigns() if s['place']['l'] == 0 and not s['place']['p'] and s['rv']['k'] == 'aggregate' and s['rv'].get('variant_name') == 'Ok'
           and common.deep_path(b, s['rv']['ops'][0], at=bb) == me]
    ok = len(oks) == 1 and common.guarded_by_variant(b, oks[0][0], [['call@bb%d' % wc.bb]], 0) and common.guarded_by_variant(b, oks[0][0], [['call@bb%d' % rd.bb]], 0) \
        and nx.bb not in b.reachable([oks[0][0]]) and bool(b.reachable([oks[0][0]]) & set(b.return_blocks()))
    R1.check(ok, cfg, b.path, 'first-Ok-returns-that-asset', 'the first extension that loads must end the loop and be returned as is', rd.loc())
    # every failed attempt (read error or decoding error) is folded into the accumulated error, and the loop goes on
    orc = [c for c in b.calls() if c.callee and c.callee.best == 'error::ErrorKind::or']
    err_edges = []
    for bb, t in b.terms():
        if t['k'] == 'switch' and not b.blocks[bb]['cleanup'] and bb in b.live_blocks(unwind=False):
            tst = common.switch_test(b, bb)
            if tst and tst[0] == 'discr' and common.deep_path(b, tst[1]) in (['call@bb%d' % rd.bb], ['call@bb%d' % wc.bb]):
                e = b.variant_edge(bb, 1)
                if e is not None:
                    err_edges.append(e)
    okf = len(orc) == 1 and len(err_edges) >= 2
    why_fold = 'each failing extension must be folded into the accumulated error with ErrorKind::or(new, accumulated) (overwriting loses a more specific earlier error)'
    acc = None
    if okf:
        o = orc[0]
        pt_err = common.make_pt(r'From<.*>>::from$|^std::convert::From::from$', r'Into<U>>::into$')
        sides = [b.origins(a, passthrough=pt_err) for a in o.args[:2]]
        errs = [x for x in sides if x & {('call', rd.bb), ('call', wc.bb)}]
        accs = [x for x in sides if ('call', o.bb) in x and any(r[0] == 'agg' and b.blocks[r[1]]['stmts'][r[2]]['rv'].get('variant_name') == 'NoDefaultValue' for r in x)]
        okf = len(errs) == 1 and len(accs) == 1 and nx.bb in b.reachable([o.target])
        acc = accs[0] if okf else None
        if okf:
            if nx.bb in b.reachable(err_edges, removed_blocks=[o.bb]):
                okf = False
                why_fold = 'a failed attempt can reach the next iteration without folding its error with ErrorKind::or'
            elif b.reachable(err_edges, removed_blocks=[nx.bb]) & set(b.return_blocks()):
                okf = False
                why_fold = ('a failed attempt can leave the loop (break / return) before the remaining extensions were tried: a later extension that loads, '
                            'or default_value, is then decided on an incomplete picture')
    R1.check(okf, cfg, b.path, 'errors-folded-with-ErrorKind::or', why_fold, orc[0].loc() if orc else b.loc())
    # R3
    dv = [c for c in b.calls() if c.callee and c.callee.defp == 'asset::Asset::default_value']
    ok = len(dv) == 1 and dv[0].dest['l'] == 0 and common.guarded_by_variant(b, dv[0].bb, [['call@bb%d' % nx.bb]], 0)
    if ok:
        g = [x for x in common.guards_of(b, dv[0].bb) if x[3][0] == 'discr' and common.deep_path(b, x[3][1]) == ['call@bb%d' % nx.bb]]
        ok = common.inevitable(b, g, dv[0].bb) and b.origins(dv[0].args[0], passthrough=common.pt_deref) == {('arg', 2)}
        conv = b.call_roots(dv[0].args[1])
        ok1 = len(conv) == 1 and conv[0].callee.name == 'into' and acc is not None and ('call', orc[0].bb) in b.origins(conv[0].args[0]) \
            and any(r[0] == 'agg' for r in b.origins(conv[0].args[0]))
        if ok and not ok1 and acc is not None:
            # the conversion ErrorKind -> BoxedError may be a private method written in place: what reaches default_value must
            # still be made from the folded error (and from the NoDefaultValue it starts as), by conversions only
            pt_c = common.make_pt(r'From<.*>>::from$|^std::convert::From::from$', r'Into<U>>::into$', r'^std::boxed::Box::<T>::new$')
            ro = b.origins(dv[0].args[1], passthrough=pt_c)
            ok1 = ('call', orc[0].bb) in ro and not [r for r in ro if r[0] == 'arg'] \
                and not [r for r in ro if r[0] == 'call' and r[1] not in (orc[0].bb, rd.bb, wc.bb)]
        ok = ok and ok1
    R3.check(ok, cfg, b.path, 'default_value(id, accumulated error)-on-exhaustion', 'when no extension loads, T::default_value(id, accumulated error) must decide the result', dv[0].loc() if dv else b.loc())
    # io errors become Io, loader errors become Conversion
    for frm, var in (('std::io::Error', 'Io'), ('std::boxed::Box<dyn std::error::Error + std::marker::Send + std::marker::Sync>', 'Conversion')):
        fb = [x for x in F.fn_bodies() if x.path.startswith('<error::ErrorKind as std::convert::From<') and x.path.endswith('>::from') and frm.split('<')[0] in x.path]
        if len(fb) != 1:
            R1.missing(cfg, 'From<%s> for ErrorKind' % frm)
            continue
        ag = [s for _, _, s in fb[0].assigns() if s['place']['l'] == 0 and s['rv']['k'] == 'aggregate']
        R1.check(len(ag) == 1 and ag[0]['rv'].get('variant_name') == var, cfg, fb[0].path, 'classifies-as-' + var, 'conversion must classify the error as ErrorKind::%s' % var, fb[0].loc())


def or_paths(b):
    """decision-table extraction of ErrorKind::or (primitive P6)"""
    # the (self, other) tuple
    tup = [(bb, j, s) for bb, j, s in b.assigns() if s['rv']['k'] == 'aggregate' and s['rv'].get('tuple') and len(s['rv']['ops']) == 2]
    side_of_local = {}
    if len(tup) == 1:
        ops = tup[0][2]['rv']['ops']
        if b.origins(ops[0]) == {('arg', 1)} and b.origins(ops[1]) == {('arg', 2)}:
            side_of_local[tup[0][2]['place']['l']] = None   # tuple local: field index = side
    t_local = tup[0][2]['place']['l'] if len(tup) == 1 else None

    def side_of_place(pl):
        """0 = self, 1 = other for a place rooted at the tuple or at an argument"""
        if pl['l'] == t_local:
            fs = [e for e in pl['p'] if isinstance(e, dict) and 'f' in e]
            return fs[0]['f'] if fs else None
        if pl['l'] in (1, 2) and pl['l'] != t_local:
            return pl['l'] - 1      # matched directly (`match self { .. => match other { .. } }`)
        # through references handed to a helper written in place (`self.yields_to(&other)`)
        ap = common.strip_refs(common.deep_path(b, {'k': 'copy', 'place': pl}))
        if ap and ap[0] in ('arg1', 'arg2') and t_local is None:
            return int(ap[0][3:]) - 1
        return None

    def resolve_side(op, depth=0):
        if op['k'] not in ('copy', 'move') or depth > 10:
            return None
        s = side_of_place(op['place'])
        if s is not None:
            return s
        defs = [d for d in b.defs_of(op['place']['l']) if d[0] == 'stmt']
        if len(defs) == 1:
            rv = defs[0][3]['rv']
            if rv['k'] in ('use', 'cast'):
                return resolve_side(rv['op'], depth + 1)
            if rv['k'] in ('ref', 'discr'):
                return resolve_side({'k': 'copy', 'place': rv['place']}, depth + 1)
        return None
    return t_local, resolve_side, side_of_place


def payload_place(b, op, hops=12):
    """follow whole-value moves back to the place (with projections) the value was taken from"""
    if op['k'] not in ('copy', 'move'):
        return None
    pl = op['place']
    for _ in range(hops):
        if pl['p']:
            return pl
        defs = [d for d in b.defs_of(pl['l']) if d[0] in ('stmt', 'call')]
        if len(defs) != 1 or defs[0][0] != 'stmt' or defs[0][3]['rv']['k'] != 'use' or defs[0][3]['rv']['op']['k'] not in ('copy', 'move'):
            return None
        pl = defs[0][3]['rv']['op']['place']
    return None


def r2(R2, cfg, F):
    b = F.body('error::ErrorKind::or')
    adt = F.adt('error::ErrorKind')
    if not b or not adt:
        R2.missing(cfg, 'error::ErrorKind::or')
        return
    vidx = {v['name']: v['idx'] for v in adt['variants']}
    if sorted(vidx) != ['Conversion', 'Io', 'NoDefaultValue']:
        R2.unrecognised(cfg, b.path, 'ErrorKind variants %s' % sorted(vidx), b.loc())
        return
    t_local, resolve_side, side_of_place = or_paths(b)
    paths = enumerate_paths(b, max_paths=4096)
    if paths is None:
        R2.unrecognised(cfg, b.path, 'paths / (self, other) tuple', b.loc())
        return
    # promoted NotFound
    # (the constant may belong to a helper that was written in place: owners = this function and what was inlined into it)
    owners = {b.path} | set(b.raw.get('inlined') or [])
    pb = [x for x in F.bodies.values() if x.owner in owners and x.promoted is not None]
    notfound_ok = any(any(s['rv']['k'] == 'aggregate' and s['rv'].get('variant_name') == 'NotFound' for _, _, s in x.assigns()) for x in pb)

    def classify_switch(bb):
        t = b.blocks[bb]['term']
        d = t['discr']
        l = op_bare_local(d)
        if l is not None and b._is_drop_flag(l):
            return ('flag',)
        defs = [x for x in b.defs_of(l)] if l is not None else []
        if len(defs) > 1:   # copies made by jump threading: the one in this block is read here
            defs = [x for x in defs if x[1] == bb] or defs
        for _ in range(6):  # through plain moves (a helper returning the flag, written in place)
            if len(defs) == 1 and defs[0][0] == 'stmt' and defs[0][3]['rv']['k'] == 'use' and op_bare_local(defs[0][3]['rv']['op']) is not None:
                defs = [x for x in b.defs_of(op_bare_local(defs[0][3]['rv']['op']))]
            else:
                break
        if len(defs) == 1 and defs[0][0] == 'stmt' and defs[0][3]['rv']['k'] == 'discr':
            pl = defs[0][3]['rv']['place']
            side = None
            nf = len([e for e in pl['p'] if isinstance(e, dict) and 'f' in e])
            if (pl['l'] == t_local and nf == 1) or (pl['l'] in (1, 2) and pl['l'] != t_local and nf == 0):
                side = side_of_place(pl)
            elif t_local is None and nf == 0 and common.strip_refs(common.deep_path(b, {'k': 'copy', 'place': pl})) in (['arg1'], ['arg2']):
                side = side_of_place(pl)
            if side is not None:
                return ('variant', side)
        if not (len(defs) == 1 and defs[0][0] == 'call'):
            # several copies of the flag (jump threading): the definition that reaches this switch
            ap = b.access_path(d, at=bb)
            if ap and len(ap) == 1 and ap[0].startswith('call@bb'):
                site = [x for x in b.calls() if 'call@bb%d' % x.bb == ap[0]]
                if site:
                    defs = [('call', site[0].bb, site[0])]
        if len(defs) == 1 and defs[0][0] == 'call':
            c = defs[0][2]
            if c.callee and c.callee.name == 'eq' and c.callee.self_ty == 'std::io::ErrorKind':
                k = b.call_roots(c.args[0])
                if len(k) == 1 and k[0].callee and k[0].callee.best == 'std::io::Error::kind' and notfound_ok and 'promoted' in str(b.origins(c.args[1])):
                    side = resolve_side(k[0].args[0])
                    if side is not None:
                        return ('notfound', side)
        return None
    rows = []
    for p in paths:
        if p.end != 'return':
            continue
        cons = []
        okp = True
        for bb, lab in p.decisions:
            if b.blocks[bb]['cleanup']:
                continue
            k = classify_switch(bb)
            if k is None:
                okp = False
                break
            if k[0] == 'flag':
                continue
            t = b.blocks[bb]['term']
            if k[0] == 'variant':
                listed = {int(v) for v, _ in t['targets']}
                allowed = {int(lab[3:])} if lab.startswith('sw:') else set(vidx.values()) - listed
                cons.append(('variant', k[1], allowed))
            else:
                cons.append(('notfound', k[1], lab != 'sw:0'))
        if not okp:
            R2.unrecognised(cfg, b.path, 'a switch that is neither a variant test, the NotFound test nor a drop flag', b.loc())
            return
        res = None
        for bb, j, s in p.stmts():
            if s['place']['l'] == 0 and not s['place']['p']:
                if s['rv']['k'] == 'use':
                    res = resolve_side(s['rv']['op'])
                elif s['rv']['k'] == 'aggregate' and s['rv'].get('adt') == 'error::ErrorKind' and len(s['rv']['ops']) == 1:
                    # the same variant rebuilt around the payload of one side: Io(err) with err = self's io error
                    pl = payload_place(b, s['rv']['ops'][0])
                    res = None
                    if pl is not None and pl['l'] == t_local:
                        fs = [e for e in pl['p'] if isinstance(e, dict)]
                        if len(fs) >= 3 and 'f' in fs[0] and fs[1].get('n') == s['rv'].get('variant_name') and 'downcast' in fs[1]:
                            res = fs[0]['f']
                    elif pl is not None and pl['l'] in (1, 2):
                        fs = [e for e in pl['p'] if isinstance(e, dict)]
                        if len(fs) >= 2 and fs[0].get('n') == s['rv'].get('variant_name') and 'downcast' in fs[0]:
                            res = pl['l'] - 1
                else:
                    res = None
        rows.append((cons, res))

    def feasible(cons, cs, co):
        for c in cons:
            cls = cs if c[1] == 0 else co
            var = {0: vidx['NoDefaultValue'], 1: vidx['Io'], 2: vidx['Io'], 3: vidx['Conversion']}[cls]
            if c[0] == 'variant':
                if var not in c[2]:
                    return False
            else:
                if cls not in (1, 2):
                    return False   # kind() only exists on an Io error
                if (cls == 1) != c[2]:
                    return False
        return True
    for cs in range(4):
        for co in range(4):
            results = {res for cons, res in rows if feasible(cons, cs, co)}
            got = None
            if len(results) == 1 and None not in results:
                got = cs if results == {0} else co
            want = max(cs, co)
            R2.check(got == want, cfg, b.path, 'or(%s, %s)' % (CLASSES[cs], CLASSES[co]),
                     'ErrorKind::or(%s, %s) yields %s, expected %s (decoding error > I/O error > not found > no default value)'
                     % (CLASSES[cs], CLASSES[co], CLASSES[got] if got is not None else 'ambiguous/none %s' % results, CLASSES[want]), b.loc(),
                     row={'self': CLASSES[cs], 'other': CLASSES[co], 'result': CLASSES[got] if got is not None else None})


def r4(R4, cfg, F):
    b = F.body('key::Inner::of_asset::load_entry')
    if not b:
        R4.missing(cfg, 'key::Inner::of_asset::load_entry')
        return
    ld = [c for c in b.calls() if c.callee and c.callee.defp == 'asset::Compound::load']
    en = [c for c in b.calls() if c.callee and c.callee.best == 'error::Error::new']
    ce = [c for c in b.calls() if c.callee and c.callee.best == 'entry::CacheEntry::new']
    ok = len(ld) == 1 and len(en) == 1 and len(ce) == 1
    if ok:
        ok = b.origins(ld[0].args[0]) == {('arg', 1)} and b.origins(ld[0].args[1]) == {('arg', 2)}
    R4.check(ok, cfg, b.path, 'loads-(cache,id)', 'the entry loader must call T::load(cache, &id)', b.loc())
    if ok:
        s = b.downcast_source(en[0].args[1])
        e_ok = b.access_path(en[0].args[0]) == ['arg2'] and bool(s) and s[0] == ld[0].dest['l'] and s[1] == 'Err'
        errs = [x for _, _, x in b.assigns() if x['place']['l'] == 0 and x['rv']['k'] == 'aggregate' and x['rv'].get('variant_name') == 'Err']
        e_ok = e_ok and len(errs) == 1 and b.access_path(errs[0]['rv']['ops'][0]) == ['call@bb%d' % en[0].bb]
        R4.check(e_ok, cfg, b.path, 'Err-wrapped-with-requested-id', 'a loader error must be returned as Error::new(requested id, that error)', en[0].loc())
        s = b.downcast_source(ce[0].args[0])
        v_ok = bool(s) and s[0] == ld[0].dest['l'] and s[1] == 'Ok' and b.access_path(ce[0].args[1]) == ['arg2']
        oks = [x for _, _, x in b.assigns() if x['place']['l'] == 0 and x['rv']['k'] == 'aggregate' and x['rv'].get('variant_name') == 'Ok']
        v_ok = v_ok and len(oks) == 1 and b.access_path(oks[0]['rv']['ops'][0]) == ['call@bb%d' % ce[0].bb]
        R4.check(v_ok, cfg, b.path, 'Ok-value-stored-unmodified', 'the loaded value must go unmodified, with the requested id, into CacheEntry::new', ce[0].loc())
    nb = F.body('error::Error::new')
    if nb:
        ag = [s for _, _, s in nb.assigns() if s['rv']['k'] == 'aggregate' and s['rv'].get('adt') == 'error::ErrorRepr']
        ok = len(ag) == 1
        if ok:
            f = dict(zip(ag[0]['rv']['fields'], ag[0]['rv']['ops']))
            ok = nb.access_path(f['id']) == ['arg1'] and nb.access_path(f['error']) == ['arg2']
        R4.check(ok, cfg, nb.path, 'Error{id,error}=(id,error)', 'Error::new must store the id and error it is given', nb.loc())
    else:
        R4.missing(cfg, 'Error::new')


def r5(R5, cfg, F):
    b = F.one(r"^source::FileContent::<'a>::with_cow$")
    adt = F.adt('source::FileContent')
    if not b or not adt:
        R5.missing(cfg, 'FileContent::with_cow')
        return
    sw = b.discr_switches(1)
    calls = [c for c in b.calls()]
    names = sorted({c.callee.name for c in calls if c.callee})
    R5.check(set(names) <= {'call_once', 'as_ref', 'deref', 'borrow'}, cfg, b.path, 'no-narrowing-callee', 'with_cow must only forward the content; it calls %s' % names, b.loc())
    if len(sw) < 1:
        R5.unrecognised(cfg, b.path, 'match on self', b.loc())
        return
    psw = b.primary_switch(1)
    # the calls of `f`, and the Cow values that reach them (built in each arm and passed at once, or built in each arm and
    # passed by one call after the match)
    fs = [c for c in calls if user_call_kind(c) == 'indirect' and b.origins(c.args[0]) == {('arg', 2)}]
    reaching = set()
    fs_ok = bool(fs) and ({('call', c.bb) for c in fs} >= {r for r in b.origins(0) if r[0] == 'call'}) and bool(b.origins(0))
    for c in fs:
        tup = agg_direct(b, c.args[1])
        if tup is None or not tup['rv'].get('tuple'):
            fs_ok = False
            continue
        for r in b.origins(tup['rv']['ops'][0]):
            if r[0] == 'agg' and b.blocks[r[1]]['stmts'][r[2]]['rv'].get('adt') == 'std::borrow::Cow':
                reaching.add((r[1], r[2]))
    for v in adt['variants']:
        t = b.variant_edge(psw, v['idx'])
        cows = [(bb, j, st) for bb, j, st in b.assigns() if st['rv']['k'] == 'aggregate' and st['rv'].get('adt') == 'std::borrow::Cow'
                and common.guarded_by_variant(b, bb, [['arg1']], v['idx'])]
        ok = fs_ok and len(cows) == 1 and (cows[0][0], cows[0][1]) in reaching \
            and not (b.reachable([t], removed_blocks=[c.bb for c in fs]) & set(b.return_blocks()))
        if ok:
            cow = [cows[0][2]]
            if ok:
                op = cow[0]['rv']['ops'][0]
                src = b.downcast_source(op)
                if src is None:
                    # (*b).as_ref() for the boxed owner (possibly parked in a local that outlives the borrow)
                    r = b.call_roots(op)
                    if len(r) == 1 and r[0].callee.name == 'as_ref':
                        ap = common.strip_refs(common.deep_path(b, r[0].args[0], at=r[0].bb))
                        if ap[:2] == ['arg1', 'as:' + v['name']]:
                            src = (1, v['name'])
                        else:
                            l = op_bare_local(r[0].args[0])
                            for d in b.defs_of(l) if l is not None else []:
                                if d[0] == 'stmt' and d[3]['rv']['k'] == 'ref':
                                    base = d[3]['rv']['place']['l']
                                    for d2 in b.defs_of(base):
                                        if d2[0] == 'stmt' and d2[3]['rv']['k'] == 'cast':
                                            src = b.downcast_source({'k': 'copy', 'place': {'l': d2[3]['rv']['op']['place']['l'], 'p': []}})
                                        elif d2[0] == 'stmt' and d2[3]['rv']['k'] == 'use':
                                            src = b.downcast_source(d2[3]['rv']['op']) or src
                ok = bool(src) and src[0] == 1 and src[1] == v['name']
        R5.check(ok, cfg, b.path, 'passes-whole-%s-payload' % v['name'], 'the %s arm must pass its whole payload to the loader' % v['name'], '%s:%s' % (b.file, b.blocks[t]['term']['line']))


def r6(R6, cfg, F):
    b = F.body('asset::Asset::default_value')
    if b:
        errs = [s for _, _, s in b.assigns() if s['place']['l'] == 0 and s['rv']['k'] == 'aggregate']
        ok = not b.calls() and len(errs) == 1 and errs[0]['rv'].get('variant_name') == 'Err' and b.origins(errs[0]['rv']['ops'][0]) == {('arg', 2)}
        R6.check(ok, cfg, b.path, 'default-default_value=Err(error)', 'the default default_value must fail with the very error it is given (so that the preferred error reaches the caller)', b.loc())
    else:
        R6.missing(cfg, 'Asset::default_value')
    eb = F.bodies.get('asset::Asset::EXTENSIONS')
    if eb:
        txt = str([s['rv'] for _, _, s in eb.assigns()]) + str([str(x.raw.get('blocks')) for x in F.bodies.values() if x.owner == 'asset::Asset::EXTENSIONS'])
        R6.check('asset::Asset::EXTENSION' in txt or '<Self as asset::Asset>::EXTENSION' in txt, cfg, 'asset::Asset::EXTENSIONS', 'default-EXTENSIONS=[EXTENSION]',
                 'the default EXTENSIONS must be the one-element list [Self::EXTENSION]')
    else:
        R6.missing(cfg, 'Asset::EXTENSIONS default')
    lb = F.body('<T as asset::Compound>::load')
    if lb:
        rs = [c for c in lb.calls() if c.callee and c.callee.name == 'raw_source']
        ld = [c for c in lb.calls() if c.callee and c.callee.best == 'asset::load_from_source']
        ok = len(rs) == 1 and len(ld) == 1 and lb.origins(rs[0].args[0]) == {('arg', 1)} and lb.origins(ld[0].args[0]) == {('call', rs[0].bb)} \
            and lb.origins(ld[0].args[1]) == {('arg', 2)} and ld[0].dest['l'] == 0 and ld[0].callee.args[:1] == ['T'] \
            and not common.guards_of(lb, ld[0].bb) and common.inevitable(lb, [], ld[0].bb)      # whatever the type's extension list is: default_value has its say in load_from_source
        R6.check(ok, cfg, lb.path, 'Asset-loads-via-load_from_source(raw_source,id)', 'an Asset must be loaded from the (recording) source of the cache it is loaded into, under the requested id', lb.loc())
    else:
        R6.missing(cfg, 'impl Compound for T: Asset')
    ab = F.body('<std::sync::Arc<T> as asset::Compound>::load')
    if ab:
        ld = [c for c in ab.calls() if c.callee and c.callee.defp == 'asset::Compound::load']
        nw = [c for c in ab.calls() if c.callee and c.callee.best == 'std::sync::Arc::<T>::new']
        ok = len(ld) == 1 and len(nw) == 1 and [ab.origins(a) for a in ld[0].args] == [{('arg', 1)}, {('arg', 2)}]
        if ok:
            ok = common.deep_path(ab, nw[0].args[0]) == ['call@bb%d' % ld[0].bb, 'as:Ok', '0']
        R6.check(ok, cfg, ab.path, 'Arc<T>=Arc::new(T::load(cache,id)?)', 'Arc<T> must load exactly T for the same (cache, id)', ab.loc())
