#!/usr/bin/env python3
"""Run every check on behaviour-preserving edits: each <dir>/*.diff is applied to
a scratch copy of /repo (outside /repo and /verif, removed afterwards) and
`./check all` must stay silent on it.  Any VIOLATION is a false alarm of the
machinery (or the edit is not benign after all -- to be judged by reading).

  sa/benigncheck.py <dir-with-diffs> [-j N] [--witness] [--only regex]
"""
import argparse
import concurrent.futures as cf
import glob
import json
import os
import re
import shutil
import subprocess
import sys
import tempfile

HERE = os.path.dirname(os.path.abspath(__file__))
VERIF = os.path.dirname(HERE)
REPO = '/repo'


def one(patch, witness):
    tmp = tempfile.mkdtemp(prefix='ambenign-')
    try:
        dst = os.path.join(tmp, 'repo')
        shutil.copytree(REPO, dst, ignore=shutil.ignore_patterns('target', '.git'))
        p = subprocess.run('git init -q && git add -A && git -c user.email=x@x -c user.name=x commit -qm base && git apply --whitespace=nowarn %s' % patch,
                           cwd=dst, shell=True, stdout=subprocess.PIPE, stderr=subprocess.STDOUT, text=True)
        if p.returncode != 0:
            return patch, 'patch-does-not-apply', [p.stdout[-400:]]
        env = dict(os.environ, AM_REPO=dst, AM_EVID=os.path.join(tmp, 'ev'), AM_CACHE=os.path.join(tmp, 'cache'), AM_NO_SELFTEST='1')
        if not witness:
            env['AM_NO_WITNESS'] = '1'
        try:
            p = subprocess.run([os.path.join(VERIF, 'check'), 'all', '--tier', 'quick'], cwd=VERIF, env=env, stdout=subprocess.PIPE, stderr=subprocess.STDOUT, text=True, timeout=900)
        except subprocess.TimeoutExpired:
            return patch, 'ALARM', ['TIMEOUT: the checks did not finish in 15 minutes']
        fired = []
        for line in p.stdout.splitlines():
            if line.startswith('VIOLATION'):
                rp = line.split('replay=')[1].strip()
                try:
                    r = json.load(open(rp))
                    fired.append('%s %s @ %s :: %s -- %s' % (r['property'], r['rule'], r['function'], r['detail'], r.get('message', '')[:300]))
                except Exception:
                    fired.append(line)
            if line.startswith('CHECK-ERROR'):
                fired.append(line + ' ' + p.stdout[-600:])
        return patch, 'silent' if not fired and p.returncode == 0 else 'ALARM', fired
    finally:
        shutil.rmtree(tmp, ignore_errors=True)


def main():
    ap = argparse.ArgumentParser()
    ap.add_argument('dir')
    ap.add_argument('-j', type=int, default=6)
    ap.add_argument('--witness', action='store_true')
    ap.add_argument('--only')
    a = ap.parse_args()
    patches = sorted(glob.glob(os.path.join(a.dir, '*.diff')))
    if a.only:
        patches = [p for p in patches if re.search(a.only, os.path.basename(p))]
    bad = 0
    with cf.ThreadPoolExecutor(a.j) as ex:
        for patch, verdict, fired in ex.map(lambda p: one(p, a.witness), patches):
            print('%-8s %s' % (verdict, os.path.basename(patch)))
            for f in sorted(set(fired)):
                print('         ' + f)
            bad += verdict != 'silent'
    print('%d edit(s), %d not silent' % (len(patches), bad))
    return 1 if bad else 0


if __name__ == '__main__':
    sys.exit(main())
