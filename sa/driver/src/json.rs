//! Minimal JSON value + writer (the driver has no cargo dependencies).

pub enum J {
    Null,
    Bool(bool),
    Num(i64),
    Str(String),
    Arr(Vec<J>),
    Obj(Vec<(&'static str, J)>),
}

impl J {
    pub fn obj(v: Vec<(&'static str, J)>) -> J {
        J::Obj(v)
    }

    pub fn write(&self, out: &mut String) {
        match self {
            J::Null => out.push_str("null"),
            J::Bool(b) => out.push_str(if *b { "true" } else { "false" }),
            J::Num(n) => out.push_str(&n.to_string()),
            J::Str(s) => write_str(s, out),
            J::Arr(a) => {
                out.push('[');
                for (i, x) in a.iter().enumerate() {
                    if i > 0 {
                        out.push(',');
                    }
                    x.write(out);
                }
                out.push(']');
            }
            J::Obj(o) => {
                out.push('{');
                for (i, (k, v)) in o.iter().enumerate() {
                    if i > 0 {
                        out.push(',');
                    }
                    write_str(k, out);
                    out.push(':');
                    v.write(out);
                }
                out.push('}');
            }
        }
    }
}

fn write_str(s: &str, out: &mut String) {
    out.push('"');
    for c in s.chars() {
        match c {
            '"' => out.push_str("\\\""),
            '\\' => out.push_str("\\\\"),
            '\n' => out.push_str("\\n"),
            '\r' => out.push_str("\\r"),
            '\t' => out.push_str("\\t"),
            c if (c as u32) < 0x20 => out.push_str(&format!("\\u{:04x}", c as u32)),
            c => out.push(c),
        }
    }
    out.push('"');
}
