//! amfacts: rustc_private driver that dumps the type-checked program of the
//! `assets_manager` crate (MIR with resolved callees + ADT/impl/const facts)
//! as one JSON file, written in a single write.
//!
//! Used as RUSTC_WORKSPACE_WRAPPER: argv = [amfacts, <rustc>, args...].
//! Output: $AMFACTS_OUT/<crate_name>.json for crates named in $AMFACTS_CRATES
//! (default "assets_manager"). Every other crate is compiled unchanged.
#![feature(rustc_private)]
#![allow(clippy::all)]

extern crate rustc_abi;
extern crate rustc_driver;
extern crate rustc_hir;
extern crate rustc_interface;
extern crate rustc_middle;
extern crate rustc_session;
extern crate rustc_span;

mod json;
use json::J;

use rustc_hir::def::DefKind;
use rustc_hir::def_id::{DefId, LocalDefId, LOCAL_CRATE};
use rustc_middle::mir::{
    self, AggregateKind, BasicBlockData, Body, CastKind, Const, ConstValue, Operand, Place,
    ProjectionElem, Rvalue, StatementKind, TerminatorKind, UnwindAction,
};
use rustc_middle::ty::print::with_no_trimmed_paths;
use rustc_middle::ty::{self, GenericArgsRef, Instance, Ty, TyCtxt, TypingEnv};
use rustc_span::Span;

struct Cb;

impl rustc_driver::Callbacks for Cb {
    fn after_analysis<'tcx>(
        &mut self,
        _compiler: &rustc_interface::interface::Compiler,
        tcx: TyCtxt<'tcx>,
    ) -> rustc_driver::Compilation {
        let name = tcx.crate_name(LOCAL_CRATE).to_string();
        let wanted = std::env::var("AMFACTS_CRATES").unwrap_or_else(|_| "assets_manager".into());
        if wanted.split(',').any(|w| w == name) {
            if let Ok(out) = std::env::var("AMFACTS_OUT") {
                let j = with_no_trimmed_paths!(dump_crate(tcx, &name));
                let mut s = String::with_capacity(1 << 24);
                j.write(&mut s);
                let path = format!("{}/{}.json", out, name);
                let tmp = format!("{}.tmp{}", path, std::process::id());
                std::fs::write(&tmp, s).expect("write facts");
                std::fs::rename(&tmp, &path).expect("rename facts");
            }
        }
        rustc_driver::Compilation::Continue
    }
}

fn main() {
    let mut args: Vec<String> = std::env::args().collect();
    // wrapper mode: argv[1] is the path of the real rustc
    if args.len() > 1 && (args[1].ends_with("rustc") || args[1].contains("/rustc")) {
        args.remove(1);
    }
    rustc_driver::install_ice_hook("https://example.invalid/", |_| ());
    let code = rustc_driver::catch_with_exit_code(|| {
        rustc_driver::run_compiler(&args, &mut Cb);
    });
    std::process::exit(if code == std::process::ExitCode::SUCCESS { 0 } else { 1 });
}

// ---------------------------------------------------------------------------

fn s(x: impl ToString) -> J {
    J::Str(x.to_string())
}

fn span_j(tcx: TyCtxt<'_>, sp: Span) -> (String, i64, bool) {
    let exp = sp.from_expansion();
    // the call-site in user code for macro-generated spans
    let sp2 = sp.source_callsite();
    let sm = tcx.sess.source_map();
    let loc = sm.lookup_char_pos(sp2.lo());
    let file = match &loc.file.name {
        rustc_span::FileName::Real(r) => match r.local_path() {
            Some(p) => p.display().to_string(),
            None => format!("{:?}", r),
        },
        other => format!("{:?}", other),
    };
    (file, loc.line as i64, exp)
}

fn dpath(tcx: TyCtxt<'_>, d: DefId) -> String {
    tcx.def_path_str(d)
}

fn args_j<'tcx>(args: GenericArgsRef<'tcx>) -> J {
    J::Arr(args.iter().map(|a| s(a)).collect())
}

fn dump_crate<'tcx>(tcx: TyCtxt<'tcx>, name: &str) -> J {
    let mut bodies = Vec::new();
    let mut n_err = 0i64;
    let ext = std::cell::RefCell::new(std::collections::HashSet::new());
    for ldid in tcx.hir_body_owners() {
        let did = ldid.to_def_id();
        let kind = tcx.def_kind(did);
        match kind {
            DefKind::Fn | DefKind::AssocFn | DefKind::Closure => {
                let body = tcx.optimized_mir(did);
                bodies.push(dump_body(tcx, ldid, kind, body, None, &ext));
                let promoted = tcx.promoted_mir(did);
                for (i, p) in promoted.iter_enumerated() {
                    bodies.push(dump_body(tcx, ldid, kind, p, Some(i.as_usize()), &ext));
                }
            }
            DefKind::Const { .. } | DefKind::AssocConst { .. } | DefKind::Static { .. } => {
                let body = tcx.mir_for_ctfe(did);
                bodies.push(dump_body(tcx, ldid, kind, body, None, &ext));
            }
            DefKind::AnonConst | DefKind::InlineConst => {
                // array lengths, inline consts: bodies exist but no rule needs them
            }
            _ => {
                n_err += 1;
            }
        }
    }

    let mut adts = Vec::new();
    let mut impls = Vec::new();
    let mut statics = Vec::new();
    let mut fns = Vec::new();
    let mut consts = Vec::new();
    let mut traits = Vec::new();
    for ldid in tcx.hir_crate_items(()).definitions() {
        let did = ldid.to_def_id();
        match tcx.def_kind(did) {
            DefKind::Struct | DefKind::Enum | DefKind::Union => adts.push(dump_adt(tcx, did)),
            DefKind::Impl { .. } => impls.push(dump_impl(tcx, did)),
            DefKind::Static { .. } => {
                let (file, line, _) = span_j(tcx, tcx.def_span(did));
                let tl = tcx
                    .codegen_fn_attrs(did)
                    .flags
                    .contains(rustc_middle::middle::codegen_fn_attrs::CodegenFnAttrFlags::THREAD_LOCAL);
                statics.push(J::obj(vec![
                    ("path", s(dpath(tcx, did))),
                    ("ty", s(tcx.type_of(did).instantiate_identity().skip_norm_wip())),
                    ("thread_local", J::Bool(tl)),
                    ("file", s(file)),
                    ("line", J::Num(line)),
                ]));
            }
            DefKind::Fn | DefKind::AssocFn => fns.push(dump_fn_sig(tcx, ldid)),
            DefKind::Const { .. } | DefKind::AssocConst { .. } => consts.push(dump_const(tcx, did)),
            DefKind::Trait => {
                let items: Vec<J> = tcx
                    .associated_items(did)
                    .in_definition_order()
                    .map(|it| {
                        J::obj(vec![
                            ("name", s(it.name())),
                            ("path", s(dpath(tcx, it.def_id))),
                            ("kind", s(format!("{:?}", it.tag()))),
                            ("has_default", J::Bool(it.defaultness(tcx).has_value())),
                        ])
                    })
                    .collect();
                traits.push(J::obj(vec![
                    ("path", s(dpath(tcx, did))),
                    ("vis", s(vis_str(tcx, did))),
                    ("items", J::Arr(items)),
                ]));
            }
            _ => {}
        }
    }

    let mut ext_sorted: Vec<DefId> = ext.borrow().iter().copied().collect();
    ext_sorted.sort_by_key(|d| dpath(tcx, *d));
    let ext_adts: Vec<J> = ext_sorted
        .iter()
        .map(|d| {
            let adt = tcx.adt_def(*d);
            let variants: Vec<J> = adt
                .variants()
                .iter_enumerated()
                .map(|(vi, v)| {
                    J::obj(vec![
                        ("name", s(v.name)),
                        ("idx", J::Num(vi.as_usize() as i64)),
                        ("nfields", J::Num(v.fields.len() as i64)),
                    ])
                })
                .collect();
            J::obj(vec![("path", s(dpath(tcx, *d))), ("variants", J::Arr(variants))])
        })
        .collect();
    J::obj(vec![
        ("crate", s(name)),
        ("ext_adts", J::Arr(ext_adts)),
        ("skipped_body_owners", J::Num(n_err)),
        ("bodies", J::Arr(bodies)),
        ("adts", J::Arr(adts)),
        ("impls", J::Arr(impls)),
        ("statics", J::Arr(statics)),
        ("fns", J::Arr(fns)),
        ("consts", J::Arr(consts)),
        ("traits", J::Arr(traits)),
    ])
}

fn vis_str(tcx: TyCtxt<'_>, did: DefId) -> String {
    match tcx.visibility(did) {
        ty::Visibility::Public => "pub".to_string(),
        ty::Visibility::Restricted(m) => {
            if m.is_crate_root() {
                "crate".to_string()
            } else {
                format!("in:{}", dpath(tcx, m))
            }
        }
    }
}

fn dump_const<'tcx>(tcx: TyCtxt<'tcx>, did: DefId) -> J {
    let generics = tcx.generics_of(did);
    let mut val = J::Null;
    if generics.count() == 0 && generics.parent.map_or(true, |p| tcx.generics_of(p).count() == 0) {
        if let Ok(v) = tcx.const_eval_poly(did) {
            val = constvalue_j(v);
        }
    }
    let (file, line, _) = span_j(tcx, tcx.def_span(did));
    J::obj(vec![
        ("path", s(dpath(tcx, did))),
        ("ty", s(tcx.type_of(did).instantiate_identity().skip_norm_wip())),
        ("value", val),
        ("file", s(file)),
        ("line", J::Num(line)),
    ])
}

fn constvalue_j(v: ConstValue) -> J {
    match v {
        ConstValue::Scalar(mir::interpret::Scalar::Int(i)) => {
            let bits = i.to_bits_unchecked();
            J::obj(vec![("bits", s(bits)), ("size", J::Num(i.size().bytes() as i64))])
        }
        ConstValue::ZeroSized => s("zst"),
        other => s(format!("{:?}", other)),
    }
}

fn dump_adt<'tcx>(tcx: TyCtxt<'tcx>, did: DefId) -> J {
    let adt = tcx.adt_def(did);
    let repr = adt.repr();
    let variants: Vec<J> = adt
        .variants()
        .iter_enumerated()
        .map(|(vi, v)| {
            let fields: Vec<J> = v
                .fields
                .iter()
                .map(|f| {
                    J::obj(vec![
                        ("name", s(f.name)),
                        ("ty", s(tcx.type_of(f.did).instantiate_identity().skip_norm_wip())),
                        ("vis", s(vis_str(tcx, f.did))),
                    ])
                })
                .collect();
            J::obj(vec![
                ("name", s(v.name)),
                ("idx", J::Num(vi.as_usize() as i64)),
                ("fields", J::Arr(fields)),
            ])
        })
        .collect();
    let (file, line, _) = span_j(tcx, tcx.def_span(did));
    J::obj(vec![
        ("path", s(dpath(tcx, did))),
        (
            "kind",
            s(if adt.is_union() {
                "union"
            } else if adt.is_enum() {
                "enum"
            } else {
                "struct"
            }),
        ),
        ("transparent", J::Bool(repr.transparent())),
        ("repr_c", J::Bool(repr.c())),
        ("align", match repr.align { Some(a) => J::Num(a.bytes() as i64), None => J::Null }),
        ("vis", s(vis_str(tcx, did))),
        ("variants", J::Arr(variants)),
        ("file", s(file)),
        ("line", J::Num(line)),
    ])
}

fn has_attr(tcx: TyCtxt<'_>, did: DefId, name: &str) -> bool {
    // look at the HIR attributes textually by their path
    #[allow(deprecated)]
    tcx.get_all_attrs(did).iter().any(|a| {
        let dbg = format!("{:?}", a);
        dbg.contains(name)
    })
}

fn dump_impl<'tcx>(tcx: TyCtxt<'tcx>, did: DefId) -> J {
    let trait_ref = tcx.impl_opt_trait_ref(did).map(|t| t.instantiate_identity().skip_norm_wip());
    let self_ty = tcx.type_of(did).instantiate_identity().skip_norm_wip();
    let preds: Vec<J> = tcx
        .predicates_of(did)
        .predicates
        .iter()
        .map(|(p, _)| s(p))
        .collect();
    let items: Vec<J> = tcx
        .associated_items(did)
        .in_definition_order()
        .map(|it| {
            J::obj(vec![
                ("name", s(it.name())),
                ("path", s(dpath(tcx, it.def_id))),
                ("kind", s(format!("{:?}", it.tag()))),
                (
                    "trait_item",
                    match it.trait_item_def_id() {
                        Some(t) => s(dpath(tcx, t)),
                        None => J::Null,
                    },
                ),
            ])
        })
        .collect();
    let (file, line, exp) = span_j(tcx, tcx.def_span(did));
    let (safety, polarity) = if trait_ref.is_some() {
        let h = tcx.impl_trait_header(did);
        (format!("{:?}", h.safety), format!("{:?}", h.polarity))
    } else {
        ("Safe".to_string(), "Positive".to_string())
    };
    J::obj(vec![
        ("path", s(dpath(tcx, did))),
        (
            "trait",
            match trait_ref {
                Some(t) => s(dpath(tcx, t.def_id)),
                None => J::Null,
            },
        ),
        (
            "trait_ref",
            match trait_ref {
                Some(t) => s(t),
                None => J::Null,
            },
        ),
        ("self_ty", s(self_ty)),
        (
            "self_adt",
            match self_ty.kind() {
                ty::Adt(a, _) => s(dpath(tcx, a.did())),
                _ => J::Null,
            },
        ),
        ("safety", s(safety)),
        ("polarity", s(polarity)),
        ("derived", J::Bool(has_attr(tcx, did, "AutomaticallyDerived") || has_attr(tcx, did, "automatically_derived"))),
        ("predicates", J::Arr(preds)),
        ("items", J::Arr(items)),
        ("file", s(file)),
        ("line", J::Num(line)),
        ("exp", J::Bool(exp)),
    ])
}

fn dump_fn_sig<'tcx>(tcx: TyCtxt<'tcx>, ldid: LocalDefId) -> J {
    let did = ldid.to_def_id();
    let sig = tcx.fn_sig(did).instantiate_identity().skip_norm_wip().skip_binder();
    let inputs: Vec<J> = sig.inputs().iter().map(|t| s(t)).collect();
    let (file, line, exp) = span_j(tcx, tcx.def_span(did));
    let assoc = tcx.opt_associated_item(did);
    let container = assoc.map(|a| {
        let c = tcx.parent(did);
        (c, a)
    });
    let mut v = vec![
        ("path", s(dpath(tcx, did))),
        ("name", s(tcx.item_name(did))),
        ("vis", s(vis_str(tcx, did))),
        ("safety", s(format!("{:?}", sig.safety()))),
        ("inputs", J::Arr(inputs)),
        ("output", s(sig.output())),
        ("file", s(file)),
        ("line", J::Num(line)),
        ("exp", J::Bool(exp)),
        ("has_body", J::Bool(tcx.hir_maybe_body_owned_by(ldid).is_some())),
        ("cold", J::Bool(has_attr(tcx, did, "Cold"))),
        (
            "predicates",
            J::Arr(tcx.predicates_of(did).predicates.iter().map(|(p, _)| s(p)).collect()),
        ),
    ];
    if let Some((c, a)) = container {
        v.push(("container", s(dpath(tcx, c))));
        v.push(("container_kind", s(format!("{:?}", tcx.def_kind(c)))));
        v.push(("has_self", J::Bool(a.is_method())));
        v.push((
            "trait_item",
            match a.trait_item_def_id() {
                Some(t) => s(dpath(tcx, t)),
                None => J::Null,
            },
        ));
        if let DefKind::Impl { .. } = tcx.def_kind(c) {
            let self_ty = tcx.type_of(c).instantiate_identity().skip_norm_wip();
            v.push(("impl_self_ty", s(self_ty)));
            if let ty::Adt(a, _) = self_ty.kind() {
                v.push(("impl_self_adt", s(dpath(tcx, a.did()))));
            }
            if let Some(t) = tcx.impl_opt_trait_ref(c) {
                v.push(("impl_trait", s(dpath(tcx, t.skip_binder().def_id))));
            }
        }
    }
    J::obj(v)
}

// ---------------------------------------------------------------------------
// MIR bodies

struct Cx<'a, 'tcx> {
    tcx: TyCtxt<'tcx>,
    body: &'a Body<'tcx>,
    env: TypingEnv<'tcx>,
    ext: &'a std::cell::RefCell<std::collections::HashSet<DefId>>,
}

fn dump_body<'tcx>(
    tcx: TyCtxt<'tcx>,
    ldid: LocalDefId,
    kind: DefKind,
    body: &Body<'tcx>,
    promoted: Option<usize>,
    ext: &std::cell::RefCell<std::collections::HashSet<DefId>>,
) -> J {
    let did = ldid.to_def_id();
    let env = TypingEnv::post_analysis(tcx, did);
    let cx = Cx { tcx, body, env, ext };
    let (file, line, exp) = span_j(tcx, body.span);
    let root = tcx.typeck_root_def_id(did);
    let locals: Vec<J> = body
        .local_decls
        .iter()
        .map(|d| {
            J::obj(vec![
                ("ty", s(d.ty)),
                ("adt", match ty_adt(tcx, d.ty) { Some(p) => s(p), None => J::Null }),
            ])
        })
        .collect();
    let dbg: Vec<J> = body
        .var_debug_info
        .iter()
        .filter_map(|v| match &v.value {
            mir::VarDebugInfoContents::Place(p) => Some(J::obj(vec![
                ("name", s(v.name)),
                ("place", cx.place(p)),
                ("arg", match v.argument_index { Some(i) => J::Num(i as i64), None => J::Null }),
            ])),
            _ => None,
        })
        .collect();
    let blocks: Vec<J> = body
        .basic_blocks
        .iter()
        .map(|b| cx.block(b))
        .collect();
    let mut path = dpath(tcx, did);
    if let Some(p) = promoted {
        path = format!("{}::{{promoted#{}}}", path, p);
    }
    J::obj(vec![
        ("path", s(path)),
        ("owner", s(dpath(tcx, did))),
        ("promoted", match promoted { Some(p) => J::Num(p as i64), None => J::Null }),
        ("kind", s(format!("{:?}", kind))),
        ("root", s(dpath(tcx, root))),
        ("parent", s(dpath(tcx, tcx.parent(did)))),
        ("file", s(file)),
        ("line", J::Num(line)),
        ("exp", J::Bool(exp)),
        ("arg_count", J::Num(body.arg_count as i64)),
        ("locals", J::Arr(locals)),
        ("debug", J::Arr(dbg)),
        ("blocks", J::Arr(blocks)),
    ])
}

fn ty_adt<'tcx>(tcx: TyCtxt<'tcx>, t: Ty<'tcx>) -> Option<String> {
    match t.kind() {
        ty::Adt(a, _) => Some(dpath(tcx, a.did())),
        ty::Ref(_, inner, _) => ty_adt(tcx, *inner),
        ty::RawPtr(inner, _) => ty_adt(tcx, *inner),
        _ => None,
    }
}

impl<'a, 'tcx> Cx<'a, 'tcx> {
    fn place(&self, p: &Place<'tcx>) -> J {
        let mut proj = Vec::new();
        for (base, elem) in p.iter_projections() {
            let e = match elem {
                ProjectionElem::Deref => s("deref"),
                ProjectionElem::Field(f, fty) => {
                    let bty = base.ty(self.body, self.tcx);
                    let mut name = J::Null;
                    let mut of = J::Null;
                    if let ty::Adt(adt, _) = bty.ty.kind() {
                        of = s(dpath(self.tcx, adt.did()));
                        let v = match bty.variant_index {
                            Some(vi) => Some(adt.variant(vi)),
                            None if adt.is_struct() || adt.is_union() => Some(adt.non_enum_variant()),
                            None => None,
                        };
                        if let Some(v) = v {
                            if let Some(fd) = v.fields.get(f) {
                                name = s(fd.name);
                            }
                        }
                    } else {
                        of = s(format!("{}", bty.ty));
                    }
                    J::obj(vec![
                        ("f", J::Num(f.as_usize() as i64)),
                        ("n", name),
                        ("of", of),
                        ("ty", s(fty)),
                    ])
                }
                ProjectionElem::Downcast(name, vi) => J::obj(vec![
                    ("downcast", J::Num(vi.as_usize() as i64)),
                    ("n", match name { Some(n) => s(n), None => J::Null }),
                ]),
                ProjectionElem::Index(l) => J::obj(vec![("index", J::Num(l.as_usize() as i64))]),
                ProjectionElem::ConstantIndex { offset, from_end, .. } => J::obj(vec![
                    ("cindex", J::Num(offset as i64)),
                    ("from_end", J::Bool(from_end)),
                ]),
                ProjectionElem::Subslice { from, to, from_end } => J::obj(vec![
                    ("subslice", J::Arr(vec![J::Num(from as i64), J::Num(to as i64)])),
                    ("from_end", J::Bool(from_end)),
                ]),
                other => s(format!("{:?}", other)),
            };
            proj.push(e);
        }
        let pty = p.ty(self.body, self.tcx);
        J::obj(vec![
            ("l", J::Num(p.local.as_usize() as i64)),
            ("p", J::Arr(proj)),
            ("ty", s(pty.ty)),
        ])
    }

    fn operand(&self, o: &Operand<'tcx>) -> J {
        match o {
            Operand::Copy(p) => J::obj(vec![("k", s("copy")), ("place", self.place(p))]),
            Operand::Move(p) => J::obj(vec![("k", s("move")), ("place", self.place(p))]),
            Operand::Constant(c) => {
                let cty = c.const_.ty();
                let mut v = vec![("k", s("const")), ("ty", s(cty)), ("text", s(&c.const_))];
                match cty.kind() {
                    ty::FnDef(d, a) => {
                        v.push(("fn", self.callee(*d, a)));
                    }
                    ty::Closure(d, _) => {
                        v.push(("closure", s(dpath(self.tcx, *d))));
                    }
                    _ => {}
                }
                match c.const_ {
                    Const::Unevaluated(uv, _) => {
                        v.push(("uneval", s(dpath(self.tcx, uv.def))));
                        v.push(("uneval_args", args_j(uv.args)));
                        if let Some(p) = uv.promoted {
                            v.push(("promoted", J::Num(p.as_usize() as i64)));
                        }
                    }
                    Const::Val(ConstValue::Scalar(mir::interpret::Scalar::Int(i)), _) => {
                        v.push(("bits", s(i.to_bits_unchecked())));
                    }
                    Const::Ty(_, ct) => {
                        v.push(("tyconst", s(ct)));
                    }
                    _ => {}
                }
                J::obj(v)
            }
            #[allow(unreachable_patterns)]
            other => J::obj(vec![("k", s("other")), ("text", s(format!("{:?}", other)))]),
        }
    }

    fn callee(&self, d: DefId, a: GenericArgsRef<'tcx>) -> J {
        let tcx = self.tcx;
        let mut v = vec![
            ("def", s(dpath(tcx, d))),
            ("args", args_j(a)),
            ("local", J::Bool(d.is_local())),
            ("krate", s(tcx.crate_name(d.krate))),
        ];
        if let Some(assoc) = tcx.opt_associated_item(d) {
            let cont = tcx.parent(d);
            match tcx.def_kind(cont) {
                DefKind::Trait => {
                    v.push(("trait", s(dpath(tcx, cont))));
                    // self type of the trait call
                    if a.len() > 0 {
                        if let Some(t) = a[0].as_type() {
                            v.push(("self_ty", s(t)));
                        }
                    }
                }
                DefKind::Impl { .. } => {
                    let st = tcx.type_of(cont).instantiate_identity().skip_norm_wip();
                    v.push(("impl_self_ty", s(st)));
                    if let ty::Adt(adt, _) = st.kind() {
                        v.push(("impl_self_adt", s(dpath(tcx, adt.did()))));
                    }
                    if let Some(t) = tcx.impl_opt_trait_ref(cont) {
                        v.push(("impl_trait", s(dpath(tcx, t.skip_binder().def_id))));
                    }
                }
                _ => {}
            }
            v.push(("name", s(assoc.name())));
            v.push(("method", J::Bool(assoc.is_method())));
        } else {
            v.push(("name", s(tcx.item_name(d))));
        }
        // receiver kind from the signature
        let sig = tcx.fn_sig(d).instantiate_identity().skip_norm_wip().skip_binder();
        if let Some(first) = sig.inputs().first() {
            v.push(("recv", s(first)));
        }
        v.push(("sig_inputs", J::Arr(sig.inputs().iter().map(|t| s(t)).collect())));
        v.push(("sig_output", s(sig.output())));
        // resolution
        match Instance::try_resolve(tcx, self.env, d, a) {
            Ok(Some(inst)) => {
                let rd = inst.def_id();
                let kind = match inst.def {
                    ty::InstanceKind::Item(_) => "item",
                    ty::InstanceKind::Virtual(..) => "virtual",
                    ty::InstanceKind::ClosureOnceShim { .. } => "closure_once_shim",
                    ty::InstanceKind::FnPtrShim(..) => "fnptr_shim",
                    ty::InstanceKind::DropGlue(..) => "drop_glue",
                    ty::InstanceKind::CloneShim(..) => "clone_shim",
                    ty::InstanceKind::Intrinsic(..) => "intrinsic",
                    _ => "other",
                };
                v.push((
                    "resolved",
                    J::obj(vec![
                        ("def", s(dpath(tcx, rd))),
                        ("args", args_j(inst.args)),
                        ("kind", s(kind)),
                        ("local", J::Bool(rd.is_local())),
                    ]),
                ));
            }
            _ => {
                v.push(("resolved", J::Null));
            }
        }
        J::obj(v)
    }

    fn rvalue(&self, r: &Rvalue<'tcx>) -> J {
        match r {
            Rvalue::Use(o, ..) => J::obj(vec![("k", s("use")), ("op", self.operand(o))]),
            Rvalue::Ref(_, bk, p) => J::obj(vec![
                ("k", s("ref")),
                ("mut", J::Bool(matches!(bk, mir::BorrowKind::Mut { .. }))),
                ("place", self.place(p)),
            ]),
            Rvalue::RawPtr(m, p) => J::obj(vec![
                ("k", s("rawptr")),
                ("mut", J::Bool(format!("{:?}", m).contains("Mut"))),
                ("place", self.place(p)),
            ]),
            Rvalue::Cast(kind, o, t) => J::obj(vec![
                ("k", s("cast")),
                ("kind", s(cast_kind(kind))),
                ("op", self.operand(o)),
                ("from", s(o.ty(self.body, self.tcx))),
                ("ty", s(t)),
            ]),
            Rvalue::Aggregate(ak, ops) => {
                let mut v = vec![("k", s("aggregate"))];
                match &**ak {
                    AggregateKind::Adt(d, vi, args, _, active) => {
                        let adt = self.tcx.adt_def(*d);
                        v.push(("adt", s(dpath(self.tcx, *d))));
                        v.push(("variant", J::Num(vi.as_usize() as i64)));
                        v.push(("variant_name", s(adt.variant(*vi).name)));
                        v.push(("args", args_j(args)));
                        let names: Vec<J> = match active {
                            Some(f) => vec![s(adt.variant(*vi).fields[*f].name)],
                            None => adt.variant(*vi).fields.iter().map(|f| s(f.name)).collect(),
                        };
                        v.push(("fields", J::Arr(names)));
                    }
                    AggregateKind::Tuple => v.push(("tuple", J::Bool(true))),
                    AggregateKind::Array(t) => v.push(("array", s(t))),
                    AggregateKind::Closure(d, _) => v.push(("closure", s(dpath(self.tcx, *d)))),
                    AggregateKind::RawPtr(t, _) => v.push(("rawptr", s(t))),
                    other => v.push(("other", s(format!("{:?}", other)))),
                }
                v.push(("ops", J::Arr(ops.iter().map(|o| self.operand(o)).collect())));
                J::obj(v)
            }
            Rvalue::BinaryOp(op, ab) => J::obj(vec![
                ("k", s("binop")),
                ("op", s(format!("{:?}", op))),
                ("a", self.operand(&ab.0)),
                ("b", self.operand(&ab.1)),
            ]),
            Rvalue::UnaryOp(op, a) => J::obj(vec![
                ("k", s("unop")),
                ("op", s(format!("{:?}", op))),
                ("a", self.operand(a)),
            ]),
            Rvalue::Discriminant(p) => {
                if let ty::Adt(a, _) = p.ty(self.body, self.tcx).ty.kind() {
                    if !a.did().is_local() {
                        self.ext.borrow_mut().insert(a.did());
                    }
                }
                J::obj(vec![("k", s("discr")), ("place", self.place(p))])
            }
            Rvalue::CopyForDeref(p) => J::obj(vec![
                ("k", s("use")),
                ("op", J::obj(vec![("k", s("copy")), ("place", self.place(p))])),
            ]),
            Rvalue::Repeat(o, _) => J::obj(vec![("k", s("repeat")), ("op", self.operand(o))]),
            other => J::obj(vec![("k", s("other")), ("text", s(format!("{:?}", other)))]),
        }
    }

    fn block(&self, b: &BasicBlockData<'tcx>) -> J {
        let mut stmts = Vec::new();
        for st in &b.statements {
            let (_, line, exp) = span_j(self.tcx, st.source_info.span);
            match &st.kind {
                StatementKind::Assign(bx) => {
                    let (p, r) = &**bx;
                    stmts.push(J::obj(vec![
                        ("k", s("assign")),
                        ("place", self.place(p)),
                        ("rv", self.rvalue(r)),
                        ("line", J::Num(line)),
                        ("exp", J::Bool(exp)),
                    ]));
                }
                StatementKind::SetDiscriminant { place, variant_index } => {
                    stmts.push(J::obj(vec![
                        ("k", s("setdiscr")),
                        ("place", self.place(place)),
                        ("variant", J::Num(variant_index.as_usize() as i64)),
                        ("line", J::Num(line)),
                    ]));
                }
                StatementKind::StorageLive(l) => {
                    stmts.push(J::obj(vec![("k", s("live")), ("l", J::Num(l.as_usize() as i64))]));
                }
                StatementKind::StorageDead(l) => {
                    stmts.push(J::obj(vec![("k", s("dead")), ("l", J::Num(l.as_usize() as i64))]));
                }
                StatementKind::Intrinsic(i) => {
                    stmts.push(J::obj(vec![
                        ("k", s("intrinsic")),
                        ("text", s(format!("{:?}", i))),
                        ("line", J::Num(line)),
                    ]));
                }
                _ => {}
            }
        }
        let term = b.terminator();
        let (tfile, tline, texp) = span_j(self.tcx, term.source_info.span);
        let mut t = vec![("line", J::Num(tline)), ("exp", J::Bool(texp)), ("file", s(tfile))];
        let unwind_j = |u: &UnwindAction| match u {
            UnwindAction::Cleanup(bb) => J::Num(bb.as_usize() as i64),
            UnwindAction::Continue => s("continue"),
            UnwindAction::Unreachable => s("unreachable"),
            UnwindAction::Terminate(_) => s("terminate"),
        };
        match &term.kind {
            TerminatorKind::Goto { target } => {
                t.push(("k", s("goto")));
                t.push(("target", J::Num(target.as_usize() as i64)));
            }
            TerminatorKind::SwitchInt { discr, targets } => {
                t.push(("k", s("switch")));
                t.push(("discr", self.operand(discr)));
                t.push(("discr_ty", s(discr.ty(self.body, self.tcx))));
                let ts: Vec<J> = targets
                    .iter()
                    .map(|(v, bb)| J::Arr(vec![s(v), J::Num(bb.as_usize() as i64)]))
                    .collect();
                t.push(("targets", J::Arr(ts)));
                t.push(("otherwise", J::Num(targets.otherwise().as_usize() as i64)));
            }
            TerminatorKind::UnwindResume => t.push(("k", s("resume"))),
            TerminatorKind::UnwindTerminate(_) => t.push(("k", s("terminate"))),
            TerminatorKind::Return => t.push(("k", s("return"))),
            TerminatorKind::Unreachable => t.push(("k", s("unreachable"))),
            TerminatorKind::Drop { place, target, unwind, .. } => {
                t.push(("k", s("drop")));
                t.push(("place", self.place(place)));
                t.push(("target", J::Num(target.as_usize() as i64)));
                t.push(("unwind", unwind_j(unwind)));
            }
            TerminatorKind::Call { func, args, destination, target, unwind, .. } => {
                t.push(("k", s("call")));
                t.push(("func", self.operand(func)));
                let fty = func.ty(self.body, self.tcx);
                t.push(("fn_ty", s(fty)));
                t.push(("indirect", J::Bool(!matches!(fty.kind(), ty::FnDef(..)))));
                t.push(("args", J::Arr(args.iter().map(|a| self.operand(&a.node)).collect())));
                t.push(("dest", self.place(destination)));
                t.push((
                    "target",
                    match target {
                        Some(bb) => J::Num(bb.as_usize() as i64),
                        None => J::Null,
                    },
                ));
                t.push(("unwind", unwind_j(unwind)));
            }
            TerminatorKind::TailCall { func, args, .. } => {
                t.push(("k", s("tailcall")));
                t.push(("func", self.operand(func)));
                t.push(("args", J::Arr(args.iter().map(|a| self.operand(&a.node)).collect())));
            }
            TerminatorKind::Assert { cond, expected, msg, target, unwind } => {
                t.push(("k", s("assert")));
                t.push(("cond", self.operand(cond)));
                t.push(("expected", J::Bool(*expected)));
                t.push(("msg", s(format!("{:?}", msg).chars().take(60).collect::<String>())));
                t.push(("target", J::Num(target.as_usize() as i64)));
                t.push(("unwind", unwind_j(unwind)));
            }
            TerminatorKind::FalseEdge { real_target, .. } => {
                t.push(("k", s("goto")));
                t.push(("target", J::Num(real_target.as_usize() as i64)));
            }
            TerminatorKind::FalseUnwind { real_target, .. } => {
                t.push(("k", s("goto")));
                t.push(("target", J::Num(real_target.as_usize() as i64)));
            }
            other => {
                t.push(("k", s("other")));
                t.push(("text", s(format!("{:?}", other))));
            }
        }
        J::obj(vec![
            ("cleanup", J::Bool(b.is_cleanup)),
            ("stmts", J::Arr(stmts)),
            ("term", J::obj(t)),
        ])
    }
}

fn cast_kind(k: &CastKind) -> String {
    format!("{:?}", k)
}
