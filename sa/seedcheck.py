#!/usr/bin/env python3
"""Evaluate a seeded change kept under /verif/seeded/<id>/ (or any directory
with patch.diff [+ seed_demo.rs]):

  1. scratch copy of /repo (outside /repo and /verif), `git apply patch.diff`
  2. the pinned test-suite still passes (default features, and hot-reloading,utils)
  3. the demonstration fails with the change and passes without it
  4. which of the registered checks fire on the changed tree (AM_REPO=<scratch>)

  sa/seedcheck.py <dir> [--no-demo] [--no-tests] [--props C01,C02]
"""
import argparse
import json
import os
import re
import shutil
import subprocess
import sys
import tempfile

HERE = os.path.dirname(os.path.abspath(__file__))
VERIF = os.path.dirname(HERE)
REPO = '/repo'


def sh(cmd, cwd, env=None, timeout=1200):
    try:
        p = subprocess.run(cmd, cwd=cwd, env=env, shell=True, stdout=subprocess.PIPE, stderr=subprocess.STDOUT, text=True, timeout=timeout)
        return p.returncode, p.stdout
    except subprocess.TimeoutExpired as e:
        return 124, (e.stdout or '') + '\nTIMEOUT'


def main():
    ap = argparse.ArgumentParser()
    ap.add_argument('dir')
    ap.add_argument('--no-demo', action='store_true')
    ap.add_argument('--no-tests', action='store_true')
    ap.add_argument('--props', default='all')
    ap.add_argument('--witness', action='store_true')
    a = ap.parse_args()
    d = os.path.abspath(a.dir)
    patch = os.path.join(d, 'patch.diff')
    demo = os.path.join(d, 'seed_demo.rs')
    meta = {}
    if os.path.exists(os.path.join(d, 'meta.json')):
        meta = json.load(open(os.path.join(d, 'meta.json')))
    tmp = tempfile.mkdtemp(prefix='amseed-')
    out = {'dir': d}
    try:
        dst = os.path.join(tmp, 'repo')
        shutil.copytree(REPO, dst, ignore=shutil.ignore_patterns('target', '.git'))
        env = dict(os.environ, CARGO_TARGET_DIR=os.path.join(tmp, 'target'), CARGO_NET_OFFLINE='true')
        sh('git init -q && git add -A && git -c user.email=x@x -c user.name=x commit -qm base', dst)
        demo_feats = meta.get('demo_features', 'hot-reloading,utils')
        demo_cmd = 'cargo test --offline --features %s --test seed_demo -- --test-threads 1' % demo_feats
        if os.path.exists(demo) and not a.no_demo:
            os.makedirs(os.path.join(dst, 'tests'), exist_ok=True)
            shutil.copy(demo, os.path.join(dst, 'tests', 'seed_demo.rs'))
            # helper packages of a demonstration (e.g. a nested crate it builds) travel as seed_*/ directories
            for extra in sorted(os.listdir(d)):
                if extra.startswith('seed_') and os.path.isdir(os.path.join(d, extra)):
                    shutil.copytree(os.path.join(d, extra), os.path.join(dst, 'tests', extra))
            rc, o = sh(demo_cmd, dst, env, timeout=900)
            out['demo_without_change'] = 'pass' if rc == 0 else 'FAIL rc=%d' % rc
            if rc != 0:
                out['demo_without_log'] = o[-1500:]
        rc, o = sh('git apply --whitespace=nowarn %s' % patch, dst)
        out['patch_applies'] = rc == 0
        if rc != 0:
            out['apply_log'] = o[-800:]
            print(json.dumps(out, indent=1))
            return 1
        if not a.no_tests:
            rc1, o1 = sh('cargo test --offline --lib 2>&1 | grep -E "^test result"', dst, env)
            rc2, o2 = sh('cargo test --offline --lib --features hot-reloading,utils 2>&1 | grep -E "^test result|error"', dst, env)
            out['tests_default'] = o1.strip()
            out['tests_hot_reloading'] = o2.strip()
        if os.path.exists(demo) and not a.no_demo:
            rc, o = sh(demo_cmd, dst, env, timeout=900)
            out['demo_with_change'] = 'pass (NOT a demonstration)' if rc == 0 else 'fails rc=%d' % rc
            out['demo_with_tail'] = '\n'.join(o.strip().splitlines()[-6:])
        # the checks
        cenv = dict(os.environ, AM_REPO=dst, AM_EVID=os.path.join(tmp, 'ev'), AM_CACHE=os.path.join(tmp, 'cache'), AM_NO_SELFTEST='1')
        if not a.witness:
            cenv['AM_NO_WITNESS'] = '1'
        props = a.props.split(',') if a.props != 'all' else ['all']
        fired = {}
        for p in props:
            rc, o = sh('%s %s --tier quick' % (os.path.join(VERIF, 'check'), p), VERIF, cenv)
            for line in o.splitlines():
                if line.startswith('VIOLATION'):
                    rp = line.split('replay=')[1].strip()
                    try:
                        r = json.load(open(rp))
                        fired.setdefault(r['property'], []).append('%s @ %s :: %s' % (r['rule'], r['function'], r['detail']))
                    except Exception:
                        fired.setdefault('?', []).append(line)
                if line.startswith('CHECK-ERROR'):
                    fired.setdefault('ERROR', []).append(o[-1200:])
        out['checks_fired'] = fired
        print(json.dumps(out, indent=1))
        return 0
    finally:
        shutil.rmtree(tmp, ignore_errors=True)


if __name__ == '__main__':
    sys.exit(main())
