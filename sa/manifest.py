#!/usr/bin/env python3
"""Generates /verif/MANIFEST.json from one table, so that the manifest, the
check entry point and the rule modules cannot drift apart.  A property is
claimed only when its rule module exists in sa/rules/."""
import json
import os

HERE = os.path.dirname(os.path.abspath(__file__))
VERIF = os.path.dirname(HERE)

TB = ('Trusted: rustc MIR construction + borrow checker; the amfacts driver and the rule engine in /verif/sa; '
      'semantics of std/parking_lot locks and condvars, std atomics, hashbrown, crossbeam-channel, once_cell, notify. ')

P = {
    'C01': dict(
        technique='ownership/effect analysis over MIR: who-may-mutate the maps under a shared borrow, origin slicing of returned references, key hash/eq agreement, compile_fail witnesses',
        text='Decides, for every schedule and hash seed (given lock and hashbrown semantics), the structural invariant behind "one stable handle": under &self the only mutation of either AssetMap is entry().or_insert (keep-first), every destroying map operation sits behind &mut self obtained via get_mut, the returned &UntypedHandle originates from the entry that is IN the map (boxed, address-stable), lookups and inserts hash/compare the same (type_id,id) fields in the same order, shard selection is identical for &self and &mut self, and the loser of an insertion race receives the winner. Witnesses: a handle cannot be held across remove (E0502) nor outlive the cache (E0597). Not decided: nothing value-level remains for this property.',
        note=TB + 'Assumes user Drop/Hash/Eq/Source code does not re-enter the same cache while a shard lock is held.'),
    'C02': dict(
        technique='call-graph parity of the three front-ends, who-may-insert, must-pass-through (insert only after Ok), destroyer argument origins',
        text='Necessary-only: checks the shape facts that observational equivalence with a map needs: every front-end operation reaches the same core operation set; AssetMap::insert is called only from RawCache::add_asset (after the `?` on the load) and Cache::insert (only from add_any, only on the absent arm of get_or_insert); load_owned/get_cached/contains reach no insert; take/remove/clear name exactly their (id,type) key / the whole shard slice; both AssetMap impls use the same HashMap operation per method; keys hash and compare both id and type. Not decided: that take returns the stored value bit-for-bit, directory bookkeeping, behaviour over value sequences.',
        note=TB),
    'C03': dict(
        technique='path/dominance rules on load_from_source, exhaustive decision table of ErrorKind::or (16 cases), origin slicing of error ids',
        text='Necessary-only: extension list iterated in declared order without adaptor, first Ok returns without another iteration and returns that payload, errors are folded with ErrorKind::or whose extracted 4x4 decision table equals max over NoDefaultValue<NotFound<Io<Conversion (exhaustive), default_value is on every non-Ok exit, compound errors are wrapped with the requested id, with_cow passes the whole payload, failure inserts nothing (C02.R2). Not decided: byte-exactness of sources and loaders, retry-after-repair as behaviour.',
        note=TB),
    'C05': dict(
        technique='must-record-before-read dominance rules, who-may-read-the-source, post-order/reverse agreement of the topological sort, edge-constrained reachability',
        text='Necessary-only (structural clauses of convergence): every source read/read_dir/get_cached/load_owned entry point records a dependency before touching the source; only the Cache impl reads the source; successful hot-reloaded loads register with the deps recorded by that very load; the DFS pushes post-order and the consumer reverses it (dependencies first); reload re-inserts new deps only on success; cache messages are drained before events. Not decided: that the value after hot_reload equals a fresh load (a fixpoint over values), OS event delivery.',
        note=TB),
    'C06': dict(
        technique='who-may-call rules on the reload counter protocol, dominance order inside UntypedEntry::write, const evaluation of NEVER',
        text='Decides "grows by one for each successful rewrite and never otherwise": increment is called only from write, inside the write-guard region, after the swap; write is called only from reload_untyped on the Ok arm; reload_untyped only from DepsGraph::reload only from run_update only from the three update entry points; entries start at NEVER/false; visit pushes each key at most once per pass. Necessary-only: "rewrites only affected assets" (depends on graph contents).',
        note=TB),
    'C07': dict(
        technique='lock-region (lockset) analysis over MIR guard live ranges incl. unwind paths, classification of every UnsafeCell access, compile_fail witnesses',
        text='Decides guard pinning / no torn reads / change-only-inside-hot_reload / hot_reload-waits for all schedules under both lock implementations (cfg B and C analysed separately), given RwLock semantics: every access to EntryStorage.value is classified (read under a read guard that travels with the reference; get behind the dynamic.is_some() panic; write inside the write-guard region together with the counter updates; by-value/&mut on owned entries); every AssetReadGuard construction carries the guard; Static mode needs a &\'static cache (witness E0597); reload() waits for its own token.',
        note=TB + 'Assumes user code does not hold an AssetReadGuard across hot_reload (documented precondition).'),
    'C08': dict(
        technique='liveness obligations as CFG rules: visited-before-recursion dominance, condvar write-then-notify protocol, answer on every exit incl. unwind edges, no lock live across user code or blocking calls',
        text='Decides the enumerated liveness obligations: the dependency DFS marks a node visited before recursing (terminates on cyclic graphs), every write of the Answers slot is followed by notify_all on all paths, the answer is sent on every exit of the request arm including unwinding out of a loader, the caller blocks only after a successful send on its own unique token, and no lock guard is live across user code, channel operations or condvar waits (lock-order graph has no edge). With FIFO channel semantics every hot_reload is answered. Not decided: "bounded amount of work" as a number.',
        note=TB + 'Drop glue of stored values running under a shard write lock is excluded from "user code".'),
    'C09': dict(
        technique='unwind-edge analysis: RAII guard drop on normal and cleanup paths, poison-wrapping who-may-call, Err-arm reachability',
        text='Decides the control-flow clauses: the thread-local recording cell is restored by a CellGuard whose Drop lies on the normal and on the unwind path of the user closure; RECORDING is written only through CellGuard; every std LockResult flows into wrap() which cannot panic; a failed reload reaches neither write nor graph mutation; insert happens only after the `?`; a panicking reload is contained so the reloader still answers. Not decided: "later loads pick up the repaired source" as behaviour.',
        note=TB),
    'C10': dict(
        technique='edge-constrained reachability (dynamic only if both conditions), who-may-register, sibling-deviance rule for destroyers, compile_fail witnesses',
        text='Decides who may write/register: Entry::new_dynamic is reachable only through HOT_RELOADED && _mutable(); swap_any only on a dynamic entry; HotReloader::add_asset only from load_and_record on the hot-reloaded+reloader+Ok edge; get_or_insert reaches no reloader call; LocalAssetCache/without_hot_reloading have no reloader; every destroying front-end operation of a cache with a reloader tells the reloader, whose handler mutates the dependency graph; an owned load does not register a reloadable key. Witnesses: Handle::<String>::get does not exist (E0599), NotHotReloaded with HOT_RELOADED=true fails to build (E0080). Necessary-only: "in any history" beyond the enumerated mutators.',
        note=TB),
    'C11': dict(
        technique='dominance (sort before dedup before construction), edge-constrained reachability of push, callee tables of iter/iter_cached',
        text='Necessary-only: Directory::load sorts then dedups the ids returned by select_ids (error propagated); the blanket select_ids pushes only File entries whose extension is in T::EXTENSIONS; RecursiveDirectory loads Directory<T> of the same id with `?`, extends only on Ok of each child and does not exit early on Err; iter loads, iter_cached only looks up; Arc<T> forwards. Not decided: what read_dir of each source reports (C04).',
        note=TB),
    'C12': dict(
        technique='region-based decision table of the notify event handler, no-panic reachability, sibling component-table parity',
        text='Necessary-only (table clauses): the extracted table EventKind -> {path, parent} equals the one the statement fixes (modify->path; create/rename/remove->path+parent; access/other->nothing); handler, id_of_path and IdBuilder contain no unwrap/expect/panic/bounds assert; the three path->id builders map path components identically; IdBuilder::push rejects segments containing "." before mutating. Not decided (value-level): that id_of_path is the inverse of path_of_entry for every path, in particular the root directory (observation O1 in DESIGN.md section 7).',
        note=TB),
    'C13': dict(
        technique='closed table of ownership-escaping primitives, TypeId-check dominance over every downcast, repr(transparent) facts',
        text='Decides no-reinterpretation (given TypeId uniqueness) and exactly-once drop relative to a closed table: every pointer cast between EntryStorage/Handle/UntypedHandle is a repr(transparent) identity, an unsizing, or a downcast dominated by the true edge of is::<T>(); swap_any is called only from write after a real assert! on equal type ids; every call to forget/ManuallyDrop/ptr::read/write/swap/from_raw/alloc/dealloc in the crate is one of the confirmed sites with its pairing obligation.',
        note=TB),
    'C14': dict(
        technique='thread_local fact, who-may-access, RAII nesting on unwind paths, guarded-insert reachability, dominance of record before load',
        text='Necessary-only: RECORDING is a thread_local accessed only in hot_reloading::records; record/no_record install and restore through CellGuard on all exits (C09.R1); every Record::insert_* is guarded by reloader pointer equality; get_cached_entry_inner/add_record dominate the nested load so the outer asset depends on the nested asset; nested recording starts exactly when the type is hot-reloaded and a reloader exists. Not decided: "exactly these assets reload" as behaviour.',
        note=TB),
    'C15': dict(
        technique='loop-structure rules on hot_reloading_thread: blocking call on every outer cycle, Disconnected edge reaches return for both receivers, watcher release on send failure',
        text='Necessary-only (structural causes of spinning / never exiting): every outer-loop cycle passes through the blocking Select::ready; for BOTH receivers the Disconnected outcome of try_recv leaves the outer loop; a failed send_multiple drops the notify watcher; exactly one thread is spawned per reloader and owns its inputs. Not decided: CPU time, time-to-exit, OS watcher behaviour.',
        note=TB),
    'C16': dict(
        technique='allocation/deallocation layout pairing table, refcount protocol (orderings are MIR constants), impl-list query for mutable access, UTF-8 construction-site dominance, compile_fail witness',
        text='Decides refcount protocol (fetch_add on clone; fetch_sub Release/AcqRel with drop_slow exactly on previous==1; Acquire before free; count starts at 1), immutability through every impl (no DerefMut/AsMut/BorrowMut/IndexMut; witness E0594), UTF-8 discipline of every SharedString construction site, comparison/hash delegation to the slice with argument order preserved. Necessary-only: alloc/dealloc layout pairing (pairing, not arithmetic). Not decided: allocator-level balance as an execution fact.',
        note=TB + 'Layout::extend arithmetic: get_inner_layout(0) == Layout::new::<Inner>() is assumed.'),
    'C17': dict(
        technique='union-access reachability inside the once-initialiser, Err/unwind edge analysis, forward slice of the seed, Drop arm table, impl predicate query, compile_fail witness',
        text='Decides: &mut to the union is created only inside the closure passed to OnceCell::get_or_try_init; the state is overwritten only after f returned Ok (neither on `?` nor on unwind); the replaced seed escapes the closure and is dropped after get_or_try_init returned; the no-drop fast path is taken only when !needs_drop::<U>(); Drop picks init on Some and uninit on None; get calls only OnceCell::get; unsafe impl Sync requires T: Send+Sync, U: Send (witness E0277). Exactly-once initialisation itself is once_cell\'s (trusted).',
        note=TB),
    'C18': dict(
        level='proof',
        technique='exhaustive decision tables over {<,=,>} extracted from MIR + atomic primitive/ordering table',
        text='Decided completely. ReloadId is a usize newtype with derived Ord, so update touches values only through one comparison: the extracted 3-row tables show stored = max(old,new) and returned = (new>old) for ReloadId::update, and AtomicReloadId::update = new > fetch_max(new) on the single atomic field with AcqRel; load/store/swap/fetch_max/increment use the expected primitive, operand and ordering; NEVER evaluates to 0. With RMW atomicity (trusted) each growth is reported to exactly one caller and the final value is the maximum offered. All obligations discharged by exhaustive enumeration.',
        note='Trusted base: derived Ord on usize, std atomics (atomicity of fetch_max), rustc MIR construction, the amfacts driver and rule engine.'),
}

NA = {
    'C04': 'Every clause quantifies over byte contents, tree shapes, archive member orders and path strings computed at run time by zip/tar/std::fs; no sound static argument in reach bounds them. The nearby shape facts (component-table parity of the id builders) are checked under C12.R3, too small a part of C04 to claim it.',
}


def build():
    checks = []
    na = [{'property_id': k, 'reason': v} for k, v in sorted(NA.items())]
    for pid in sorted(P):
        d = P[pid]
        if not os.path.exists(os.path.join(HERE, 'rules', pid.lower() + '.py')):
            na.append({'property_id': pid, 'reason': 'static check designed (DESIGN.md section 4) but its rule module is not built yet; not claimed until it is'})
            continue
        checks.append({
            'property_id': pid,
            'quick_cmd': './check %s --tier quick' % pid,
            'thorough_cmd': './check %s --tier thorough' % pid,
            'evidence_file': '/verif/evidence/%s.json' % pid,
            'replay_cmd_template': './check %s --explain {path}' % pid,
            'engine': 'amfacts+rules',
            'level_claimed': {'category': d.get('level', 'other'), 'text': d['text'],
                              'design_ref': 'DESIGN.md section 4, %s' % pid},
            'level_note': d['note'],
            'technique': 'static analysis: ' + d['technique'],
        })
    m = {
        'version': 1,
        'setup_cmd': 'cd /verif/sa/driver && CARGO_NET_OFFLINE=true cargo +nightly build --release --offline && cd /verif && python3 -m py_compile check sa/extract.py sa/rules/*.py',
        'hooks': {
            'guard': 'none',
            'enable': 'no hooks: a static technique inspects the unmodified source; checks run `cargo +nightly check` over /repo with the amfacts driver as RUSTC_WORKSPACE_WRAPPER',
            'baseline_off_cmd': 'cd /repo && cargo test --workspace --no-fail-fast --offline',
            'source_commits': [],
            'add_only': True,
        },
        'engines': [
            {'name': 'amfacts', 'path': 'sa/driver', 'serves_properties': sorted(c['property_id'] for c in checks),
             'kind_free_text': 'rustc_private driver: dumps MIR (resolved callees, unwind edges, elaborated drops) and ADT/impl/const facts per feature configuration'},
            {'name': 'rules', 'path': 'sa/rules', 'serves_properties': sorted(c['property_id'] for c in checks),
             'kind_free_text': 'repository-specific rule engine (python3 stdlib): dominance, edge-constrained reachability, origin slicing, guard regions, finite decision tables, who-may-call'},
            {'name': 'witness', 'path': 'sa/witness', 'serves_properties': ['C01', 'C07', 'C10', 'C16', 'C17'],
             'kind_free_text': 'compile_fail,E0xxx doctests with compiling twins (cargo +nightly test --doc)'},
        ],
        'checks': checks,
        'not_applicable': na,
        'notes': 'Technique family: static analysis only. Nothing in a registered check runs the crate, its tests, a model or a solver. Known genuine defects are listed in findings/KNOWN_FINDINGS.txt by exact key.',
    }
    return m


if __name__ == '__main__':
    m = build()
    with open(os.path.join(VERIF, 'MANIFEST.json'), 'w') as f:
        json.dump(m, f, indent=1)
        f.write('\n')
    print('claimed:', [c['property_id'] for c in m['checks']])
    print('not applicable:', [n['property_id'] for n in m['not_applicable']])
