#!/usr/bin/env python3
"""Self-validation of the checker (DESIGN.md section 9): seeded break variants
must fire the named rule, benign variants must leave every rule silent.
Each variant is a list of exact-text edits applied to a scratch copy of /repo
(under mktemp, removed immediately); the check is then run against that copy.

  sa/selftest.py [--prop Cxx] [--only <variant-id>] [-j N]

exit 0: every variant behaved as expected;  exit 2: SELFTEST-FAILED lines.
"""
import argparse
import json
import os
import re
import shutil
import subprocess
import sys
import tempfile
from concurrent.futures import ThreadPoolExecutor

HERE = os.path.dirname(os.path.abspath(__file__))
VERIF = os.path.dirname(HERE)
REPO = os.environ.get('AM_REPO', '/repo')
sys.path.insert(0, HERE)
from selftest_variants import VARIANTS  # noqa: E402

# behaviour-preserving edits written by independent agents (benign/*.diff): every check must stay silent on them
import glob  # noqa: E402
for _p in sorted(glob.glob(os.path.join(VERIF, 'benign', '*.diff'))):
    _n = os.path.basename(_p)[:-5]
    VARIANTS.append({'id': 'benign:' + _n, 'prop': _n[:3], 'expect': 'silent', 'edits': [], 'patch': _p, 'witness': False})

# changes seeded by independent agents (seeded/<id>/patch.diff, DESIGN.md section 12): the check of the property they
# were written against must fire the rule recorded in meta.json
for _d in sorted(glob.glob(os.path.join(VERIF, 'seeded', 'C*'))):
    try:
        _m = json.load(open(os.path.join(_d, 'meta.json')))
        _rule = re.match(r'(C\d\d\.(R\d+|W))', _m['detected_by'][0]).group(1)
        if _rule.endswith('.W'):
            continue
        VARIANTS.append({'id': 'seed:' + os.path.basename(_d), 'prop': _m['property'], 'expect': _rule, 'edits': [],
                         'patch': os.path.join(_d, 'patch.diff'), 'witness': False})
    except Exception:
        pass


def make_copy():
    tmp = tempfile.mkdtemp(prefix='amself-')
    dst = os.path.join(tmp, 'repo')
    shutil.copytree(REPO, dst, ignore=shutil.ignore_patterns('target', '.git', 'assets', 'examples'))
    # examples are declared in Cargo.toml: keep the files cargo insists on
    ex = os.path.join(REPO, 'examples')
    if os.path.isdir(ex):
        shutil.copytree(ex, os.path.join(dst, 'examples'))
    return tmp, dst


def apply_edits(dst, edits):
    for rel, old, new in edits:
        p = os.path.join(dst, rel)
        t = open(p).read()
        if t.count(old) != 1:
            return 'edit anchor occurs %d times in %s: %r' % (t.count(old), rel, old[:60])
        open(p, 'w').write(t.replace(old, new))
    return None


def run_variant(v):
    tmp, dst = make_copy()
    try:
        err = apply_edits(dst, v['edits'])
        if err:
            return v, 'stale', err, ''
        if v.get('patch'):
            pp = subprocess.run('git init -q && git add -A && git -c user.email=x@x -c user.name=x commit -qm base && git apply --whitespace=nowarn %s' % v['patch'],
                                cwd=dst, shell=True, stdout=subprocess.PIPE, stderr=subprocess.STDOUT, text=True)
            if pp.returncode != 0:
                # written against an earlier tree of the crate: not applicable any more, not a failure of the checker
                return v, 'ok', 'skipped: patch does not apply to this tree', ''
        evid = os.path.join(tmp, 'evidence')
        env = dict(os.environ, AM_REPO=dst, AM_EVID=evid, AM_CACHE=os.path.join(tmp, 'cache'), AM_NO_SELFTEST='1')
        if not v.get('witness'):
            env['AM_NO_WITNESS'] = '1'
        # a behaviour-preserving variant must keep EVERY property silent, a break variant only needs its own check
        target = 'all' if v['expect'] == 'silent' else v['prop']
        p = subprocess.run([os.path.join(VERIF, 'check'), target, '--tier', 'quick'], env=env,
                           stdout=subprocess.PIPE, stderr=subprocess.STDOUT, text=True, cwd=VERIF)
        out = p.stdout
        fired = []
        for line in out.splitlines():
            if line.startswith('VIOLATION'):
                rp = line.split('replay=')[1].strip()
                try:
                    fired.append(json.load(open(rp))['rule'])
                except Exception:
                    fired.append('?')
        if p.returncode == 2:
            return v, 'error', out[-1500:], out
        if v['expect'] == 'silent':
            ok = p.returncode == 0 and not fired
        else:
            ok = p.returncode == 1 and v['expect'] in fired
        return v, ('ok' if ok else 'FAILED'), 'fired=%s rc=%d' % (sorted(set(fired)), p.returncode), out
    finally:
        shutil.rmtree(tmp, ignore_errors=True)


def run(prop=None, only=None, jobs=8, verbose=False):
    vs = [v for v in VARIANTS if (prop is None or v['prop'] == prop) and (only is None or re.search(only, v['id']))]
    results = []
    with ThreadPoolExecutor(max_workers=jobs) as ex:
        for v, status, info, out in ex.map(run_variant, vs):
            results.append({'id': v['id'], 'prop': v['prop'], 'expect': v['expect'], 'status': status, 'info': info})
            if verbose or status != 'ok':
                print('%-8s %-34s expect=%-10s %s' % (status, v['id'], v['expect'], info))
                if status not in ('ok',) and verbose:
                    print(out)
    return results


if __name__ == '__main__':
    ap = argparse.ArgumentParser()
    ap.add_argument('--prop')
    ap.add_argument('--only')
    ap.add_argument('-j', type=int, default=8)
    ap.add_argument('-v', action='store_true')
    a = ap.parse_args()
    res = run(a.prop, a.only, a.j, verbose=True)
    bad = [r for r in res if r['status'] != 'ok']
    for r in bad:
        print('SELFTEST-FAILED variant=%s expect=%s %s' % (r['id'], r['expect'], r['info']))
    print('%d variant(s), %d ok' % (len(res), len(res) - len(bad)))
    sys.exit(2 if bad else 0)
