#!/usr/bin/env python3
"""Freeze the names (and signatures) of the functions of the tree the rules were
confirmed on: sa/reference_fns.json.  Used only to decide which functions are
*new* (inlined into their callers, see rules/inline.py) or *renamed*; never to
raise an alarm by itself.  Re-run after a repair of /repo that adds functions:

    python3 sa/reference.py
"""
import json
import os
import sys

HERE = os.path.dirname(os.path.abspath(__file__))
sys.path.insert(0, HERE)
import extract  # noqa: E402


def main():
    cfgs = list(extract.QUICK) + sorted(extract.THOROUGH_EXTRA)
    paths, tree = extract.ensure_facts(cfgs)
    allf, per, sig, consts, callers = set(), {}, {}, set(), {}
    sig_cfg = {}
    fields_cfg = {}
    sys.path.insert(0, os.path.join(HERE, 'rules'))
    import inline
    for c, p in paths.items():
        d = json.load(open(p))
        names = sorted(b['path'] for b in d['bodies'] if b['kind'] in ('Fn', 'AssocFn') and b['promoted'] is None)
        # field names of structs and unions (by position), to recognise a field that was only renamed
        fields_cfg[c] = {a['path']: [[f['name'], f['ty']] for f in a['variants'][0]['fields']] for a in d['adts']
                         if a['kind'] in ('struct', 'union') and len(a['variants']) == 1}
        per[c] = names
        consts.update(b['path'] for b in d['bodies'] if b['kind'].startswith(('Const', 'AssocConst')) and b['promoted'] is None)
        allf.update(names)
        for f in d['fns']:
            if f['path'] in names:
                if f['path'] in sig and sig[f['path']] != [f['inputs'], f['output']]:
                    sig_cfg.setdefault(c, {})[f['path']] = [f['inputs'], f['output']]      # differs between configurations (cfg-gated twins)
                else:
                    sig[f['path']] = [f['inputs'], f['output']]
        for b in d['bodies']:
            if b['promoted'] is not None:
                continue
            who = b.get('root') or b['path']
            for bl in b['blocks']:
                cp = inline.callee_path(bl['term'])
                if cp:
                    callers.setdefault(cp, set()).add(who)
    out = {'tree': tree, 'all': sorted(allf), 'per_cfg': per, 'sig': sig, 'consts': sorted(consts), 'sig_cfg': sig_cfg, 'fields_cfg': fields_cfg, 'callers': {k: sorted(v) for k, v in callers.items() if k in allf}}
    json.dump(out, open(os.path.join(HERE, 'reference_fns.json'), 'w'), indent=0, sort_keys=True)
    print('%d functions over %d configurations (tree %s)' % (len(allf), len(per), tree))


if __name__ == '__main__':
    main()
