"""Runs the compile_fail witnesses + twins of sa/witness against the repository
under analysis (cargo +nightly test --doc: the stable toolchain ignores the
error code of compile_fail).  Returns {witness: 'ok' | 'FAILED ...'}."""
import hashlib
import os
import re
import shutil
import subprocess

HERE = os.path.dirname(os.path.abspath(__file__))
VERIF = os.path.dirname(HERE)
SRC = os.path.join(HERE, 'witness')

FEATURE_SETS = {
    'hr': '"hot-reloading", "utils"',
    'hr-pl': '"hot-reloading", "utils", "parking_lot"',
}
PROP_OF = {'W1a': 'C01', 'W1a2': 'C01', 'W1b': 'C01', 'W1c': 'C01', 'W7a': 'C07', 'W7b': 'C07', 'W7c': 'C07', 'W7d': 'C07', 'W7e': 'C07', 'W10a': 'C10', 'W10b': 'C10',
           'W13': 'C13', 'W16': 'C16', 'W16b': 'C16', 'W17': 'C17', 'W17b': 'C17'}


DOC = {
    'W1a': 'a &Handle cannot be held across AssetCache::remove (E0502)', 'W1a2': 'nor across LocalAssetCache::clear (E0502)',
    'W1b': 'a handle cannot outlive its cache (E0597)', 'W1c': 'same through AnyCache (E0597)',
    'W7a': 'enhance_hot_reloading needs a &\'static cache (E0597)', 'W7b': 'a read guard cannot outlive its cache (E0505)',
    'W7c': 'a mapped guard keeps the borrow (E0502)', 'W7d': 'the argument of map\'s closure cannot escape it (E0521)',
    'W7e': 'the argument of try_map\'s closure cannot escape it (E0521)', 'W10a': 'Handle::<String>::get does not exist (E0599)',
    'W10b': 'NotHotReloaded with HOT_RELOADED = true fails to build when get() is used (E0080)',
    'W13': 'downcast_ref yields an Option, not a handle (E0308)', 'W16': 'SharedBytes cannot be indexed mutably (E0594)',
    'W16b': 'SharedString has no &mut str access (E0596)', 'W17': 'OnceInitCell<_, !Sync> is not Sync (E0277)',
    'W17b': 'OnceInitCell<!Send, _> is not Sync (E0277)',
}


def run(repo, fset='hr'):
    key = hashlib.sha256((repo + '|' + fset).encode()).hexdigest()[:12]
    work = os.path.join(os.environ.get('AM_CACHE') or os.path.join(VERIF, '.cache'), 'witness', key)
    os.makedirs(os.path.join(work, 'src'), exist_ok=True)
    t = open(os.path.join(SRC, 'Cargo.toml.in')).read().replace('@REPO@', repo).replace('@FEATURES@', FEATURE_SETS[fset])
    with open(os.path.join(work, 'Cargo.toml'), 'w') as f:
        f.write(t)
    shutil.copy(os.path.join(SRC, 'src', 'lib.rs'), os.path.join(work, 'src', 'lib.rs'))
    lock = os.path.join(repo, 'Cargo.lock')
    if os.path.exists(lock):
        shutil.copy(lock, os.path.join(work, 'Cargo.lock'))
    env = dict(os.environ, CARGO_NET_OFFLINE='true', CARGO_TARGET_DIR=os.path.join(work, 'target'), RUSTFLAGS='-Awarnings', RUSTDOCFLAGS='-Awarnings')
    env.pop('RUSTC_WORKSPACE_WRAPPER', None)
    p = subprocess.run(['cargo', '+nightly', 'test', '--doc', '--offline', '--', '--test-threads', '8'], cwd=work, env=env,
                       stdout=subprocess.PIPE, stderr=subprocess.STDOUT, text=True)
    out = p.stdout
    res = {}
    for m in re.finditer(r'^test src/lib\.rs - (\w+) \(line (\d+)\)( - compile fail)? \.\.\. (\w+)', out, re.M):
        name, line, cf, status = m.group(1), m.group(2), bool(m.group(3)), m.group(4)
        res.setdefault(name, []).append(('compile_fail' if cf else 'twin', status))
    if not res:
        return None, out[-3000:]
    verdict = {}
    for name, rs in res.items():
        kinds = sorted(k for k, _ in rs)
        ok = all(s == 'ok' for _, s in rs) and 'compile_fail' in kinds and 'twin' in kinds
        verdict[name] = 'ok' if ok else 'FAILED %s' % rs
    return verdict, out[-3000:]


if __name__ == '__main__':
    import sys
    v, out = run(os.environ.get('AM_REPO', '/repo'), sys.argv[1] if len(sys.argv) > 1 else 'hr')
    print(v)
    if v is None or any(x != 'ok' for x in v.values()):
        print(out)
