"""Seeded variants of /repo for the checker's self-test (DESIGN.md section 9).
Each compiles and keeps the 30 pinned tests green (verified when written).
expect: a rule id that must fire, or 'silent' for a behaviour-preserving edit."""

VARIANTS = []


def V(id, prop, expect, *edits, witness=False):
    VARIANTS.append({'id': id, 'prop': prop, 'expect': expect, 'edits': list(edits), 'witness': witness})


E = 'src/entry.rs'

# ---- C18
V('c18-ge-for-gt', 'C18', 'C18.R1', (E, 'let newer = new > *self;', 'let newer = new >= *self;'))
V('c18-swap-for-fetchmax', 'C18', 'C18.R2', (E, 'new > self.fetch_max(new)', 'new > self.swap(new)'))
V('c18-atomic-ge', 'C18', 'C18.R2', (E, 'new > self.fetch_max(new)', 'new >= self.fetch_max(new)'))
V('c18-fetchmax-is-swap', 'C18', 'C18.R3', (E, 'ReloadId(self.0.fetch_max(new.0, Ordering::AcqRel))', 'ReloadId(self.0.swap(new.0, Ordering::AcqRel))'))
V('c18-relaxed-load', 'C18', 'C18.R3', (E, 'ReloadId(self.0.load(Ordering::Acquire))', 'ReloadId(self.0.load(Ordering::Relaxed))'))
V('c18-never-is-one', 'C18', 'C18.R3', (E, 'pub const NEVER: Self = Self(0);', 'pub const NEVER: Self = Self(1);'))
V('c18-always-store', 'C18', 'C18.R1', (E, '''        if newer {
            *self = new;
        }
        newer''', '''        *self = new;
        newer'''))
V('c18-benign-lt', 'C18', 'silent', (E, 'let newer = new > *self;', 'let newer = *self < new;'))
V('c18-benign-rename', 'C18', 'silent', (E, '''        let newer = new > *self;
        if newer {
            *self = new;
        }
        newer''', '''        let is_more_recent = new > *self;
        if is_more_recent {
            *self = new;
            return true;
        }
        false'''))

C = 'src/cache.rs'
L = 'src/local_cache.rs'
U = 'src/utils/private.rs'
A = 'src/anycache.rs'

# ---- C01
V('c01-insert-replaces', 'C01', 'C01.R1', (C, '''        let entry = shard.entry(key).or_insert_with(|| {
            on_insert();
            entry
        });
        unsafe { entry.inner().extend_lifetime() }''', '''        on_insert();
        shard.insert(key.clone(), entry);
        let entry = shard.get(&key).unwrap();
        unsafe { entry.inner().extend_lifetime() }'''))
V('c01-local-insert-replaces', 'C01', 'C01.R1', (L, '''        let entry = map.entry(key).or_insert_with(|| {''', '''        map.remove(&key);
        let entry = map.entry(key).or_insert_with(|| {'''))
V('c01-shared-evict', 'C01', 'C01.R1', (C, '''    fn clear(&mut self) {''', '''    #[allow(dead_code)]
    pub(crate) fn evict(&self, id: &str, type_id: TypeId) {
        let key = BorrowedKey::new_with(id, type_id);
        self.get_shard(key).0.write().remove(&key as &dyn Key);
    }

    fn clear(&mut self) {'''))
V('c01-hash-only-id', 'C01', 'C01.R4', (U, '''        self.type_id().hash(h);
        self.id().hash(h);''', '''        self.id().hash(h);'''))
V('c01-hash-reordered', 'C01', 'C01.R4', (U, '''pub(crate) struct OwnedKey {
    pub type_id: TypeId,
    pub id: SharedString,
}''', '''pub(crate) struct OwnedKey {
    pub id: SharedString,
    pub type_id: TypeId,
}'''))
V('c01-eq-drops-type', 'C01', 'C01.R4', (U, '''        self.type_id() == other.type_id() && self.id() == other.id()''', '''        self.id() == other.id()'''))
V('c01-shard-mut-differs', 'C01', 'C01.R7', (C, '''    fn get_shard_mut(&mut self, key: BorrowedKey) -> &mut Shard {
        use std::hash::*;

        let mut hasher = self.hash_builder.build_hasher();
        key.hash(&mut hasher);
        let id = (hasher.finish() as usize) & (self.shards.len() - 1);''', '''    fn get_shard_mut(&mut self, key: BorrowedKey) -> &mut Shard {
        use std::hash::*;

        let mut hasher = self.hash_builder.build_hasher();
        key.id().hash(&mut hasher);
        let id = (hasher.finish() as usize) & (self.shards.len() - 1);'''))
V('c01-return-own-entry', 'C01', 'C01.R2', (C, '''        let key = OwnedKey::new_with(entry.id().clone(), entry.type_id());
        let shard = &mut *self.get_shard(key.borrow()).0.write();
        let entry = shard.entry(key).or_insert_with(|| {
            on_insert();
            entry
        });
        unsafe { entry.inner().extend_lifetime() }''', '''        let key = OwnedKey::new_with(entry.id().clone(), entry.type_id());
        let ptr = unsafe { entry.inner().extend_lifetime() };
        let shard = &mut *self.get_shard(key.borrow()).0.write();
        shard.entry(key).or_insert_with(|| {
            on_insert();
            entry
        });
        ptr'''))
V('c01-benign-helper', 'C01', 'silent', (C, '''    fn clear(&mut self) {
        for shard in &mut *self.shards {
            shard.0.get_mut().clear();
        }
    }''', '''    fn clear(&mut self) {
        for shard in self.shards.iter_mut() {
            let map = shard.0.get_mut();
            map.clear();
        }
    }

    #[allow(dead_code)]
    pub(crate) fn len(&self) -> usize {
        self.shards.iter().map(|s| s.0.read().len()).sum()
    }'''))
V('c01-benign-match', 'C01', 'silent', (C, '''        let entry = shard.get(&key as &dyn Key)?;
        unsafe { Some(entry.inner().extend_lifetime()) }''', '''        match shard.get(&key as &dyn Key) {
            Some(entry) => unsafe { Some(entry.inner().extend_lifetime()) },
            None => None,
        }'''))

# ---- C02
V('c02-anycache-contains-looks-up', 'C02', 'C02.R1', (A, '''        self.cache._contains::<T>(id)''', '''        self.cache._get_cached::<T>(id).is_some()'''))
V('c02-get-cached-loads', 'C02', 'C02.R3', (A, '''        self.assets().get(id, typ.type_id)
    }''', '''        self.assets()
            .get(id, typ.type_id)
            .or_else(|| self.add_asset(id, typ).ok())
    }'''))
V('c02-clear-skips-a-shard', 'C02', 'C02.R4', (C, '''        for shard in &mut *self.shards {''', '''        for shard in self.shards.iter_mut().skip(1) {'''))
V('c02-local-take-wrong-type', 'C02', 'C02.R4', (L, '''    fn take(&mut self, id: &str, type_id: TypeId) -> Option<CacheEntry> {
        let key = BorrowedKey::new_with(id, type_id);''', '''    fn take(&mut self, id: &str, type_id: TypeId) -> Option<CacheEntry> {
        let type_id = if id.is_empty() { TypeId::of::<()>() } else { type_id };
        let key = BorrowedKey::new_with(id, type_id);'''))
V('c02-load-owned-caches', 'C02', 'C02.R1', (A, '''    fn _load_owned<T: Compound>(&self, id: &str) -> Result<T, Error> {
        let entry = self.load_owned_entry(id, Type::of::<T>())?;''', '''    fn _load_owned<T: Compound>(&self, id: &str) -> Result<T, Error> {
        let _ = self.load_entry(id, Type::of::<T>());
        let entry = self.load_owned_entry(id, Type::of::<T>())?;'''))
V('c02-insert-before-check', 'C02', 'C02.R2', (A, '''        let entry = entry?;

        // Only a value that is actually stored''', '''        let entry = match entry {
            Ok(e) => e,
            Err(err) => {
                // remember the failure
                self.assets().insert(CacheEntry::new(0u8, id, || false), || ());
                return Err(err);
            }
        };

        // Only a value that is actually stored'''))
V('c02-benign-remove-match', 'C02', 'silent', (C, '''        self.take(id, type_id).is_some()''', '''        match self.take(id, type_id) {
            Some(_) => true,
            None => false,
        }'''))
V('c02-benign-local-contains-direct', 'C02', 'silent', (L, '''        self._contains::<T>(id)''', '''        crate::anycache::AssetMap::contains_key(&self.assets, id, TypeId::of::<T>())'''))

H = 'src/hot_reloading/mod.rs'
HP = 'src/hot_reloading/paths.rs'
HD = 'src/hot_reloading/dependencies.rs'
HRc = 'src/hot_reloading/records.rs'
HW = 'src/hot_reloading/watcher.rs'

# ---- C07
V('c07-map-drops-guard', 'C07', 'C07.R2', (E, '''            value: f(this.value),
            #[cfg(feature = "hot-reloading")]
            guard: this.guard,''', '''            value: f(this.value),
            #[cfg(feature = "hot-reloading")]
            guard: None,'''))
V('c07-trymap-drops-guard', 'C07', 'C07.R2', (E, '''                value,
                #[cfg(feature = "hot-reloading")]
                guard: this.guard,''', '''                value,
                #[cfg(feature = "hot-reloading")]
                guard: None,'''))
V('c07-zero-duration-lock', 'C07', 'C07.R3', (E, 'let _g = d.lock.write();', 'let _g = d.lock.write();\n                drop(_g);'))
V('c07-bump-before-lock', 'C07', 'C07.R3', (E, '''                let _g = d.lock.write();
                swap_any(&mut *self.value.get(), value.0.value.get_mut());
                d.reload.increment();''', '''                d.reload.increment();
                let _g = d.lock.write();
                swap_any(&mut *self.value.get(), value.0.value.get_mut());'''))
V('c07-read-lock-for-write', 'C07', 'C07.R3', (E, 'let _g = d.lock.write();', 'let _g = d.lock.read();'))
V('c07-deref-before-guard', 'C07', 'C07.R1', (E, '''        #[cfg(feature = "hot-reloading")]
        let guard = self.dynamic.as_ref().map(|d| d.lock.read());

        AssetReadGuard {
            value: unsafe { &*self.value.get() },''', '''        let value = unsafe { &*self.value.get() };
        #[cfg(feature = "hot-reloading")]
        let guard = self.dynamic.as_ref().map(|d| d.lock.read());

        AssetReadGuard {
            value,'''))
V('c07-get-unchecked', 'C07', 'C07.R1', (E, '''        if self.dynamic.is_some() {
            panic!(''', '''        if self.dynamic.is_some() && self.id.is_empty() {
            panic!('''))
V('c07-reload-does-not-wait', 'C07', 'C07.R5', (H, '''            // When the hot-reloading thread is done, it sends back our back our token
            self.answers.wait_for_answer(token);''', '''            // fire and forget
            let _ = token;'''))
V('c07-events-update-local', 'C07', 'C07.R5', (HP, '''        if let CacheKind::Static(cache, reloader) = &mut self.cache {
            let cache = BorrowedCache::new(cache, reloader, &self.source);
            run_update(&mut self.to_reload, &mut self.deps, cache);
        }
    }

    /// Drop''', '''        if let CacheKind::Static(cache, reloader) = &mut self.cache {
            let cache = BorrowedCache::new(cache, reloader, &self.source);
            run_update(&mut self.to_reload, &mut self.deps, cache);
        } else if let Some((cache, reloader)) = self.last_local.take() {
            let cache = BorrowedCache::new(unsafe { &*cache }, unsafe { &*reloader }, &self.source);
            run_update(&mut self.to_reload, &mut self.deps, cache);
        }
    }

    /// Drop'''), (HP, '''    cache: CacheKind,
    deps: DepsGraph,
}''', '''    cache: CacheKind,
    deps: DepsGraph,
    last_local: Option<(*const AssetMap, *const super::HotReloader)>,
}'''), (HP, '''            cache: CacheKind::Local,
            deps: DepsGraph::new(),''', '''            cache: CacheKind::Local,
            deps: DepsGraph::new(),
            last_local: None,'''), (HP, '''        if let CacheKind::Local = &mut self.cache {
            let cache = BorrowedCache::new(cache, reloader, &self.source);
            run_update(&mut self.to_reload, &mut self.deps, cache);
        }
    }

    fn update_if_static''', '''        if let CacheKind::Local = &mut self.cache {
            self.last_local = Some((cache, reloader));
            let cache = BorrowedCache::new(cache, reloader, &self.source);
            run_update(&mut self.to_reload, &mut self.deps, cache);
        }
    }

    fn update_if_static'''))
V('c07-benign-write-helper', 'C07', 'silent', (E, '''        if let Some(d) = &self.dynamic {
            unsafe {
                let _g = d.lock.write();
                swap_any(&mut *self.value.get(), value.0.value.get_mut());
                d.reload.increment();
                d.reload_global.store(true, Ordering::Release);
            }
            return;
        }

        wrong_handle_type();
    }''', '''        match &self.dynamic {
            Some(d) => self.write_locked(d, value),
            None => wrong_handle_type(),
        }
    }

    #[cfg(feature = "hot-reloading")]
    fn write_locked(&self, dynamic: &Dynamic, mut new_value: CacheEntry) {
        let guard = dynamic.lock.write();
        unsafe {
            swap_any(&mut *self.value.get(), new_value.0.value.get_mut());
        }
        dynamic.reload.increment();
        dynamic.reload_global.store(true, Ordering::Release);
        drop(guard);
    }'''))

# ---- C06
V('c06-write-on-err', 'C06', 'C06.R2', ('src/anycache.rs', '''            Err(err) => {
                log::warn!("Error reloading \\"{}\\": {}", err.id(), err.reason());
                None
            }''', '''            Err(err) => {
                log::warn!("Error reloading \\"{}\\": {}", err.id(), err.reason());
                Some(deps)
            }'''))
V('c06-double-increment', 'C06', 'C06.R1', (E, '''    pub fn last_reload_id(&self) -> ReloadId {
        self.either(|| ReloadId::NEVER, |this| this.reload.load())
    }

    /// Returns `true` if the asset has been reloaded since last call to this
    /// method with **any** handle on this asset.
    ///
    /// Note that this method and [`reload_watcher`] are totally independant,
    /// and the result of the two functions do not depend on whether the other
    /// was called.
    ///
    /// [`reload_watcher`]: Self::reload_watcher
    #[inline]
    pub fn reloaded_global(&self) -> bool {
        self.either(
            || false,
            |this| this.reload_global.swap(false, Ordering::Acquire),
        )
    }

    #[cfg(feature = "hot-reloading")]
    pub(crate) fn write''', '''    pub fn last_reload_id(&self) -> ReloadId {
        self.either(|| ReloadId::NEVER, |this| this.reload.swap(ReloadId::NEVER))
    }

    /// Returns `true` if the asset has been reloaded since last call to this
    /// method with **any** handle on this asset.
    ///
    /// Note that this method and [`reload_watcher`] are totally independant,
    /// and the result of the two functions do not depend on whether the other
    /// was called.
    ///
    /// [`reload_watcher`]: Self::reload_watcher
    #[inline]
    pub fn reloaded_global(&self) -> bool {
        self.either(
            || false,
            |this| this.reload_global.swap(false, Ordering::Acquire),
        )
    }

    #[cfg(feature = "hot-reloading")]
    pub(crate) fn write'''))
V('c06-global-not-reset', 'C06', 'C06.R1', (E, '''impl<T> Handle<T> {
    #[inline]
    fn either''', '''impl<T> Handle<T> {
    /// Marks the asset as reloaded.
    #[cfg(feature = "hot-reloading")]
    pub fn touch(&self) {
        if let Some(d) = &self.inner.dynamic {
            d.reload_global.store(true, Ordering::Release);
        }
    }

    #[inline]
    fn either'''))
V('c06-starts-at-one', 'C06', 'C06.R4', (E, 'reload: AtomicReloadId::new(),', 'reload: AtomicReloadId::with_value(ReloadId(1)),'))
V('c06-push-without-visited-check', 'C06', 'C06.R3', (HD, '''        if sort_data.visited.contains(&key as &dyn Key) {
            return;
        }
''', ''''''))
V('c06-no-clear-of-changed', 'C06', 'C06.R3', (HP, '''    let to_update = deps.topological_sort_from(changed.iter());
    changed.clear();''', '''    let to_update = deps.topological_sort_from(changed.iter());'''))
V('c06-static-arm-true', 'C06', 'C06.R4', (E, '''impl<T> Handle<T>
where
    T: NotHotReloaded,''', '''impl<T> Handle<T> {
    /// Non-atomic version of `reloaded_global`
    pub fn peek_reloaded_global(&self) -> bool {
        self.either(|| true, |this| this.reload_global.load(Ordering::Acquire))
    }
}

impl<T> Handle<T>
where
    T: NotHotReloaded,'''))

# ---- C13
V('c13-downcast-unchecked', 'C13', 'C13.R1', (E, '''        if self.is::<T>() {
            unsafe { Some(&*(self as *const Self as *const EntryStorage<T>)) }
        } else {
            None
        }''', '''        if self.is::<T>() || std::mem::size_of::<T>() == 0 {
            unsafe { Some(&*(self as *const Self as *const EntryStorage<T>)) }
        } else {
            None
        }'''))
V('c13-box-downcast-inverted', 'C13', 'C13.R1', (E, '''        if self.is::<T>() {
            unsafe { Ok(Box::from_raw(Box::into_raw(self) as *mut EntryStorage<T>)) }
        } else {
            Err(self)
        }''', '''        if !self.is::<T>() && self.id.is_empty() {
            Err(self)
        } else {
            unsafe { Ok(Box::from_raw(Box::into_raw(self) as *mut EntryStorage<T>)) }
        }'''))
V('c13-handle-not-transparent', 'C13', 'C13.R1', (E, '''#[repr(transparent)]
pub struct Handle<T> {''', '''pub struct Handle<T> {'''))
V('c13-debug-assert-only', 'C13', 'C13.R2', (E, 'assert!(self.type_id == value.0.type_id);', 'debug_assert!(self.type_id == value.0.type_id);'))
V('c13-forget-old-value', 'C13', 'C13.R3', (E, '''                d.reload_global.store(true, Ordering::Release);
            }
            return;''', '''                d.reload_global.store(true, Ordering::Release);
            }
            std::mem::forget(value);
            return;'''))
V('c13-take-duplicates', 'C13', 'C13.R3', (C, '''        let (asset, _) = self.assets.take(id, TypeId::of::<T>())?.into_inner();
''', '''        let (asset, _) = self.assets.take(id, TypeId::of::<T>())?.into_inner();
        let copy = unsafe { std::ptr::read(&asset) };
        drop(copy);
'''))
V('c13-is-compares-wrong-type', 'C13', 'C13.R1', (E, '''    fn is<T: 'static>(&self) -> bool {
        self.type_id == TypeId::of::<T>()
    }

    #[inline]
    fn downcast_ref''', '''    fn is<T: 'static>(&self) -> bool {
        self.type_id == TypeId::of::<T>() || self.type_id == TypeId::of::<Box<T>>()
    }

    #[inline]
    fn downcast_ref'''))
V('c13-benign-downcast-match', 'C13', 'silent', (E, '''        if self.is::<T>() {
            unsafe { Some(&*(self as *const Self as *const EntryStorage<T>)) }
        } else {
            None
        }''', '''        if !self.is::<T>() {
            return None;
        }
        let ptr = self as *const Self as *const EntryStorage<T>;
        unsafe { Some(&*ptr) }'''))

# ---- C15
V('c15-reintroduce-F4', 'C15', 'C15.R2', (H, '''                Err(channel::TryRecvError::Empty) => break,
                // The cache was dropped, we can stop now
                Err(channel::TryRecvError::Disconnected) => break 'reload,''', '''                Err(_) => break,'''))
V('c15-events-disconnect-ignored', 'C15', 'C15.R2', (H, '''                // We won't receive events anymore, we can stop now
                Err(crossbeam_channel::TryRecvError::Disconnected) => break,''', '''                Err(crossbeam_channel::TryRecvError::Disconnected) => (),'''))
V('c15-busy-poll', 'C15', 'C15.R1', (H, '''        let ready = select.ready();
''', '''        let ready = match select.try_ready() {
            Ok(r) => r,
            Err(_) => continue,
        };
'''))
V('c15-watcher-kept', 'C15', 'C15.R3', (HW, '''                    if self.events.send_multiple(ids).is_err() {
                        drop(self.watcher.take());
                    }''', '''                    if self.events.send_multiple(ids).is_err() {
                        log::trace!("reloader is gone");
                    }'''))
V('c15-benign-return', 'C15', 'silent', (H, '''                Err(channel::TryRecvError::Disconnected) => break 'reload,''', '''                Err(channel::TryRecvError::Disconnected) => {
                    log::info!("Stopping hot-reloading");
                    return;
                }'''))

# ---- C08
V('c08-reintroduce-F1', 'C08', 'C08.R1', (HD, '''        sort_data.visited.insert(key.into_owned());

        for rdep in node.rdeps.iter() {
            self.visit(sort_data, rdep.as_borrowed());
        }
''', '''        for rdep in node.rdeps.iter() {
            self.visit(sort_data, rdep.as_borrowed());
        }
        sort_data.visited.insert(key.into_owned());
'''))
V('c08-reintroduce-F2', 'C08', 'C08.R2', (H, '''        *token = None;
        // Wake up the hot-reloading thread if it is waiting to send the next
        // answer
        self.condvar.notify_all();''', '''        *token = None;'''))
V('c08-reintroduce-F3', 'C08', 'C08.R3', (A, '''        let load_asset = || {
            let load = std::panic::AssertUnwindSafe(|| (typ.inner.load)(self, id.clone()));
            std::panic::catch_unwind(load)
                .unwrap_or_else(|_| Err(Error::new(id, "panicked while reloading".into())))
        };''', '''        let load_asset = || (typ.inner.load)(self, id);'''))
V('c08-notify-forgets-notify_all', 'C08', 'C08.R2', (H, '''        *guard = Some(token);
        self.condvar.notify_all();''', '''        *guard = Some(token);'''))
V('c08-answer-before-update', 'C08', 'C08.R3', (H, '''                    unsafe {
                        cache.update_if_local(ptr.as_ref(), reloader.as_ref());
                    }
                    answers.notify(token);''', '''                    if ready == 0 {
                        unsafe {
                            cache.update_if_local(ptr.as_ref(), reloader.as_ref());
                        }
                        answers.notify(token);
                    }'''))
V('c08-wait-even-if-send-failed', 'C08', 'C08.R4', (H, '''        if self
            .sender
            .send(CacheMessage::Ptr(
                NonNull::from(map),
                NonNull::from(self),
                token,
            ))
            .is_ok()
        {
            // When the hot-reloading thread is done, it sends back our back our token
            self.answers.wait_for_answer(token);
        }''', '''        let _ = self.sender.send(CacheMessage::Ptr(
            NonNull::from(map),
            NonNull::from(self),
            token,
        ));
        self.answers.wait_for_answer(token);'''))
V('c08-wait-for-any-token', 'C08', 'C08.R4', (H, '''|t| *t != Some(token));''', '''|t| t.is_none());'''))
V('c08-load-under-shard-lock', 'C08', 'C08.R5', (A, '''        let entry = entry?;

        // Only a value that is actually stored''', '''        let entry = entry?;
        let _busy = BUSY.lock().unwrap_or_else(|e| e.into_inner());
        let again = crate::asset::load_and_record(cache, entry.id().clone(), typ);
        drop(again);

        // Only a value that is actually stored'''), (A, '''pub(crate) trait RawCache: Sized {''', '''static BUSY: std::sync::Mutex<()> = std::sync::Mutex::new(());

pub(crate) trait RawCache: Sized {'''))
V('c08-benign-visit-early-insert', 'C08', 'silent', (HD, '''        if sort_data.visited.contains(&key as &dyn Key) {
            return;
        }
''', '''        let already = sort_data.visited.contains(&key as &dyn Key);
        if already {
            return;
        }
'''))

# ---- C09
V('c09-manual-restore', 'C09', 'C09.R1', (HRc, '''        let _guard = CellGuard::replace(rec, None);
        f()''', '''        let old = rec.replace(None);
        let res = f();
        rec.set(old);
        res'''))
V('c09-record-guard-dropped-early', 'C09', 'C09.R1', (HRc, '''        let _guard = CellGuard::replace(rec, Some(NonNull::from(&mut record)));
        let result = f();''', '''        let guard = CellGuard::replace(rec, Some(NonNull::from(&mut record)));
        drop(guard);
        let result = f();'''))
V('c09-guard-forgotten', 'C09', 'C09.R1', (HRc, '''        let _guard = CellGuard::replace(rec, None);
        f()''', '''        let guard = CellGuard::replace(rec, None);
        let res = f();
        std::mem::forget(guard);
        res'''))
V('c09-drop-restores-nothing', 'C09', 'C09.R1', (HRc, '''        self.cell.set(self.val);''', '''        let _ = self.val;'''))
V('c09-wrap-unwraps', 'C09', 'C09.R2', (U, '''    param.unwrap_or_else(sync::PoisonError::into_inner)''', '''    param.unwrap()'''))
V('c09-graph-updated-on-failure', 'C09', 'C09.R3', (HD, '''                if let Some(new_deps) = new_deps {
                    self.insert(Dependency::Asset(key), new_deps, typ);
                }''', '''                let new_deps = new_deps.unwrap_or_else(Dependencies::empty);
                self.insert(Dependency::Asset(key), new_deps, typ);'''))
V('c09-initial-load-swallows-panic', 'C09', 'C09.R4', ('src/asset.rs', '''    ((typ.inner.load)(cache, id), Default::default())
}''', '''    let id2 = id.clone();
    let res = std::panic::catch_unwind(std::panic::AssertUnwindSafe(|| (typ.inner.load)(cache, id)))
        .unwrap_or_else(|_| Err(Error::new(id2, "panicked".into())));
    (res, Default::default())
}'''))
V('c09-benign-guard-named', 'C09', 'silent', (HRc, '''        let _guard = CellGuard::replace(rec, None);
        f()''', '''        let restore_on_exit = CellGuard::replace(rec, None);
        let res = f();
        drop(restore_on_exit);
        res'''))

# ---- C14
V('c14-no-reloader-check', 'C14', 'C14.R3', (HRc, '''    fn insert_file(&mut self, reloader: &HotReloader, id: SharedString, ext: SharedString) {
        if self.reloader == reloader {''', '''    fn insert_file(&mut self, reloader: &HotReloader, id: SharedString, ext: SharedString) {
        if self.reloader == reloader || !id.is_empty() {'''))
V('c14-global-not-thread-local', 'C14', 'C14.R1', (HRc, '''thread_local! {
    static RECORDING: Cell<Option<NonNull<Record>>> = const { Cell::new(None) };
}''', '''struct SyncCell(Cell<Option<NonNull<Record>>>);
unsafe impl Sync for SyncCell {}
struct Global(SyncCell);
impl Global {
    fn with<R>(&'static self, f: impl FnOnce(&Cell<Option<NonNull<Record>>>) -> R) -> R {
        f(&self.0 .0)
    }
}
static RECORDING: Global = Global(SyncCell(Cell::new(None)));'''))
V('c14-record-only-when-present', 'C14', 'C14.R4', (A, '''                let (id, entry) = match self.assets().get(id, typ.type_id) {
                    Some(entry) => (entry.id().clone(), Some(entry)),
                    None => (id.into(), None),
                };
                records::add_record(reloader, id, typ.type_id);
                return entry;''', '''                let entry = self.assets().get(id, typ.type_id);
                if let Some(entry) = entry {
                    records::add_record(reloader, entry.id().clone(), typ.type_id);
                }
                return entry;'''))
V('c14-owned-load-not-recorded', 'C14', 'C14.R4', (A, '''        #[cfg(feature = "hot-reloading")]
        if typ.is_hot_reloaded() {
            if let Some(reloader) = self.reloader() {
                records::add_record(reloader, id.clone(), typ.type_id);
            }
        }

        let (entry, _deps) = crate::asset::load_and_record''', '''        let (entry, _deps) = crate::asset::load_and_record'''))
V('c14-always-nested-record', 'C14', 'C14.R4', ('src/asset.rs', '''    #[cfg(feature = "hot-reloading")]
    if typ.is_hot_reloaded() {
        if let Some(reloader) = cache.reloader() {''', '''    #[cfg(feature = "hot-reloading")]
    {
        if let Some(reloader) = cache.reloader() {'''))
V('c14-source-read-unrecorded-helper', 'C14', 'C14.R5', (A, '''    fn exists(&self, entry: DirEntry) -> bool {
        self.get_source().exists(entry)
    }

    fn get_cached_entry_inner''', '''    fn exists(&self, entry: DirEntry) -> bool {
        #[cfg(feature = "hot-reloading")]
        if let (Some(reloader), DirEntry::Directory(id)) = (self.reloader(), entry) {
            records::add_dir_record(reloader, id);
        }
        self.get_source().exists(entry)
    }

    fn get_cached_entry_inner'''))

# ---- C05
V('c05-read-unrecorded', 'C05', 'C05.R1', (A, '''        #[cfg(feature = "hot-reloading")]
        if let Some(reloader) = self.reloader() {
            records::add_file_record(reloader, id, ext);
        }
        self.get_source().read(id, ext)''', '''        let res = self.get_source().read(id, ext);
        #[cfg(feature = "hot-reloading")]
        if let (Some(reloader), true) = (self.reloader(), res.is_ok()) {
            records::add_file_record(reloader, id, ext);
        }
        res'''))
V('c05-dir-record-dropped', 'C05', 'C05.R1', (A, '''        #[cfg(feature = "hot-reloading")]
        if let Some(reloader) = self.reloader() {
            records::add_dir_record(reloader, id);
        }
        self.get_source().read_dir(id, f)''', '''        self.get_source().read_dir(id, f)'''))
V('c05-anysource-bypass', 'C05', 'C05.R1', (A, '''    fn read(&self, id: &str, ext: &str) -> io::Result<crate::source::FileContent> {
        self.cache.read(id, ext)
    }''', '''    fn read(&self, id: &str, ext: &str) -> io::Result<crate::source::FileContent> {
        if ext.is_empty() {
            return self.cache.read_unrecorded(id, ext);
        }
        self.cache.read(id, ext)
    }'''), (A, '''    fn read_dir(&self, id: &str, f: &mut dyn FnMut(DirEntry)) -> io::Result<()>;

    fn exists(&self, entry: DirEntry) -> bool;

    fn get_cached_entry_inner''', '''    fn read_dir(&self, id: &str, f: &mut dyn FnMut(DirEntry)) -> io::Result<()>;

    fn read_unrecorded(&self, id: &str, ext: &str) -> io::Result<crate::source::FileContent>;

    fn exists(&self, entry: DirEntry) -> bool;

    fn get_cached_entry_inner'''), (A, '''    fn exists(&self, entry: DirEntry) -> bool {
        self.get_source().exists(entry)
    }

    fn get_cached_entry_inner''', '''    fn read_unrecorded(&self, id: &str, ext: &str) -> io::Result<crate::source::FileContent> {
        self.get_source().read(id, ext)
    }

    fn exists(&self, entry: DirEntry) -> bool {
        self.get_source().exists(entry)
    }

    fn get_cached_entry_inner'''))
V('c05-register-empty-deps', 'C05', 'C05.R2', (A, '''                reloader.add_asset(id, deps, typ);''', '''                drop(deps);
                reloader.add_asset(id, crate::hot_reloading::Dependencies::empty(), typ);'''))
V('c05-no-rev', 'C05', 'C05.R3', (HD, '''        self.0.into_iter().rev()''', '''        self.0.into_iter()'''))
V('c05-preorder-push', 'C05', 'C05.R3', (HD, '''        for rdep in node.rdeps.iter() {
            self.visit(sort_data, rdep.as_borrowed());
        }

        if let BorrowedDependency::Asset(key) = key {
            sort_data.list.push(key.clone());
        }''', '''        if let BorrowedDependency::Asset(key) = key {
            sort_data.list.push(key.clone());
        }

        for rdep in node.rdeps.iter() {
            self.visit(sort_data, rdep.as_borrowed());
        }'''))
V('c05-stale-rdeps-kept', 'C05', 'C05.R4', (HD, '''                let removed: Vec<_> = entry.deps.difference(&deps).cloned().collect();''', '''                let removed: Vec<_> = deps.difference(&entry.deps).cloned().collect();'''))
V('c05-no-reverse-edge', 'C05', 'C05.R4', (HD, '''            let entry = self.0.entry(key.clone()).or_default();
            entry.rdeps.insert(asset_key.clone());''', '''            let _entry = self.0.entry(key.clone()).or_default();'''))
V('c05-events-first', 'C05', 'C05.R5', (H, '''        let ready = select.ready();

        loop {''', '''        let ready = select.ready();

        if ready == 1 {
            if let Ok(msg) = events.try_recv() {
                cache.handle_events(msg);
            }
        }

        loop {'''))
V('c05-borrowed-variants-reordered', 'C05', 'C05.R6', (HRc, '''pub(crate) enum BorrowedDependency<'a> {
    File(&'a SharedString, &'a SharedString),
    Directory(&'a SharedString),
    Asset(&'a OwnedKey),
}''', '''pub(crate) enum BorrowedDependency<'a> {
    Directory(&'a SharedString),
    File(&'a SharedString, &'a SharedString),
    Asset(&'a OwnedKey),
}'''))

# ---- C10
V('c10-or-for-and', 'C10', 'C10.R1', (E, 'let inner = if T::HOT_RELOADED && _mutable() {', 'let inner = if T::HOT_RELOADED || _mutable() {'))
V('c10-ignore-mutable', 'C10', 'C10.R1', (E, 'let inner = if T::HOT_RELOADED && _mutable() {', 'let inner = if T::HOT_RELOADED {'))
V('c10-storable-default-true', 'C10', 'C10.R1', ('src/asset.rs', '''pub trait Storable: Sized + Send + Sync + 'static {
    #[doc(hidden)]
    const HOT_RELOADED: bool = false;''', '''pub trait Storable: Sized + Send + Sync + 'static {
    #[doc(hidden)]
    const HOT_RELOADED: bool = true;'''))
V('c10-reintroduce-F5-remove', 'C10', 'C10.R5', (C, '''        #[cfg(feature = "hot-reloading")]
        if removed {
            self.forget_asset(id, TypeId::of::<T>());
        }
''', ''''''))
V('c10-reintroduce-F5-clear', 'C10', 'C10.R5', (HP, '''        // Nothing is cached anymore, so there is nothing left to reload
        self.deps = DepsGraph::new();''', ''''''))
V('c10-remove-handler-noop', 'C10', 'C10.R5', (HD, '''        if let Some(node) = self.0.get_mut(&key as &dyn Key) {
            node.typ = None;
        }''', '''        let _ = self.0.get(&key as &dyn Key);'''))
V('c10-reintroduce-F7', 'C10', 'C10.R3', (A, '''            reloader.add_owned_asset(id, deps, typ);''', '''            reloader.add_asset(id, deps, typ);'''))
V('c10-owned-registers-some', 'C10', 'C10.R6', (HD, '''            self.insert_node(asset_key, deps, None);''', '''            self.insert_node(asset_key, deps, self.0.values().find_map(|n| n.typ));'''))
V('c10-get-or-insert-registers', 'C10', 'C10.R3', (A, '''        let entry = CacheEntry::new(asset, id, || self._has_reloader());

        self.insert(entry)''', '''        let entry = CacheEntry::new(asset, id.clone(), || self._has_reloader());

        #[cfg(feature = "hot-reloading")]
        if let Some(reloader) = self.reloader() {
            reloader.add_asset(id, Dependencies::empty(), Type::of::<T>());
        }

        self.insert(entry)'''))
V('c10-reload-typ-none-too', 'C10', 'C10.R3', (HD, '''            if let Some(typ) = entry.typ {
                let new_deps''', '''            if let Some(typ) = entry.typ.or(self.1) {
                let new_deps'''), (HD, '''pub(crate) struct DepsGraph(HashMap<Dependency, GraphNode>);''', '''pub(crate) struct DepsGraph(HashMap<Dependency, GraphNode>, Option<Type>);'''), (HD, '''        DepsGraph(HashMap::new())''', '''        DepsGraph(HashMap::new(), None)'''))
V('c10-write-static-entry', 'C10', 'C10.R2', (E, '''        if let Some(d) = &self.dynamic {
            unsafe {
                let _g = d.lock.write();''', '''        static FALLBACK: Dynamic = Dynamic {
            lock: RwLock::new_const(()),
            reload_global: AtomicBool::new(false),
            reload: AtomicReloadId::new(),
        };
        if let Some(d) = Some(self.dynamic.as_ref().unwrap_or(&FALLBACK)) {
            unsafe {
                let _g = d.lock.write();'''), (U, '''impl<T: ?Sized> RwLock<T> {
    #[inline]
    pub fn read''', '''impl<T> RwLock<T> {
    #[allow(dead_code)]
    pub const fn new_const(inner: T) -> Self {
        Self(sync::RwLock::new(inner))
    }
}

impl<T: ?Sized> RwLock<T> {
    #[inline]
    pub fn read'''))
V('c10-local-cache-gets-reloader', 'C10', 'C10.R4', (C, '''    pub fn without_hot_reloading(source: S) -> AssetCache<S> {
        Self {
            #[cfg(feature = "hot-reloading")]
            reloader: None,''', '''    pub fn without_hot_reloading(source: S) -> AssetCache<S> {
        Self {
            #[cfg(feature = "hot-reloading")]
            reloader: HotReloader::make(&source),'''))

AS = 'src/asset.rs'
ER = 'src/error.rs'
SM = 'src/source/mod.rs'
K = 'src/key.rs'

# ---- C03
V('c03-reversed-extensions', 'C03', 'C03.R1', (AS, '''    for ext in T::EXTENSIONS {
        match load_with_ext(ext) {''', '''    for ext in T::EXTENSIONS.iter().rev() {
        match load_with_ext(ext) {'''))
V('c03-last-ok-wins', 'C03', 'C03.R1', (AS, '''    let mut error = ErrorKind::NoDefaultValue;

    for ext in T::EXTENSIONS {
        match load_with_ext(ext) {
            Err(err) => error = err.or(error),
            Ok(asset) => return Ok(asset),
        }
    }

    T::default_value(id, error.into())''', '''    let mut error = ErrorKind::NoDefaultValue;
    let mut found = None;

    for ext in T::EXTENSIONS {
        match load_with_ext(ext) {
            Err(err) => error = err.or(error),
            Ok(asset) => found = Some(asset),
        }
    }

    match found {
        Some(asset) => Ok(asset),
        None => T::default_value(id, error.into()),
    }'''))
V('c03-error-overwritten', 'C03', 'C03.R1', (AS, '''            Err(err) => error = err.or(error),''', '''            Err(err) => error = err,'''))
V('c03-or-prefers-io', 'C03', 'C03.R2', (ER, '''            (Io(_), other @ Conversion(_)) => other,
''', ''''''))
V('c03-or-notfound-inverted', 'C03', 'C03.R2', (ER, '''if err.kind() == io::ErrorKind::NotFound => other,''', '''if err.kind() != io::ErrorKind::NotFound => other,'''))
V('c03-or-conversion-replaced', 'C03', 'C03.R2', (ER, '''            (NoDefaultValue, other) => other,''', '''            (NoDefaultValue, other) | (Conversion(_), other @ Io(_)) => other,'''))
V('c03-default-skipped', 'C03', 'C03.R3', (AS, '''    T::default_value(id, error.into())
}''', '''    match error {
        ErrorKind::Conversion(err) => Err(err),
        error => T::default_value(id, error.into()),
    }
}'''))
V('c03-error-names-other-id', 'C03', 'C03.R4', (K, '''                Err(err) => Err(Error::new(id, err)),''', '''                Err(err) => Err(Error::new(std::any::type_name::<T>().into(), err)),'''))
V('c03-with-cow-trims', 'C03', 'C03.R5', (SM, '''            FileContent::Slice(b) => f(Cow::Borrowed(b)),''', '''            FileContent::Slice(b) => f(Cow::Borrowed(b.strip_suffix(b"\\n").unwrap_or(b))),'''))
V('c03-wrong-ext-read', 'C03', 'C03.R1', (AS, '''            .read(id, ext)?''', '''            .read(id, T::EXTENSION)?'''))
V('c03-benign-or-if-let', 'C03', 'silent', (ER, '''        match (self, other) {
            (NoDefaultValue, other) => other,
            (Io(_), other @ Conversion(_)) => other,
            (Io(err), other @ Io(_)) if err.kind() == io::ErrorKind::NotFound => other,
            (this, _) => this,
        }''', '''        match (self, other) {
            (NoDefaultValue, other) => other,
            (this @ Conversion(_), _) => this,
            (Io(_), other @ Conversion(_)) => other,
            (Io(err), other @ Io(_)) => {
                if err.kind() == io::ErrorKind::NotFound {
                    other
                } else {
                    Io(err)
                }
            }
            (this @ Io(_), NoDefaultValue) => this,
        }'''))

DI = 'src/dirs.rs'

# ---- C11
V('c11-no-dedup', 'C11', 'C11.R1', (DI, '''        ids.sort_unstable();
        ids.dedup();''', '''        ids.sort_unstable();'''))
V('c11-dedup-before-sort', 'C11', 'C11.R1', (DI, '''        ids.sort_unstable();
        ids.dedup();''', '''        ids.dedup();
        ids.sort_unstable();'''))
V('c11-missing-dir-is-empty', 'C11', 'C11.R1', (DI, '''        let mut ids = T::select_ids(cache, id)?;''', '''        let mut ids = T::select_ids(cache, id).unwrap_or_default();'''))
V('c11-any-extension', 'C11', 'C11.R2', (DI, '''                    if extensions.contains(&ext) {
                        ids.push(id.into());
                    }''', '''                    if extensions.contains(&ext) || ext.is_empty() {
                        ids.push(id.into());
                    }'''))
V('c11-dirs-listed-as-files', 'C11', 'C11.R2', (DI, '''                if let DirEntry::File(id, ext) = entry {
                    if extensions.contains(&ext) {
                        ids.push(id.into());
                    }
                }''', '''                match entry {
                    DirEntry::File(id, ext) if extensions.contains(&ext) => ids.push(id.into()),
                    DirEntry::Directory(id) if extensions.contains(&"") => ids.push(id.into()),
                    _ => (),
                }'''))
V('c11-failing-child-aborts', 'C11', 'C11.R3', (DI, '''        T::sub_directories(cache, id, |id| {
            if let Ok(child) = cache.load::<RecursiveDirectory<T>>(id) {
                ids.extend_from_slice(&child.read().ids);
            }
        })?;''', '''        let mut failed = false;
        T::sub_directories(cache, id, |id| match cache.load::<RecursiveDirectory<T>>(id) {
            Ok(child) => ids.extend_from_slice(&child.read().ids),
            Err(_) => {
                failed = true;
                ids.clear();
            }
        })?;
        let _ = failed;'''))
V('c11-rec-loads-plain-dir-children', 'C11', 'C11.R3', (DI, '''            if let Ok(child) = cache.load::<RecursiveDirectory<T>>(id) {''', '''            if let Ok(child) = cache.load::<Directory<T>>(id) {'''))
V('c11-iter-cached-loads', 'C11', 'C11.R4', (DI, '''impl<T> RecursiveDirectory<T>
where
    T: crate::Storable,
{''', '''impl<T> RecursiveDirectory<T>
where
    T: Compound,
{'''), (DI, '''        let cache = cache.as_any_cache();
        self.ids().filter_map(move |id| cache.get_cached(id))
    }
}

impl<T> RecursiveDirectory<T>
where
    T: Compound,
{
    /// Returns an iterator over the assets in the directory.''', '''        let cache = cache.as_any_cache();
        self.ids().filter_map(move |id| cache.load(id).ok())
    }
}

impl<T> RecursiveDirectory<T>
where
    T: Compound,
{
    /// Returns an iterator over the assets in the directory.'''))
V('c11-subdirs-forward-files-too', 'C11', 'C11.R3', (DI, '''            if let DirEntry::Directory(id) = entry {
                f(id);
            }''', '''            match entry {
                DirEntry::Directory(id) | DirEntry::File(id, "") => f(id),
                _ => (),
            }'''))

# ---- C12
V('c12-reintroduce-F6-remove', 'C12', 'C12.R1', (HW, '''                        notify::EventKind::Create(_)
                        | notify::EventKind::Remove(_)
                        | notify::EventKind::Modify(notify::event::ModifyKind::Name(_)) => {
                            match path.parent() {
                                Some(parent) => vec![&path, parent],
                                None => vec![&*path],
                            }
                        }''', '''                        notify::EventKind::Create(_)
                        | notify::EventKind::Modify(notify::event::ModifyKind::Name(_)) => {
                            match path.parent() {
                                Some(parent) => vec![&path, parent],
                                None => vec![&*path],
                            }
                        }
                        notify::EventKind::Remove(_) => match path.parent() {
                            Some(parent) => vec![parent],
                            None => vec![],
                        },'''))
V('c12-reintroduce-F6-rename', 'C12', 'C12.R1', (HW, '''                        | notify::EventKind::Modify(notify::event::ModifyKind::Name(_)) => {''', '''                        => {'''))
V('c12-create-without-parent', 'C12', 'C12.R1', (HW, '''                                Some(parent) => vec![&path, parent],''', '''                                Some(_parent) => vec![&*path],'''))
V('c12-access-emits', 'C12', 'C12.R1', (HW, '''                        notify::EventKind::Any | notify::EventKind::Modify(_) => vec![&*path],
                        notify::EventKind::Access(_) | notify::EventKind::Other => return,''', '''                        notify::EventKind::Any | notify::EventKind::Modify(_) | notify::EventKind::Access(_) => vec![&*path],
                        notify::EventKind::Other => return,'''))
V('c12-reintroduce-O1', 'C12', 'C12.R6', (HW, '''    // The root directory itself has the empty id
    if path == root {
        return Some(OwnedDirEntry::Directory(id_builder.join()));
    }
''', ''''''))
V('c12-unwrap-in-id_of_path', 'C12', 'C12.R2', (HW, '''            path::Component::Normal(s) => id_builder.push(s.to_str()?)?,
            path::Component::ParentDir => id_builder.pop()?,
            path::Component::CurDir => continue,
            _ => return None,
        }
    }

    // Build the id of the file.''', '''            path::Component::Normal(s) => id_builder.push(s.to_str().unwrap())?,
            path::Component::ParentDir => id_builder.pop()?,
            path::Component::CurDir => continue,
            _ => return None,
        }
    }

    // Build the id of the file.'''))
V('c12-parentdir-skipped', 'C12', 'C12.R3', (HW, '''            path::Component::ParentDir => id_builder.pop()?,
            path::Component::CurDir => continue,
            _ => return None,
        }
    }

    // Build the id of the file.''', '''            path::Component::ParentDir | path::Component::CurDir => continue,
            _ => return None,
        }
    }

    // Build the id of the file.'''))
V('c12-dot-segments-accepted', 'C12', 'C12.R4', (U, '''        if s.contains('.') {
            return None;
        }
''', '''        if s.starts_with('.') {
            return None;
        }
'''))
V('c12-kind-from-extension', 'C12', 'C12.R5', (HW, '''    let entry = if path.is_dir() {''', '''    let entry = if path.extension().is_none() {'''))

BY = 'src/utils/bytes.rs'
ST = 'src/utils/string.rs'

# ---- C16
V('c16-drop-when-zero', 'C16', 'C16.R2', (BY, 'if self.inner().count.fetch_sub(1, Ordering::Release) == 1 {', 'if self.inner().count.fetch_sub(1, Ordering::Release) == 0 {'))
V('c16-relaxed-decrement', 'C16', 'C16.R2', (BY, 'if self.inner().count.fetch_sub(1, Ordering::Release) == 1 {', 'if self.inner().count.fetch_sub(1, Ordering::Relaxed) == 1 {'))
V('c16-no-acquire', 'C16', 'C16.R2', (BY, '''        // Synchronize with `drop`
        inner.count.load(Ordering::Acquire);
''', ''''''))
V('c16-count-starts-at-zero', 'C16', 'C16.R1', (BY, '''            let len = bytes.len();
            let capacity = bytes.capacity();
            ptr.as_ptr().write(Inner {
                count: AtomicUsize::new(1),''', '''            let len = bytes.len();
            let capacity = bytes.capacity();
            ptr.as_ptr().write(Inner {
                count: AtomicUsize::new(0),'''))
V('c16-clone-no-increment', 'C16', 'C16.R2', (BY, '''        self.inner().count.fetch_add(1, Ordering::Relaxed);
        Self { ptr: self.ptr }''', '''        Self { ptr: self.ptr }'''))
V('c16-dealloc-layouts-swapped', 'C16', 'C16.R1', (BY, '''        let layout = if inner.capacity != 0 {''', '''        let layout = if inner.capacity == 0 {'''))
V('c16-vec-leaked', 'C16', 'C16.R1', (BY, '''            drop(Vec::from_raw_parts(
                inner.ptr as *mut u8,
                inner.len,
                inner.capacity,
            ));
            alloc::Layout::new::<Inner>()''', '''            std::mem::forget(Vec::from_raw_parts(
                inner.ptr as *mut u8,
                inner.len,
                inner.capacity,
            ));
            alloc::Layout::new::<Inner>()'''))
V('c16-copy-one-short', 'C16', 'C16.R1', (BY, 'std::ptr::copy_nonoverlapping(bytes.as_ptr(), bytes_ptr, len);', 'std::ptr::copy_nonoverlapping(bytes.as_ptr(), bytes_ptr, len.saturating_sub(1));'))
V('c16-deref-mut', 'C16', 'C16.R3', (BY, '''impl Clone for SharedBytes {''', '''impl std::ops::DerefMut for SharedBytes {
    fn deref_mut(&mut self) -> &mut [u8] {
        let inner = self.inner();
        unsafe { std::slice::from_raw_parts_mut(inner.ptr as *mut u8, inner.len) }
    }
}

impl Clone for SharedBytes {'''))
V('c16-from-utf8-unchecked', 'C16', 'C16.R4', (ST, '''        let _ = str::from_utf8(&bytes)?;
        Ok(SharedString { bytes })''', '''        if bytes.len() > 16 {
            let _ = str::from_utf8(&bytes)?;
        }
        Ok(SharedString { bytes })'''))
V('c16-eq-swapped-prefix', 'C16', 'C16.R5', (ST, '''impl PartialOrd<str> for SharedString {
    fn partial_cmp(&self, other: &str) -> Option<cmp::Ordering> {
        Some((**self).cmp(other))''', '''impl PartialOrd<str> for SharedString {
    fn partial_cmp(&self, other: &str) -> Option<cmp::Ordering> {
        Some(other.cmp(&**self))'''))
V('c16-hash-len-only', 'C16', 'C16.R5', (BY, '''        self.as_ref().hash(hasher);''', '''        self.as_ref().len().hash(hasher);'''))
V('c16-benign-acqrel', 'C16', 'silent', (BY, 'if self.inner().count.fetch_sub(1, Ordering::Release) == 1 {', 'if self.inner().count.fetch_sub(1, Ordering::AcqRel) == 1 {'))

CE = 'src/utils/cell.rs'

# ---- C17
V('c17-drop-arms-swapped', 'C17', 'C17.R5', (CE, '''                Some(_) => ManuallyDrop::drop(&mut data.init),
                None => ManuallyDrop::drop(&mut data.uninit),''', '''                Some(_) => ManuallyDrop::drop(&mut data.uninit),
                None => ManuallyDrop::drop(&mut data.init),'''))
V('c17-needs-drop-inverted', 'C17', 'C17.R4', (CE, '''        if std::mem::needs_drop::<U>() {
            self.get_or_try_init_default(f)
        } else {
            self.get_or_try_init_no_drop(f)
        }''', '''        if std::mem::needs_drop::<T>() {
            self.get_or_try_init_default(f)
        } else {
            self.get_or_try_init_no_drop(f)
        }'''))
V('c17-state-written-before-check', 'C17', 'C17.R2', (CE, '''                let value = f(&mut state.uninit)?;

                // The uninit value is forgotten here which is what the caller
                // asked
                *state = State {
                    init: ManuallyDrop::new(value),
                };

                Ok(())''', '''                match f(&mut state.uninit) {
                    Ok(value) => {
                        *state = State {
                            init: ManuallyDrop::new(value),
                        };
                        Ok(())
                    }
                    Err(err) => {
                        // reset the seed
                        *state = State {
                            uninit: std::mem::zeroed(),
                        };
                        Err(err)
                    }
                }'''))
V('c17-seed-dropped-in-closure', 'C17', 'C17.R3', (CE, '''                let uninit = std::mem::replace(state, new_state).uninit;
                uninit_value = Some(ManuallyDrop::into_inner(uninit));
                Ok(())''', '''                let uninit = std::mem::replace(state, new_state).uninit;
                let seed = ManuallyDrop::into_inner(uninit);
                if std::mem::size_of::<U>() > 0 {
                    drop(seed);
                } else {
                    uninit_value = Some(seed);
                }
                Ok(())'''))
V('c17-get-initialises', 'C17', 'C17.R6', (CE, '''        match self.once.get() {
            Some(_) => unsafe { Some(self.get_unchecked()) },
            None => None,
        }''', '''        match self.once.wait() {
            _ => unsafe { Some(self.get_unchecked()) },
        }'''))
V('c17-unchecked-without-once', 'C17', 'C17.R1', (CE, '''    pub fn get(&self) -> Option<&T> {''', '''    pub fn peek(&self) -> &T {
        unsafe { self.get_unchecked() }
    }

    #[inline]
    pub fn get(&self) -> Option<&T> {'''))
V('c17-sync-without-u-send', 'C17', 'C17.R7', (CE, '''unsafe impl<U, T> Sync for OnceInitCell<U, T>
where
    T: Send + Sync,
    U: Send,
{
}''', '''unsafe impl<U, T> Sync for OnceInitCell<U, T>
where
    T: Send + Sync,
{
}'''))
V('c17-mutate-outside-once', 'C17', 'C17.R1', (CE, '''    #[inline]
    unsafe fn get_unchecked(&self) -> &T {''', '''    /// Replaces the seed.
    pub fn reseed(&self, value: U) {
        if self.once.get().is_none() {
            unsafe {
                let state = &mut *self.data.get();
                *state.uninit = value;
            }
        }
    }

    #[inline]
    unsafe fn get_unchecked(&self) -> &T {'''))


# ---- witness-decided variants (run with the compile_fail witnesses enabled)
V('w10b-check-const-not-evaluated', 'C10', 'C10.W', (E, """        let _ = T::_CHECK_NOT_HOT_RELOADED;
        self.inner.get()""", """        self.inner.get()"""), witness=True)
V('w1a-remove-by-shared-ref', 'C01', 'C01.W', (C, """    pub fn remove<T: Storable>(&mut self, id: &str) -> bool {
        let removed = self.assets.remove(id, TypeId::of::<T>());""", """    pub fn remove<T: Storable>(&self, id: &str) -> bool {
        let removed = self.assets.remove_shared(id, TypeId::of::<T>());"""), (C, """    fn clear(&mut self) {
        for shard in &mut *self.shards {""", """    fn remove_shared(&self, id: &str, type_id: TypeId) -> bool {
        let key = BorrowedKey::new_with(id, type_id);
        self.get_shard(key).0.write().remove(&key as &dyn Key).is_some()
    }

    fn clear(&mut self) {
        for shard in &mut *self.shards {"""), witness=True)
V('w16-index-mut', 'C16', 'C16.W', (BY, """impl Clone for SharedBytes {""", """impl std::ops::IndexMut<usize> for SharedBytes {
    fn index_mut(&mut self, i: usize) -> &mut u8 {
        let inner = self.inner();
        unsafe { &mut std::slice::from_raw_parts_mut(inner.ptr as *mut u8, inner.len)[i] }
    }
}

impl std::ops::Index<usize> for SharedBytes {
    type Output = u8;
    fn index(&self, i: usize) -> &u8 {
        &(**self)[i]
    }
}

impl Clone for SharedBytes {"""), witness=True)
V('w7a-static-not-required', 'C07', 'C07.W', (C, """    pub fn enhance_hot_reloading(&'static self) {
        if let Some(reloader) = &self.reloader {
            reloader.send_static(&self.assets);
        }
    }""", """    pub fn enhance_hot_reloading(&self) {
        if let Some(reloader) = &self.reloader {
            let reloader: &'static HotReloader = unsafe { &*(reloader as *const HotReloader) };
            let assets: &'static AssetMap = unsafe { &*(&self.assets as *const AssetMap) };
            reloader.send_static(assets);
        }
    }"""), witness=True)

# ---- added after the first round of independently seeded changes
V('c05-batch-only-first-event', 'C05', 'C05.R7', (H, '''            Self::Multiple(e) => e.into_iter().for_each(f),''', '''            Self::Multiple(e) => e.into_iter().take(1).for_each(f),'''))
V('c05-events-dropped-when-busy', 'C05', 'C05.R7', (HP, '''            if self.deps.contains(&entry) {
                log::trace!("New event: {entry:?}");
                self.to_reload.insert(entry);
            }''', '''            if self.deps.contains(&entry) && self.to_reload.len() < 64 {
                log::trace!("New event: {entry:?}");
                self.to_reload.insert(entry);
            }'''))
V('c14-file-dep-swapped', 'C14', 'C14.R6', (HRc, '''            self.records.0.insert(Dependency::File(id, ext));''', '''            self.records.0.insert(Dependency::File(ext, id));'''))
V('c06-ok-reload-not-written-when-equal-id', 'C06', 'C06.R2', (A, '''            Ok(e) => {
                handle.write(e);''', '''            Ok(e) => {
                if !e.id().is_empty() {
                    handle.write(e);
                }'''))
V('c03-seed-break-on-conversion', 'C03', 'C03.R1', (AS, '''            Err(err) => error = err.or(error),
            Ok(asset) => return Ok(asset),''', '''            Ok(asset) => return Ok(asset),
            Err(err @ ErrorKind::Conversion(_)) => {
                error = err;
                break;
            }
            Err(err) => error = err.or(error),'''))
V('c06-seed-subset-deps', 'C06', 'C09.R3', (HD, '''                if let Some(new_deps) = new_deps {
                    self.insert(Dependency::Asset(key), new_deps, typ);
                }''', '''                if let Some(new_deps) = new_deps {
                    if new_deps.iter().any(|d| !entry.deps.iter().any(|o| o == d)) {
                        self.insert(Dependency::Asset(key), new_deps, typ);
                    }
                }'''))
V('c05-seed-orphan-node-dropped', 'C05', 'C05.R4', (HD, '''                    let removed = match self.0.get_mut(&key) {
                        Some(entry) => entry.rdeps.remove(&asset_key),
                        None => false,
                    };''', '''                    let removed = match self.0.get_mut(&key) {
                        Some(entry) => entry.rdeps.remove(&asset_key),
                        None => false,
                    };
                    if self.0.get(&key).map_or(false, |n| n.rdeps.is_empty()) {
                        self.0.remove(&key);
                    }'''))
V('c10-descriptor-always-reloadable', 'C10', 'C10.R7', (K, '''        &Self {
            hot_reloaded: T::HOT_RELOADED,
            load: load_entry::<T>,
        }''', '''        &Self {
            hot_reloaded: true,
            load: load_entry::<T>,
        }'''))
V('c10-arc-ignores-opt-out', 'C10', 'C10.R7', (AS, '''        Ok(Arc::new(asset))
    }

    const HOT_RELOADED: bool = T::HOT_RELOADED;''', '''        Ok(Arc::new(asset))
    }

    const HOT_RELOADED: bool = true;'''))
V('c16-seed-shrink-after-capacity', 'C16', 'C16.R1', (BY, '''            let bytes = std::mem::ManuallyDrop::new(bytes);
            let bytes_ptr = bytes.as_ptr();
            let len = bytes.len();
            let capacity = bytes.capacity();''', '''            let mut bytes = std::mem::ManuallyDrop::new(bytes);
            let len = bytes.len();
            let capacity = bytes.capacity();
            if capacity / 2 > len {
                bytes.shrink_to_fit();
            }
            let bytes_ptr = bytes.as_ptr();'''))
V('c12-seed-reset-after-build', 'C12', 'C12.R7', (HW, '''    id_builder.reset();

    // The root directory itself has the empty id
    if path == root {
        return Some(OwnedDirEntry::Directory(id_builder.join()));
    }
''', '''    // The root directory itself has the empty id
    if path == root {
        return Some(OwnedDirEntry::Directory("".into()));
    }
'''), (HW, '''    let id = id_builder.join();

    let entry = if path.is_dir() {''', '''    let id = id_builder.join();
    id_builder.reset();

    let entry = if path.is_dir() {'''))
V('c12-benign-root-literal', 'C12', 'silent', (HW, '''        return Some(OwnedDirEntry::Directory(id_builder.join()));''', '''        return Some(OwnedDirEntry::Directory("".into()));'''))
V('c15-thread-keeps-a-sender', 'C15', 'C15.R4', (H, '''        let answers_clone = answers.clone();

        thread::Builder::new()
            .name("assets_hot_reload".to_string())
            .spawn(|| hot_reloading_thread(source, events, cache_msg_rx, answers_clone))
            .unwrap();''', '''        let answers_clone = answers.clone();
        let keep_alive = cache_msg_tx.clone();

        thread::Builder::new()
            .name("assets_hot_reload".to_string())
            .spawn(move || {
                let _keep_alive = keep_alive;
                hot_reloading_thread(source, events, cache_msg_rx, answers_clone)
            })
            .unwrap();'''))
V('c03-default-value-swallows-error', 'C03', 'C03.R6', (AS, '''    fn default_value(id: &SharedString, error: BoxedError) -> Result<Self, BoxedError> {
        Err(error)
    }''', '''    fn default_value(id: &SharedString, error: BoxedError) -> Result<Self, BoxedError> {
        Err(format!("could not load {id}: {error}").into())
    }'''))


# ---- F8 area: registration through the on_insert callback of AssetMap::insert
V('c10-reintroduce-F8', 'C10', 'C10.R3', (A, """        let handle = self.assets().insert(entry, || {
            #[cfg(feature = "hot-reloading")]
            if let (Some(deps), Some(reloader)) = (_deps, self.reloader()) {
                reloader.add_asset(id, deps, typ);
            }
        });""", """        #[cfg(feature = "hot-reloading")]
        if let (Some(deps), Some(reloader)) = (_deps, self.reloader()) {
            reloader.add_asset(id, deps, typ);
        }
        let handle = self.assets().insert(entry, || ());"""))
V('c10-on-insert-always-called', 'C10', 'C10.R8', (C, """        let entry = shard.entry(key).or_insert_with(|| {
            on_insert();
            entry
        });""", """        on_insert();
        let entry = shard.entry(key).or_insert(entry);"""))
V('c05-on-insert-never-called', 'C05', 'C10.R8', (C, """        let entry = shard.entry(key).or_insert_with(|| {
            on_insert();
            entry
        });""", """        let _ = on_insert;
        let entry = shard.entry(key).or_insert(entry);"""))
V('c05-on-insert-only-for-short-ids', 'C05', 'C10.R8', (C, """        let entry = shard.entry(key).or_insert_with(|| {
            on_insert();
            entry
        });""", """        let entry = shard.entry(key).or_insert_with(|| {
            if entry.id().len() < 64 {
                on_insert();
            }
            entry
        });"""))
V('c08-callback-takes-shard-lock', 'C08', 'C08.R5', (A, """            if let (Some(deps), Some(reloader)) = (_deps, self.reloader()) {
                reloader.add_asset(id, deps, typ);""", """            if let (Some(deps), Some(reloader)) = (_deps, self.reloader()) {
                if !self.assets().contains_key(&id, typ.type_id) {
                    log::trace!("registering {id}");
                }
                reloader.add_asset(id, deps, typ);"""))
V('c02-insert-stores-other-entry', 'C02', 'C10.R8', (L, """        let entry = map.entry(key).or_insert_with(|| {
            on_insert();
            entry
        });""", """        let entry = map.entry(key).or_insert_with(|| {
            on_insert();
            CacheEntry::new(0u8, entry.id().clone(), || false)
        });"""))
V('c10-benign-insert-match-form', 'C10', 'silent', (C, """        let entry = shard.entry(key).or_insert_with(|| {
            on_insert();
            entry
        });""", """        let entry = match shard.entry(key) {
            std::collections::hash_map::Entry::Occupied(e) => e.into_mut(),
            std::collections::hash_map::Entry::Vacant(e) => {
                on_insert();
                e.insert(entry)
            }
        };"""), (L, """        let entry = map.entry(key).or_insert_with(|| {
            on_insert();
            entry
        });""", """        let entry = match map.entry(key) {
            std::collections::hash_map::Entry::Occupied(e) => e.into_mut(),
            std::collections::hash_map::Entry::Vacant(e) => {
                on_insert();
                e.insert(entry)
            }
        };"""))
V('c10-benign-get_or_insert-static', 'C10', 'silent', (A, """        let entry = CacheEntry::new(asset, id, || self._has_reloader());""", """        // values stored with get_or_insert are never reloaded, they need no lock
        let entry = CacheEntry::new(asset, id, || false);"""))
V('c10-benign-owned-registers-failed-load', 'C10', 'silent', (A, """        if let (Ok(_), Some(deps), Some(reloader)) = (&entry, _deps, self.reloader()) {""", """        if let (Some(deps), Some(reloader)) = (_deps, self.reloader()) {"""))
V('c05-unrecorded-load-for-long-ids', 'C05', 'C05.R2', ('src/asset.rs', """    if typ.is_hot_reloaded() {
        if let Some(reloader) = cache.reloader() {
            let (entry, deps) =""", """    if typ.is_hot_reloaded() && id.len() < 64 {
        if let Some(reloader) = cache.reloader() {
            let (entry, deps) ="""))
V('c10-register-type-swapped', 'C05', 'C05.R2', (A, """                reloader.add_asset(id, deps, typ);""", """                reloader.add_asset(id, deps, Type::of::<crate::SharedString>());"""))
