"""Seeded variants of /repo for the checker's self-test (DESIGN.md section 9).
Each compiles and keeps the 30 pinned tests green (verified when written).
expect: a rule id that must fire, or 'silent' for a behaviour-preserving edit."""

VARIANTS = []


def V(id, prop, expect, *edits):
    VARIANTS.append({'id': id, 'prop': prop, 'expect': expect, 'edits': list(edits)})


E = 'src/entry.rs'

# ---- C18
V('c18-ge-for-gt', 'C18', 'C18.R1', (E, 'let newer = new > *self;', 'let newer = new >= *self;'))
V('c18-swap-for-fetchmax', 'C18', 'C18.R2', (E, 'new > self.fetch_max(new)', 'new > self.swap(new)'))
V('c18-atomic-ge', 'C18', 'C18.R2', (E, 'new > self.fetch_max(new)', 'new >= self.fetch_max(new)'))
V('c18-fetchmax-is-swap', 'C18', 'C18.R3', (E, 'ReloadId(self.0.fetch_max(new.0, Ordering::AcqRel))', 'ReloadId(self.0.swap(new.0, Ordering::AcqRel))'))
V('c18-relaxed-load', 'C18', 'C18.R3', (E, 'ReloadId(self.0.load(Ordering::Acquire))', 'ReloadId(self.0.load(Ordering::Relaxed))'))
V('c18-never-is-one', 'C18', 'C18.R3', (E, 'pub const NEVER: Self = Self(0);', 'pub const NEVER: Self = Self(1);'))
V('c18-always-store', 'C18', 'C18.R1', (E, '''        if newer {
            *self = new;
        }
        newer''', '''        *self = new;
        newer'''))
V('c18-benign-lt', 'C18', 'silent', (E, 'let newer = new > *self;', 'let newer = *self < new;'))
V('c18-benign-rename', 'C18', 'silent', (E, '''        let newer = new > *self;
        if newer {
            *self = new;
        }
        newer''', '''        let is_more_recent = new > *self;
        if is_more_recent {
            *self = new;
            return true;
        }
        false'''))
