//! Compile-fail witnesses (primitive P8 of DESIGN.md): each `compile_fail,E0xxx`
//! doctest shows that a program violating a type-level clause of a property is
//! rejected by the compiler *for that reason* (the error code is enforced on
//! nightly), and is paired with a compiling twin that differs only by the
//! offending line -- a witness whose path is merely wrong would also "fail to
//! compile" and pass vacuously.
//!
//! Run by `sa/witness.py` with `cargo +nightly test --doc --offline`.

/// W1a (C01/C13): a handle cannot be held across `remove`.
///
/// ```compile_fail,E0502
/// use assets_manager::{AssetCache, source::Empty};
/// let mut cache = AssetCache::with_source(Empty);
/// let handle = cache.get_or_insert::<i32>("a", 1);
/// cache.remove::<i32>("a");
/// let _ = handle.copied();
/// ```
///
/// twin:
///
/// ```
/// use assets_manager::{AssetCache, source::Empty};
/// let mut cache = AssetCache::with_source(Empty);
/// let handle = cache.get_or_insert::<i32>("a", 1);
/// let _ = handle.copied();
/// cache.remove::<i32>("a");
/// ```
pub struct W1a;

/// W1a' (C01): the same for `take` and `clear`, and for `LocalAssetCache`.
///
/// ```compile_fail,E0502
/// use assets_manager::{LocalAssetCache, source::Empty};
/// let mut cache = LocalAssetCache::with_source(Empty);
/// let handle = cache.get_or_insert::<i32>("a", 1);
/// cache.clear();
/// let _ = handle.copied();
/// ```
///
/// ```
/// use assets_manager::{LocalAssetCache, source::Empty};
/// let mut cache = LocalAssetCache::with_source(Empty);
/// let handle = cache.get_or_insert::<i32>("a", 1);
/// let _ = handle.copied();
/// cache.clear();
/// ```
pub struct W1a2;

/// W1b (C01): a handle cannot outlive its cache.
///
/// ```compile_fail,E0597
/// use assets_manager::{AssetCache, Handle, source::Empty};
/// let handle: &Handle<i32>;
/// {
///     let cache = AssetCache::with_source(Empty);
///     handle = cache.get_or_insert::<i32>("a", 1);
/// }
/// let _ = handle.copied();
/// ```
///
/// ```
/// use assets_manager::{AssetCache, Handle, source::Empty};
/// let handle: &Handle<i32>;
/// {
///     let cache = AssetCache::with_source(Empty);
///     handle = cache.get_or_insert::<i32>("a", 1);
///     let _ = handle.copied();
/// }
/// ```
pub struct W1b;

/// W1c (C01): the same through the `AnyCache` front-end.
///
/// ```compile_fail,E0597
/// use assets_manager::{AssetCache, Handle, source::Empty};
/// let handle: &Handle<i32>;
/// {
///     let cache = AssetCache::with_source(Empty);
///     handle = cache.as_any_cache().get_or_insert::<i32>("a", 1);
/// }
/// let _ = handle.copied();
/// ```
///
/// ```
/// use assets_manager::{AssetCache, Handle, source::Empty};
/// let handle: &Handle<i32>;
/// {
///     let cache = AssetCache::with_source(Empty);
///     handle = cache.as_any_cache().get_or_insert::<i32>("a", 1);
///     let _ = handle.copied();
/// }
/// ```
pub struct W1c;

/// W7a (C07): the mode in which values change outside `hot_reload` needs a
/// `'static` cache.
///
/// ```compile_fail,E0597
/// use assets_manager::{AssetCache, source::Empty};
/// let cache = AssetCache::with_source(Empty);
/// cache.enhance_hot_reloading();
/// ```
///
/// ```
/// use assets_manager::{AssetCache, source::Empty};
/// let cache: &'static AssetCache<Empty> = Box::leak(Box::new(AssetCache::with_source(Empty)));
/// cache.enhance_hot_reloading();
/// ```
pub struct W7a;

/// W7b (C07): a read guard cannot outlive the cache it reads from.
///
/// ```compile_fail,E0505
/// use assets_manager::{AssetCache, source::Empty};
/// let cache = AssetCache::with_source(Empty);
/// let guard = cache.get_or_insert::<i32>("a", 1).read();
/// drop(cache);
/// let _ = *guard;
/// ```
///
/// ```
/// use assets_manager::{AssetCache, source::Empty};
/// let cache = AssetCache::with_source(Empty);
/// let guard = cache.get_or_insert::<i32>("a", 1).read();
/// let _ = *guard;
/// drop(guard);
/// drop(cache);
/// ```
pub struct W7b;

/// W7c (C07): a mapped guard keeps the borrow of the handle.
///
/// ```compile_fail,E0502
/// use assets_manager::{AssetCache, AssetReadGuard, source::Empty};
/// let mut cache = AssetCache::with_source(Empty);
/// let guard = AssetReadGuard::map(cache.get_or_insert::<Vec<i32>>("a", vec![1]).read(), |v| &v[0]);
/// cache.clear();
/// let _ = *guard;
/// ```
///
/// ```
/// use assets_manager::{AssetCache, AssetReadGuard, source::Empty};
/// let mut cache = AssetCache::with_source(Empty);
/// let guard = AssetReadGuard::map(cache.get_or_insert::<Vec<i32>>("a", vec![1]).read(), |v| &v[0]);
/// let _ = *guard;
/// drop(guard);
/// cache.clear();
/// ```
pub struct W7c;

/// W7d (C07): the reference handed to the closure of `AssetReadGuard::map`
/// cannot be smuggled out of it (the bound is higher-ranked), so no reference
/// to the value survives its guard.
///
/// ```compile_fail,E0521
/// use assets_manager::{AssetCache, AssetReadGuard, source::Empty};
/// let cache = AssetCache::with_source(Empty);
/// let handle = cache.get_or_insert::<Vec<i32>>("a", vec![1]);
/// let mut leaked: Option<&Vec<i32>> = None;
/// let guard = AssetReadGuard::map(handle.read(), |v| { leaked = Some(v); &v[0] });
/// drop(guard);
/// let _ = leaked.map(|v| v.len());
/// ```
///
/// ```
/// use assets_manager::{AssetCache, AssetReadGuard, source::Empty};
/// let cache = AssetCache::with_source(Empty);
/// let handle = cache.get_or_insert::<Vec<i32>>("a", vec![1]);
/// let mut leaked: Option<usize> = None;
/// let guard = AssetReadGuard::map(handle.read(), |v| { leaked = Some(v.len()); &v[0] });
/// drop(guard);
/// let _ = leaked;
/// ```
pub struct W7d;

/// W7e (C07): the same for `try_map`.
///
/// ```compile_fail,E0521
/// use assets_manager::{AssetCache, AssetReadGuard, source::Empty};
/// let cache = AssetCache::with_source(Empty);
/// let handle = cache.get_or_insert::<Vec<i32>>("a", vec![1]);
/// let mut leaked: Option<&Vec<i32>> = None;
/// let guard = AssetReadGuard::try_map(handle.read(), |v| { leaked = Some(v); v.first() });
/// drop(guard);
/// let _ = leaked.map(|v| v.len());
/// ```
///
/// ```
/// use assets_manager::{AssetCache, AssetReadGuard, source::Empty};
/// let cache = AssetCache::with_source(Empty);
/// let handle = cache.get_or_insert::<Vec<i32>>("a", vec![1]);
/// let mut leaked: Option<usize> = None;
/// let guard = AssetReadGuard::try_map(handle.read(), |v| { leaked = Some(v.len()); v.first() });
/// drop(guard);
/// let _ = leaked;
/// ```
pub struct W7e;

/// W10a (C10): `Handle::get` does not exist for a reloadable type.
///
/// ```compile_fail,E0599
/// use assets_manager::{AssetCache, source::Empty};
/// let cache = AssetCache::with_source(Empty);
/// let handle = cache.get_or_insert::<String>("a", String::new());
/// let _: &String = handle.get();
/// ```
///
/// ```
/// use assets_manager::{AssetCache, source::Empty};
/// let cache = AssetCache::with_source(Empty);
/// let handle = cache.get_or_insert::<String>("a", String::new());
/// let _ = handle.read().len();
/// ```
pub struct W10a;

/// W10b (C10): declaring a reloadable type `NotHotReloaded` and calling `get`
/// does not build (`_CHECK_NOT_HOT_RELOADED`).
///
/// ```compile_fail,E0080
/// use assets_manager::{asset::NotHotReloaded, AssetCache, AnyCache, BoxedError, Compound, SharedString, source::Empty};
/// struct A(u8);
/// impl Compound for A {
///     fn load(_: AnyCache, _: &SharedString) -> Result<Self, BoxedError> { Ok(A(0)) }
///     const HOT_RELOADED: bool = true;
/// }
/// impl NotHotReloaded for A {}
/// let cache = AssetCache::with_source(Empty);
/// let handle = cache.get_or_insert::<A>("a", A(1));
/// let _ = handle.get().0;
/// ```
///
/// ```
/// use assets_manager::{asset::NotHotReloaded, AssetCache, AnyCache, BoxedError, Compound, SharedString, source::Empty};
/// struct A(u8);
/// impl Compound for A {
///     fn load(_: AnyCache, _: &SharedString) -> Result<Self, BoxedError> { Ok(A(0)) }
///     const HOT_RELOADED: bool = false;
/// }
/// impl NotHotReloaded for A {}
/// let cache = AssetCache::with_source(Empty);
/// let handle = cache.get_or_insert::<A>("a", A(1));
/// let _ = handle.get().0;
/// ```
pub struct W10b;

/// W13 (C13): a typed handle cannot be obtained from an untyped one without a
/// check: `downcast_ref` is an `Option`.
///
/// ```compile_fail,E0308
/// use assets_manager::{AssetCache, Handle, source::Empty};
/// let cache = AssetCache::with_source(Empty);
/// let untyped = cache.get_or_insert::<i32>("a", 1).as_untyped();
/// let _: &Handle<u64> = untyped.downcast_ref::<u64>();
/// ```
///
/// ```
/// use assets_manager::{AssetCache, Handle, source::Empty};
/// let cache = AssetCache::with_source(Empty);
/// let untyped = cache.get_or_insert::<i32>("a", 1).as_untyped();
/// let _: Option<&Handle<u64>> = untyped.downcast_ref::<u64>();
/// ```
pub struct W13;

/// W16 (C16): shared bytes cannot be written through.
///
/// ```compile_fail,E0594
/// use assets_manager::SharedBytes;
/// let mut bytes = SharedBytes::from(&b"abc"[..]);
/// bytes[0] = 1;
/// ```
///
/// ```
/// use assets_manager::SharedBytes;
/// let mut bytes = SharedBytes::from(&b"abc"[..]);
/// let _ = bytes[0];
/// bytes = bytes.clone();
/// let _ = bytes;
/// ```
pub struct W16;

/// W16b (C16): nor can a shared string.
///
/// ```compile_fail,E0596
/// use assets_manager::SharedString;
/// let mut s = SharedString::from("abc");
/// s.make_ascii_uppercase();
/// ```
///
/// ```
/// use assets_manager::SharedString;
/// let mut s = SharedString::from("abc");
/// let _ = s.to_ascii_uppercase();
/// s = s.clone();
/// let _ = s;
/// ```
pub struct W16b;

/// W17 (C17): a `OnceInitCell` whose value is not `Sync` cannot be shared.
///
/// ```compile_fail,E0277
/// use assets_manager::OnceInitCell;
/// use std::cell::Cell;
/// let cell: OnceInitCell<u8, Cell<u8>> = OnceInitCell::new(0);
/// std::thread::scope(|s| {
///     s.spawn(|| { let _ = cell.get(); });
/// });
/// ```
///
/// ```
/// use assets_manager::OnceInitCell;
/// let cell: OnceInitCell<u8, u8> = OnceInitCell::new(0);
/// std::thread::scope(|s| {
///     s.spawn(|| { let _ = cell.get(); });
/// });
/// ```
pub struct W17;

/// W17b (C17): nor one whose seed is not `Send`.
///
/// ```compile_fail,E0277
/// use assets_manager::OnceInitCell;
/// use std::rc::Rc;
/// let cell: OnceInitCell<Rc<u8>, u8> = OnceInitCell::new(Rc::new(0));
/// std::thread::scope(|s| {
///     s.spawn(|| { let _ = cell.get_or_init(|seed| **seed); });
/// });
/// ```
///
/// ```
/// use assets_manager::OnceInitCell;
/// use std::sync::Arc;
/// let cell: OnceInitCell<Arc<u8>, u8> = OnceInitCell::new(Arc::new(0));
/// std::thread::scope(|s| {
///     s.spawn(|| { let _ = cell.get_or_init(|seed| **seed); });
/// });
/// ```
pub struct W17b;
