#!/usr/bin/env python3
"""Development aid (not a registered check): systematic one-line mutants of the
files the properties are anchored in, to look for blind spots of the rules.

For every mutant, in a per-worker scratch copy of /repo (outside /repo and
/verif, removed at the end):
  1. it must compile with the hot-reloading feature set and with default features;
  2. the pinned suite (cargo test --lib, default features, 30 tests) must pass
     -- otherwise the mutant is uninteresting (`killed-by-tests`);
  3. `./check all --tier quick` runs on it; the rules that fire are recorded.
Survivors of (1)+(2) on which no rule fires are listed for triage by reading:
each is either an equivalent mutant (no property broken) or a miss.

  sa/mutate.py [-j 6] [--files regex] [--ops regex] [--limit N] [--out FILE]
"""
import argparse
import concurrent.futures as cf
import json
import os
import queue
import re
import shutil
import subprocess
import sys
import tempfile
import threading

HERE = os.path.dirname(os.path.abspath(__file__))
VERIF = os.path.dirname(HERE)
REPO = os.environ.get('AM_MUT_REPO', '/repo')
FEATS = 'hot-reloading,utils,zip,tar,embedded'

FILES = ['src/entry.rs', 'src/cache.rs', 'src/local_cache.rs', 'src/anycache.rs', 'src/asset.rs', 'src/key.rs', 'src/error.rs', 'src/dirs.rs',
         'src/loader.rs', 'src/utils/private.rs', 'src/utils/bytes.rs', 'src/utils/string.rs', 'src/utils/cell.rs', 'src/utils/mod.rs',
         'src/hot_reloading/mod.rs', 'src/hot_reloading/paths.rs', 'src/hot_reloading/dependencies.rs', 'src/hot_reloading/records.rs',
         'src/hot_reloading/watcher.rs', 'src/source/mod.rs', 'src/source/filesystem.rs', 'src/source/embedded.rs', 'src/source/zip.rs',
         'src/source/tar.rs']

SWAPS = [
    ('rel', r' == ', ' != '), ('rel', r' != ', ' == '), ('rel', r' < ', ' <= '), ('rel', r' > ', ' >= '), ('rel', r' <= ', ' < '),
    ('rel', r' >= ', ' > '), ('logic', r' && ', ' || '), ('logic', r' \|\| ', ' && '),
    ('bool', r'\btrue\b', 'false'), ('bool', r'\bfalse\b', 'true'),
    ('ordering', r'Ordering::(Acquire|Release|AcqRel|SeqCst)\b', 'Ordering::Relaxed'),
    ('pred', r'\.is_some\(\)', '.is_none()'), ('pred', r'\.is_none\(\)', '.is_some()'), ('pred', r'\.is_ok\(\)', '.is_err()'),
    ('pred', r'\.is_err\(\)', '.is_ok()'), ('pred', r'\.is_empty\(\)', '.is_empty() == false'),
    ('arith', r' \+ 1\b', ' + 0'), ('arith', r' - 1\b', ' - 0'), ('arith', r' \+= ', ' -= '), ('arith', r' -= ', ' += '),
    ('iter', r'\.rev\(\)', ''), ('loop', r'\bbreak;', 'continue;'), ('loop', r'\bcontinue;', 'break;'),
    ('opt', r'\bSome\(([a-z_]+)\) =>', r'Some(\1) if false =>'),
]


def code_lines(path):
    """(index, line) of lines that are code outside #[cfg(test)] modules"""
    lines = open(path).read().split('\n')
    out = []
    in_test = False
    depth = 0
    i = 0
    while i < len(lines):
        l = lines[i]
        s = l.strip()
        if not in_test and s.startswith('#[cfg(test)]') and i + 1 < len(lines) and re.match(r'\s*(pub )?mod \w+ \{', lines[i + 1]):
            in_test = True
            depth = 0
            i += 1
            depth += lines[i].count('{') - lines[i].count('}')
            i += 1
            continue
        if in_test:
            depth += l.count('{') - l.count('}')
            if depth <= 0:
                in_test = False
            i += 1
            continue
        if s and not s.startswith('//') and not s.startswith('#[') and not s.startswith('#!') and 'log::' not in s and 'debug_assert' not in s:
            out.append((i, l))
        i += 1
    return lines, out


def balanced(s):
    return s.count('(') == s.count(')') and s.count('{') == s.count('}') and s.count('[') == s.count(']')


def gen(files, ops):
    ms = []
    for f in files:
        p = os.path.join(REPO, f)
        if not os.path.exists(p):
            continue
        lines, code = code_lines(p)
        for i, l in code:
            s = l.strip()
            # statement deletion
            if re.search(ops, 'delete') and s.endswith(';') and balanced(s) and not re.match(
                    r'(let |use |return\b|break\b|continue\b|pub |fn |type |const |static |mod |impl |unsafe impl|extern |\}|where )', s) \
                    and not s.startswith('.'):
                ms.append({'file': f, 'line': i + 1, 'op': 'delete', 'old': l, 'new': re.match(r'\s*', l).group(0) + '();' if False else ''})
            # if negation
            m = re.match(r'^(\s*(?:\} else )?if )(?!let )(.*)( \{)$', l)
            if m and re.search(ops, 'negate') and balanced(m.group(2)):
                ms.append({'file': f, 'line': i + 1, 'op': 'negate', 'old': l, 'new': '%s!(%s)%s' % m.groups()})
            for name, rx, repl in SWAPS:
                if not re.search(ops, name):
                    continue
                for k, mm in enumerate(re.finditer(rx, l)):
                    # do not touch generics / lifetimes / attributes / strings roughly
                    pre = l[:mm.start()]
                    if pre.count('"') % 2 == 1:
                        continue
                    new = l[:mm.start()] + mm.expand(repl) + l[mm.end():]
                    if new != l:
                        ms.append({'file': f, 'line': i + 1, 'op': name, 'old': l, 'new': new})
    for n, m in enumerate(ms):
        m['id'] = 'm%04d' % n
    return ms


def sh(cmd, cwd, env, timeout=900):
    try:
        p = subprocess.run(cmd, cwd=cwd, env=env, shell=True, stdout=subprocess.PIPE, stderr=subprocess.STDOUT, text=True, timeout=timeout)
        return p.returncode, p.stdout
    except subprocess.TimeoutExpired as e:
        return 124, (e.stdout or '') if isinstance(e.stdout, str) else 'TIMEOUT'


class Worker:
    def __init__(self, n):
        self.tmp = tempfile.mkdtemp(prefix='ammut%d-' % n)
        self.dst = os.path.join(self.tmp, 'repo')
        shutil.copytree(REPO, self.dst, ignore=shutil.ignore_patterns('target', '.git'))
        self.env = dict(os.environ, CARGO_TARGET_DIR=os.path.join(self.tmp, 'target'), CARGO_NET_OFFLINE='true', RUSTFLAGS='-Awarnings')
        sh('cargo build --offline --features %s 2>&1 | tail -1; cargo test --offline --lib --no-run 2>&1 | tail -1' % FEATS, self.dst, self.env)

    def run(self, m):
        p = os.path.join(self.dst, m['file'])
        orig = open(p).read()
        lines = orig.split('\n')
        assert lines[m['line'] - 1] == m['old'], (m, lines[m['line'] - 1])
        lines[m['line'] - 1] = m['new']
        open(p, 'w').write('\n'.join(lines))
        res = dict(m)
        try:
            rc, o = sh('cargo build --offline --features %s' % FEATS, self.dst, self.env)
            if rc != 0:
                res['verdict'] = 'nocompile'
                return res
            rc, o = sh('cargo test --offline --lib', self.dst, self.env, timeout=300)
            if rc != 0 or 'test result: ok. 30 passed' not in o:
                res['verdict'] = 'killed-by-pinned-tests' if rc != 124 else 'pinned-tests-hang'
                return res
            rc, o = sh('cargo test --offline --lib --features hot-reloading,utils', self.dst, self.env, timeout=300)
            res['hr_tests'] = 'pass' if rc == 0 else ('hang' if rc == 124 else 'fail')
            cenv = dict(os.environ, AM_REPO=self.dst, AM_EVID=os.path.join(self.tmp, 'ev'), AM_CACHE=os.path.join(self.tmp, 'cache'),
                        AM_NO_SELFTEST='1', AM_NO_WITNESS='1')
            rc, o = sh('%s all --tier quick' % os.path.join(VERIF, 'check'), VERIF, cenv, timeout=900)
            fired = set()
            for line in o.splitlines():
                if line.startswith('VIOLATION'):
                    rp = line.split('replay=')[1].strip()
                    try:
                        r = json.load(open(rp))
                        fired.add('%s/%s' % (r['property'], r['rule']))
                    except Exception:
                        fired.add('?')
                if line.startswith('CHECK-ERROR'):
                    fired.add('CHECK-ERROR')
            shutil.rmtree(os.path.join(self.tmp, 'ev'), ignore_errors=True)
            shutil.rmtree(os.path.join(self.tmp, 'cache'), ignore_errors=True)
            res['fired'] = sorted(fired)
            res['verdict'] = 'detected' if fired else 'UNDETECTED'
            return res
        finally:
            open(p, 'w').write(orig)

    def close(self):
        shutil.rmtree(self.tmp, ignore_errors=True)


def main():
    ap = argparse.ArgumentParser()
    ap.add_argument('-j', type=int, default=6)
    ap.add_argument('--files', default='.')
    ap.add_argument('--ops', default='.')
    ap.add_argument('--limit', type=int, default=0)
    ap.add_argument('--out', default='/tmp/mutants.jsonl')
    ap.add_argument('--list', action='store_true')
    ap.add_argument('--skip-done', action='store_true')
    a = ap.parse_args()
    ms = gen([f for f in FILES if re.search(a.files, f)], a.ops)
    if a.limit:
        ms = ms[:a.limit]
    if a.list:
        for m in ms:
            print(m['id'], m['file'], m['line'], m['op'], m['new'].strip()[:100])
        print(len(ms), 'mutants')
        return 0
    done = set()
    if a.skip_done and os.path.exists(a.out):
        for l in open(a.out):
            r = json.loads(l)
            done.add((r['file'], r['line'], r['op'], r['new']))
    ms = [m for m in ms if (m['file'], m['line'], m['op'], m['new']) not in done]
    print(len(ms), 'mutants to run', flush=True)
    q = queue.Queue()
    for m in ms:
        q.put(m)
    lock = threading.Lock()
    out = open(a.out, 'a')

    def work(n):
        w = Worker(n)
        try:
            while True:
                try:
                    m = q.get_nowait()
                except queue.Empty:
                    return
                try:
                    r = w.run(m)
                except Exception as e:
                    r = dict(m, verdict='error', error=str(e)[:300])
                with lock:
                    out.write(json.dumps(r) + '\n')
                    out.flush()
                    print('%-22s %s %s:%d %s %s' % (r['verdict'], r['id'], r['file'], r['line'], r['op'], ','.join(r.get('fired', []))[:80]), flush=True)
        finally:
            w.close()

    ts = [threading.Thread(target=work, args=(n,)) for n in range(a.j)]
    for t in ts:
        t.start()
    for t in ts:
        t.join()
    return 0


if __name__ == '__main__':
    sys.exit(main())
