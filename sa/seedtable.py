#!/usr/bin/env python3
"""Rewrites the table of DESIGN.md section 12 from seeded/*/meta.json."""
import glob
import json
import os
import re

VERIF = os.path.dirname(os.path.dirname(os.path.abspath(__file__)))
rows = []
for f in sorted(glob.glob(os.path.join(VERIF, 'seeded', '*', 'meta.json'))):
    m = json.load(open(f))
    if 'id' not in m:
        continue
    first = 'MISSED' in m.get('history', '')
    rows.append('| `%s` | %s | %s | %s | %s |' % (
        m['id'], m['property'], m['change'].replace('|', '\\|'), '<br>'.join(m['detected_by']).replace('|', '\\|') or '**not detected**',
        ('missed at first; ' if first else '') + m.get('history', '').replace('|', '\\|')))
table = '\n'.join(['<!-- seedtable:begin -->', '| seeded change | property | what it does | checks that fire | history |', '|---|---|---|---|---|'] + rows + ['<!-- seedtable:end -->'])
p = os.path.join(VERIF, 'DESIGN.md')
t = open(p).read()
if '<!-- seedtable:begin -->' in t:
    t = re.sub(r'<!-- seedtable:begin -->.*<!-- seedtable:end -->', lambda _: table, t, flags=re.S)
else:
    t = t.rstrip('\n') + '\n\n' + table + '\n'
open(p, 'w').write(t)
print('%d seeded changes' % len(rows))
