#!/bin/sh
# sa/seed_ingest.sh <worktree> <seed-id> <demo features> [props]
set -e
wt=$1; id=$2; f=$3; props=${4:-all}
mkdir -p /verif/seeded/$id
cp $wt/seed/patch.diff $wt/seed/seed_demo.rs $wt/seed/README.md /verif/seeded/$id/
[ -f /verif/seeded/$id/meta.json ] || echo "{\"demo_features\":\"$f\"}" > /verif/seeded/$id/meta.json
grep "^[+-]" /verif/seeded/$id/patch.diff | grep -v "^+++\|^---" | head -60
python3 /verif/sa/seedcheck.py /verif/seeded/$id --props $props | python3 -c "
import json,sys
d=json.load(sys.stdin); print(json.dumps({k:v for k,v in d.items() if k not in ('dir','tests_hot_reloading','demo_with_tail')}, indent=1))"
